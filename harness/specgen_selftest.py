"""Self-test of harness/specgen.py.

    PYTHONPATH=/repo:/verif /venv/bin/python harness/specgen_selftest.py [N] [seed] [preset ...]

For every preset: N models; each is rendered under the reference layout and 3 random layouts; every rendering must be
accepted by the REAL stone compiler, and the canonical dump of the resulting Api must be the same for all four.
Prints acceptance, generation time and the feature-coverage table (percentage of models showing each feature).
Exit status 0 iff nothing was rejected / crashed / differed.
"""
import os
import sys
import time
import random
import traceback
import multiprocessing

sys.path.insert(0, os.path.dirname(os.path.dirname(os.path.abspath(__file__))))
sys.path.insert(0, os.environ.get('STONE_REPO', '/repo'))

from harness import specgen  # noqa: E402

N_LAYOUTS = 3


def ty(t):
    from stone.ir import Nullable, List, Map, Alias, Struct, Union, String, Timestamp
    if isinstance(t, Nullable):
        return ['nullable', ty(t.data_type)]
    if isinstance(t, List):
        return ['list', ty(t.data_type), t.min_items, t.max_items]
    if isinstance(t, Map):
        return ['map', ty(t.key_data_type), ty(t.value_data_type)]
    if isinstance(t, Alias):
        return ['alias', t.namespace.name, t.name]
    if isinstance(t, (Struct, Union)):
        return ['user', t.namespace.name, t.name]
    if isinstance(t, String):
        return ['String', t.min_length, t.max_length, t.pattern]
    if isinstance(t, Timestamp):
        return ['Timestamp', t.format]
    if hasattr(t, 'min_value'):
        return [t.name, repr(t.min_value), repr(t.max_value)]
    return [t.name]


def val(v):
    from stone.ir.data_types import TagRef
    if isinstance(v, TagRef):
        return ['tagref', v.union_data_type.name, v.tag_name]
    return repr(v)


def anno(a):
    if a is None:
        return None
    d = [type(a).__name__, a.namespace.name, a.name]
    for k in ('omitted_caller', 'regex'):
        if hasattr(a, k):
            d.append(getattr(a, k))
    if hasattr(a, 'annotation_type'):
        d += [a.annotation_type.namespace.name, a.annotation_type.name, [repr(x) for x in a.args],
              sorted((k, repr(v)) for k, v in a.kwargs.items())]
    return d


def field(f):
    return [f.name, ty(f.data_type), f.raw_doc, f.doc, f.omitted_caller, anno(f.redactor), f.deprecated, f.preview,
            [anno(a) for a in f.custom_annotations], (val(f.default) if getattr(f, 'has_default', False) else None),
            getattr(f, 'catch_all', None)]


def dump(api):
    """canonical dump of everything an Api says (starting point: notes/probes/irdump.py)"""
    from stone.ir import Struct, Union
    out = {}
    rs = api.route_schema
    out['__schema__'] = [field(f) for f in rs.fields] if rs is not None else None
    for nsn, ns in api.namespaces.items():
        d = out[nsn] = {'doc': ns.doc, 'types': [], 'aliases': [], 'routes': []}
        # NOT compared: get_imported_namespaces(consider_annotation_types=True).  For types in a reference cycle
        # IRGenerator._populate_recursive_custom_annotations caches a partial result for the type visited second,
        # so the set depends on definition / file order (suspected stone defect, see the report of specgen).
        d['imports'] = sorted(n.name for n in ns.get_imported_namespaces(consider_annotations=True))
        d['imports_plain'] = sorted(n.name for n in ns.get_imported_namespaces())
        # annotation types keep declaration order in the IR (not part of the meaning): compared sorted
        d['annotation_types'] = sorted([t.name, t.raw_doc, [[p.name, ty(p.data_type), p.raw_doc, p.has_default,
                                                              repr(p.default)] for p in t.params]]
                                       for t in ns.annotation_types)
        d['annotations'] = [anno(a) for a in ns.annotations]
        for t in ns.data_types:
            e = {'name': t.name, 'kind': type(t).__name__, 'parent': ty(t.parent_type) if t.parent_type else None,
                 'doc': t.doc, 'raw_doc': t.raw_doc, 'fields': [field(f) for f in t.fields],
                 'all_fields': [f.name for f in t.all_fields],
                 'examples': [[k, v.label, v.text, repr(v.value)] for k, v in t.get_examples().items()]}
            if isinstance(t, Struct):
                e['req'] = [f.name for f in t.all_required_fields]
                e['opt'] = [f.name for f in t.all_optional_fields]
                e['subs'] = sorted(s.name for s in t.subtypes)
                if t.has_enumerated_subtypes():
                    e['subtypes'] = [[f.name, f.data_type.name] for f in t.get_enumerated_subtypes()]
                    e['catch_all'] = t.is_catch_all()
                    e['all_subtypes'] = [[list(tags), s.name] for tags, s in t.get_all_subtypes_with_tags()]
            if isinstance(t, Union):
                e['closed'] = t.closed
                e['catch_all_field'] = t.catch_all_field.name if t.catch_all_field else None
            d['types'].append(e)
        for a in ns.aliases:
            d['aliases'].append([a.name, ty(a.data_type), a.raw_doc, a.doc, anno(a.redactor),
                                 [anno(x) for x in a.custom_annotations]])
        for r in ns.routes:
            dep = None
            if r.deprecated:
                dep = r.deprecated.by.name_with_version() if r.deprecated.by else True
            d['routes'].append([r.name, r.version, dep, ty(r.arg_data_type), ty(r.result_data_type),
                                ty(r.error_data_type), sorted((k, val(v)) for k, v in r.attrs.items()), r.raw_doc,
                                r.doc])
        d['route_keys'] = [sorted(ns.route_by_name), sorted(ns.routes_by_name), sorted(ns.data_type_by_name),
                           sorted(ns.alias_by_name)]
        d['lin_types'] = [t.name for t in ns.linearize_data_types()]
        d['lin_aliases'] = [a.name for a in ns.linearize_aliases()]
    return out


def first_diff(a, b, path=''):
    if type(a) != type(b):
        return path, a, b
    if isinstance(a, dict):
        for k in sorted(set(a) | set(b), key=str):
            if k not in a or k not in b:
                return path + '/' + str(k), a.get(k), b.get(k)
            r = first_diff(a[k], b[k], path + '/' + str(k))
            if r:
                return r
        return None
    if isinstance(a, list):
        if len(a) != len(b):
            return path + '/len', a, b
        for i, (x, y) in enumerate(zip(a, b)):
            r = first_diff(x, y, '%s/%d' % (path, i))
            if r:
                return r
        return None
    return None if a == b else (path, a, b)


def work(job):
    from stone.frontend.frontend import specs_to_ir
    from stone.frontend.exception import InvalidSpec
    preset, seeds = job
    res = dict(n=0, feats={}, problems=[], gen_time=0.0, compiles=0, render_time=0.0)
    for seed in seeds:
        rng = random.Random('%s/%d' % (preset, seed))
        t0 = time.perf_counter()
        try:
            m = specgen.gen_model(rng, preset)
        except Exception:
            res['problems'].append((preset, seed, -1, 'GENERATOR CRASH', traceback.format_exc(), None))
            continue
        res['gen_time'] += time.perf_counter() - t0
        res['n'] += 1
        for k in specgen.features(m):
            res['feats'][k] = res['feats'].get(k, 0) + 1
        ref = None
        for v in range(1 + N_LAYOUTS):
            files = None
            try:
                t0 = time.perf_counter()
                lay = None if v == 0 else specgen.gen_layout(rng, m)
                files = specgen.render(m, lay)
                res['render_time'] += time.perf_counter() - t0
                api = specs_to_ir(files)
                res['compiles'] += 1
                d = dump(api)
                if v == 0:
                    ref = d
                elif ref is not None and d != ref:
                    res['problems'].append((preset, seed, v, 'DUMP DIFFERS', repr(first_diff(ref, d))[:600], files))
            except InvalidSpec as e:
                res['problems'].append((preset, seed, v, 'REJECTED', '%s (%s:%s)' % (e.msg, e.path, e.lineno), files))
            except Exception as e:
                res['problems'].append((preset, seed, v, 'CRASH ' + type(e).__name__,
                                        traceback.format_exc()[-900:], files))
    return preset, res


def main(argv):
    n = int(argv[1]) if len(argv) > 1 else 300
    seed = int(argv[2]) if len(argv) > 2 else 0
    presets = argv[3:] or list(specgen.PRESETS)
    jobs = []
    chunk = 25
    for p in presets:
        for lo in range(0, n, chunk):
            jobs.append((p, list(range(seed * 1000003 + lo, seed * 1000003 + min(n, lo + chunk)))))
    t0 = time.time()
    procs = int(os.environ.get('SPECGEN_PROCS', min(8, os.cpu_count() or 1)))
    if procs > 1:
        with multiprocessing.Pool(procs) as pool:
            results = pool.map(work, jobs)
    else:
        results = [work(j) for j in jobs]
    agg = {p: dict(n=0, feats={}, problems=[], gen_time=0.0, compiles=0, render_time=0.0) for p in presets}
    for p, r in results:
        a = agg[p]
        a['n'] += r['n']
        a['gen_time'] += r['gen_time']
        a['render_time'] += r['render_time']
        a['compiles'] += r['compiles']
        a['problems'] += r['problems']
        for k, v in r['feats'].items():
            a['feats'][k] = a['feats'].get(k, 0) + v
    print('specgen self-test: N=%d per preset, seed=%d, %d layouts + reference, %.0f s' % (
        n, seed, N_LAYOUTS, time.time() - t0))
    bad = 0
    for p in presets:
        a = agg[p]
        want = a['n'] * (1 + N_LAYOUTS)
        print('  %-8s models=%d accepted=%d/%d problems=%d  gen=%.2f ms/model render=%.2f ms/file-set' % (
            p, a['n'], a['compiles'], want, len(a['problems']), 1000 * a['gen_time'] / max(1, a['n']),
            1000 * a['render_time'] / max(1, want)))
        bad += len(a['problems'])
    allk = sorted(set(k for p in presets for k in agg[p]['feats']))
    print('\nfeature coverage (% of models of the preset showing the feature)')
    print('  %-34s' % 'feature' + ''.join('%9s' % p for p in presets))
    low = []
    for k in allk:
        row = [100.0 * agg[p]['feats'].get(k, 0) / max(1, agg[p]['n']) for p in presets]
        print('  %-34s' % k + ''.join('%9.1f' % x for x in row))
        if 'default' in presets and row[presets.index('default')] < 10 and '=' not in k:
            low.append((k, row[presets.index('default')]))
    if low:
        print('\nfeatures below 10% in preset default: ' + ', '.join('%s (%.1f)' % x for x in low))
    shown = 0
    for p in presets:
        for (pp, sd, v, what, detail, files) in agg[p]['problems']:
            if shown >= int(os.environ.get('SPECGEN_SHOW', 4)):
                break
            shown += 1
            print('\n==== %s preset=%s seed=%d variant=%d\n%s' % (what, pp, sd, v, detail))
            if files and os.environ.get('SPECGEN_FILES', '1') == '1':
                for path, text in files:
                    print('---- ' + path)
                    print(text)
    print('\nRESULT: %s (%d problems)' % ('OK' if bad == 0 else 'FAILED', bad))
    return 0 if bad == 0 else 1


if __name__ == '__main__':
    sys.exit(main(sys.argv))
