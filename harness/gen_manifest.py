"""Writes MANIFEST.json from the table below (kept in one place so it is always schema-valid)."""
import json
import os

VERIF = os.path.dirname(os.path.dirname(os.path.abspath(__file__)))

import importlib
import sys
sys.path.insert(0, VERIF)
sys.path.insert(0, os.environ.get('STONE_REPO', '/repo'))


def load_checks():
    """Each harness/props/Cxx.py that is ready to be claimed defines MANIFEST = dict(text, note, technique, design)."""
    out = {}
    d = os.path.join(VERIF, 'harness', 'props')
    for fn in sorted(os.listdir(d)):
        if fn.startswith('C') and fn.endswith('.py'):
            mod = importlib.import_module('harness.props.' + fn[:-3])
            lean_props = os.path.join(VERIF, 'lean', 'StoneVerif', 'Props', fn[:-3] + '.lean')
            if getattr(mod, 'MANIFEST', None) and os.path.exists(lean_props):
                out[fn[:-3]] = mod.MANIFEST
    return out


CHECKS = load_checks()

NOT_YET = 'check not built yet in this round (model and theorems pending); not claimed'


def main():
    props = [json.loads(l)['id'] for l in open(os.path.join(VERIF, 'properties.jsonl'))]
    checks = []
    na = []
    for p in props:
        c = CHECKS.get(p)
        if c is None:
            na.append({'property_id': p, 'reason': NOT_YET})
            continue
        checks.append({
            'property_id': p,
            'quick_cmd': './check %s --tier quick' % p,
            'thorough_cmd': './check %s --tier thorough' % p,
            'evidence_file': 'evidence/%s.json' % p,
            'replay_cmd_template': './check %s --replay {path}' % p,
            'engine': 'lean4-stoneverif',
            'level_claimed': {'category': 'proof', 'text': c['text'], 'design_ref': c['design']},
            'level_note': c['note'],
            'technique': c['technique'],
        })
    m = {
        'version': 1,
        'setup_cmd': './setup.sh',
        'hooks': {
            'guard': 'STONE_VERIF',
            'enable': 'no hooks: all observation points are public functions of stone; checks import stone from /repo (PYTHONPATH)',
            'baseline_off_cmd': 'cd /repo && /venv/bin/python -m pytest -ra -q -p no:cacheprovider --timeout=900 --continue-on-collection-errors',
            'source_commits': [],
            'add_only': True,
        },
        'engines': [{
            'name': 'lean4-stoneverif',
            'path': 'lean',
            'serves_properties': sorted(CHECKS),
            'kind_free_text': 'Lean 4 models + theorems (lake project), translator-generated tables, line-protocol driver for '
                              'differential correspondence with the Python implementation',
        }],
        'checks': checks,
        'not_applicable': na,
        'notes': 'See DESIGN.md. Every check: regenerate Gen/Tables.lean from /repo, lake build, #print axioms audit, '
                 'correspondence suites, direct oracle / failing-input search, evidence.',
    }
    with open(os.path.join(VERIF, 'MANIFEST.json'), 'w') as fh:
        json.dump(m, fh, indent=1)
        fh.write('\n')


if __name__ == '__main__':
    main()
