"""Writes MANIFEST.json from the table below (kept in one place so it is always schema-valid)."""
import json
import os

VERIF = os.path.dirname(os.path.dirname(os.path.abspath(__file__)))

CHECKS = {
    'C18': dict(
        text='Lean 4 theorems over a model of stone/backend.py (brace escaping vs str.format subset, emit/indent/block '
             'semantics, POSIX path containment as an iff, manifest) tied to the code by a translator for the '
             'replace-chain and by differential runs of the real Backend against the compiled model.',
        note='Trusted: Lean kernel, translator, correspondence generators, str.format / textwrap / os.path as external '
             'calls (re-implemented in the model and compared on every run). File-system effects are observed, not proved.',
        technique='Lean 4 proof + translator + differential correspondence',
        design='5 C18'),
}

NOT_YET = 'check not built yet in this round (model and theorems pending); not claimed'


def main():
    props = [json.loads(l)['id'] for l in open(os.path.join(VERIF, 'properties.jsonl'))]
    checks = []
    na = []
    for p in props:
        c = CHECKS.get(p)
        if c is None:
            na.append({'property_id': p, 'reason': NOT_YET})
            continue
        checks.append({
            'property_id': p,
            'quick_cmd': './check %s --tier quick' % p,
            'thorough_cmd': './check %s --tier thorough' % p,
            'evidence_file': 'evidence/%s.json' % p,
            'replay_cmd_template': './check %s --replay {path}' % p,
            'engine': 'lean4-stoneverif',
            'level_claimed': {'category': 'proof', 'text': c['text'], 'design_ref': c['design']},
            'level_note': c['note'],
            'technique': c['technique'],
        })
    m = {
        'version': 1,
        'setup_cmd': './setup.sh',
        'hooks': {
            'guard': 'STONE_VERIF',
            'enable': 'no hooks: all observation points are public functions of stone; checks import stone from /repo (PYTHONPATH)',
            'baseline_off_cmd': 'cd /repo && /venv/bin/python -m pytest -ra -q -p no:cacheprovider --timeout=900 --continue-on-collection-errors',
            'source_commits': [],
            'add_only': True,
        },
        'engines': [{
            'name': 'lean4-stoneverif',
            'path': 'lean',
            'serves_properties': sorted(CHECKS),
            'kind_free_text': 'Lean 4 models + theorems (lake project), translator-generated tables, line-protocol driver for '
                              'differential correspondence with the Python implementation',
        }],
        'checks': checks,
        'not_applicable': na,
        'notes': 'See DESIGN.md. Every check: regenerate Gen/Tables.lean from /repo, lake build, #print axioms audit, '
                 'correspondence suites, direct oracle / failing-input search, evidence.',
    }
    with open(os.path.join(VERIF, 'MANIFEST.json'), 'w') as fh:
        json.dump(m, fh, indent=1)
        fh.write('\n')


if __name__ == '__main__':
    main()
