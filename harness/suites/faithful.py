"""Suites `faithful` and `invariants` (property C02): DIFFERENTIAL / GENERATIVE TESTING on the real compiler.

Nothing here is a proof.

suite_faithful   every model of harness/specgen.py is rendered (reference layout and one random layout), compiled
                 with the real `specs_to_ir`, dumped with harness/apisig.py and compared FIELD BY FIELD with
                 `harness/expected.py: expected_signature(model)` - a second, independent reading of what the Api must
                 contain, computed from the model alone.  The first differing path is the failing input.
                 Variants that the generator never renders are derived here: the namespace doc spread over several
                 files (docs concatenate in file order) and hand-made seed models for configurations the generator
                 steers away from (two patches of one type, the same union name in two namespaces, ...).
suite_invariants on every accepted Api - from the generator, from hand-written texts and from the accepted outputs of
                 the C03 text mutators (`fe_fuzz.mutate_text`) - the closure / acyclicity / listing / ordering
                 invariants of C02 are evaluated on the REAL objects (identity of registered objects included).

Failure signatures: {'kind': 'faithful', 'path': <generalised path>} and {'kind': 'invariant', 'inv': <name>, ...}.
"""
import json
import signal

from harness import apisig
from harness import expected as ex
from harness import specgen as sg
from harness.suites import layout

PRESETS = ('small', 'default', 'rt', 'fe', 'routes', 'py_safe')


# ------------------------------------------------------------------------------------------------ helpers

def _ir():
    from stone.ir import Alias, List, Map, Nullable, Struct, Union
    from stone.ir.data_types import TagRef, UserDefined
    return Alias, List, Map, Nullable, Struct, Union, TagRef, UserDefined


class _Timeout(Exception):
    pass


def _alarm(_s, _f):
    raise _Timeout()


def compile_guarded(files, fast=True, limit_s=20):
    """layout.compile_files with a time limit (accepted cyclic aliases may send later passes into a loop)"""
    old = signal.signal(signal.SIGALRM, _alarm)
    signal.alarm(limit_s)
    try:
        return layout.compile_files(files, fast=fast)
    except _Timeout:
        return ('crash', 'Timeout')
    finally:
        signal.alarm(0)
        signal.signal(signal.SIGALRM, old)


def _files(files):
    return [[p, t] for p, t in files]


def _short(x, n=700):
    s = json.dumps(x, sort_keys=True, ensure_ascii=False, default=repr)
    return s if len(s) <= n else s[:n] + '...'


# ------------------------------------------------------------------------------------------------ faithful

def judge_faithful(model, files, ns_docs=None, fast=True):
    """-> (status, Diff or None, notes): compile `files`, compare with the reference image of `model`"""
    st = compile_guarded(files, fast=fast)
    if st[0] != 'ok':
        return st, None, []
    sig = apisig.signature(st[1], mask=ex.MASK)
    notes = []
    d = ex.compare(ex.expected_signature(model, ns_docs), sig, notes=notes)
    return st, d, notes


def _how(d):
    """class of a difference (part of the failure signature)"""
    w = d.why or ''
    if w.startswith('missing'):
        miss, unexp = '[]' not in w.split(', unexpected')[0], not w.endswith('unexpected []')
        return 'missing+unexpected' if miss and unexp else 'missing' if miss else 'unexpected'
    if w.startswith('keys differ'):
        return 'keys'
    if w.startswith('order'):
        return 'order'
    if w.startswith('length'):
        return 'length'
    return 'value'


def _context(model, d):
    """configuration of the model at the differing place that the generator never produces by itself (so that a
    failure confined to it has its own signature)"""
    import re
    ctx = {}
    m = re.match(r'namespaces\[\d+\]<([^>]*)>\.data_types\[\d+\]<([^>]*)>', d.path)
    if m:
        nsn, tn = m.group(1), m.group(2)
        n = sg.find_ns(model, nsn)
        if n is not None:
            k = sum(1 for x in n.defs if x.kind in ('struct_patch', 'union_patch') and x.name == tn)
            if k > 1:
                ctx['patches_of_type'] = 'several'
    return ctx


def report_faithful(ck, model, files, d, origin, ns_docs=None):
    sig = {'kind': 'faithful', 'path': d.general, 'how': _how(d)}
    sig.update(_context(model, d))
    if sig.get('patches_of_type') == 'several' and sig['how'] == 'order' and d.general.endswith('.fields'):
        # Several patches of one type are all applied (none is dropped: that IS judged), in the order the files
        # reach the compiler; the declarations fix no other order across files, so the relative order of fields
        # coming from different patches is not judged.
        ck.stat('faithful.not_judged.multi_patch_field_order')
        return
    ck.failing_input(
        'C02: %s differs between the Api and the model it was rendered from%s' % (d.general, ' (%s)' % d.why if d.why else ''),
        sig,
        {'suite': 'faithful', 'origin': origin, 'specs': _files(files), 'path': d.path, 'expected': d.expected,
         'actual': d.actual, 'why': d.why, 'model': sg.model_to_json(model), 'ns_docs': ns_docs})


def check_model(ck, model, files, origin, ns_docs=None, must_compile=True):
    """one model under one rendering; returns the compiled Api or None"""
    st, d, notes = judge_faithful(model, files, ns_docs)
    if st[0] != 'ok':
        ck.stat('faithful.not_compiled.%s' % st[0])
        if must_compile:
            # legality by construction is C01's statement; keep the evidence, do not judge
            ck.hist('faithful.rejected', (origin, str(st[1])[:80]))
        return None
    if d is not None:
        # confirm on the untouched specs_to_ir before reporting
        st2, d2, _ = judge_faithful(model, files, ns_docs, fast=False)
        if st2[0] == 'ok' and d2 is not None:
            report_faithful(ck, model, files, d2, origin, ns_docs)
            ck.stat('faithful.differs')
        else:
            ck.stat('faithful.fast_path_artefact')
    for n in set(notes):
        ck.stat('faithful.not_judged.' + n)
    return st[1]


def split_ns_docs(model, files):
    """reference rendering -> (files', ns_docs): every file of a multi-file namespace that carries no namespace doc
    gets one; `ns_docs[ns]` lists the raw docs in the order the files are handed to the compiler"""
    by_ns = {}
    for n in model.namespaces:
        nf = len(n.files) or 1
        if nf > 1:
            by_ns[n.name] = (n, nf)
    if not by_ns:
        return None, None
    out, ns_docs = [], {}
    for path, text in files:
        first, _, rest = text.partition('\n')
        nsn = first[len('namespace '):].strip() if first.startswith('namespace ') else None
        if nsn not in by_ns:
            out.append((path, text))
            continue
        n, nf = by_ns[nsn]
        idx = int(path.rsplit('_', 1)[1].split('.')[0])
        doc_file = n.doc_file if n.doc_file < nf else 0
        if idx == doc_file and n.doc is not None:
            ns_docs.setdefault(nsn, []).append(n.doc)
            out.append((path, text))
        else:
            part = 'Part %d of the docs of %s.\nSecond line of part %d.' % (idx, nsn, idx)
            ns_docs.setdefault(nsn, []).append(part)
            lines = part.split('\n')
            doc = '    "' + lines[0] + '\n' + '\n'.join('    ' + l for l in lines[1:]) + '"'
            out.append((path, first + '\n' + doc + '\n' + rest))
    return out, ns_docs


def seed_models():
    """hand-made models for configurations the generator steers away from -> [(label, Model)]"""
    T, F = sg.TypeRef, sg.Field
    out = []
    # two patches of one struct and of one union, each in its own file
    n = sg.Namespace('seedns', doc=None)
    n.defs = [
        sg.Struct('Person', fields=[F('name', T('String'), doc='Given name.')]),
        sg.StructPatch('Person', [F('age', T('UInt64', nullable=True))]),
        sg.StructPatch('Person', [F('email', T('String', nullable=True))]),
        sg.Union('Shape', tags=[F('point'), F('square', T('Float64'))]),
        sg.UnionPatch('Shape', False, [F('circle', T('Float64'))]),
        sg.UnionPatch('Shape', False, [F('line')]),
    ]
    n.files = [[0, 3], [1, 4], [2, 5]]
    out.append(('two-patches', sg.Model([n], 'seed')))
    # the same union name in two namespaces; tag defaults and route attributes pick by namespace
    a = sg.Namespace('seed_one')
    a.defs = [sg.Union('Mode', tags=[F('add'), F('overwrite')]),
              sg.Struct('Arg', fields=[F('m', T('Mode'), default=sg.TagRef('add'))])]
    a.files = [[0, 1]]
    b = sg.Namespace('seed_two', imports=['seed_one'])
    b.defs = [sg.Union('Mode', closed=True, tags=[F('add'), F('update')]),
              sg.Alias('ModeAlias', T('Mode', 'seed_one')),
              sg.Struct('Arg', parent=T('Arg', 'seed_one'), fields=[
                  F('own', T('Mode'), default=sg.TagRef('update')),
                  F('foreign', T('Mode', 'seed_one'), default=sg.TagRef('overwrite')),
                  F('via_alias', T('ModeAlias'), default=sg.TagRef('other')),
                  F('req', T('Int32')),
                  F('opt', T('Float64'), default=3)]),
              sg.Route('get_mode', 2, T('Arg'), T('Void'), T('Mode')),
              sg.Route('get_mode', 1, T('Arg', 'seed_one'), T('Void'), T('Void'), deprecated=('get_mode', 2)),
              sg.Route('get_mode', 10, T('Arg'), T('Void'), T('Mode'), attrs={'mode': sg.TagRef('update')})]
    b.files = [[0, 1, 2], [3, 4, 5]]
    c = sg.Namespace('stone_cfg', imports=['seed_two'])
    c.defs = [sg.Struct('Route', fields=[F('mode', T('Mode', 'seed_two'), default=sg.TagRef('add')),
                                         F('host', T('String'), default='api'),
                                         F('weight', T('Float64', nullable=True))])]
    c.files = [[0]]
    out.append(('same-union-name', sg.Model([a, b, c], 'seed')))
    # forward references across files, three-level inheritance with optional fields on every level
    n = sg.Namespace('seed_fwd', doc='Docs of the namespace.')
    n.defs = [
        sg.Struct('Leaf', parent=T('Mid'), fields=[F('l_req', T('List', args=[T('Later')])), F('l_opt', T('Int32'), default=1)]),
        sg.Struct('Mid', parent=T('Base'), fields=[F('m_opt', T('String', nullable=True)), F('m_req', T('Later'))]),
        sg.Struct('Base', fields=[F('b_opt', T('Boolean'), default=True), F('b_req', T('Bytes'))]),
        sg.Struct('Later', fields=[F('back', T('Leaf', nullable=True))], doc='Defined in the last file.'),
        sg.Alias('Zed', T('Map', args=[T('String'), T('Later')])),
    ]
    n.files = [[0], [1, 4], [2], [3]]
    n.doc_file = 2
    out.append(('forward-refs', sg.Model([n], 'seed')))
    return out


def suite_faithful(ck, n_models):
    """n_models per preset; every model under the reference layout, one random layout and (multi-file namespaces)
    with the namespace doc spread over the files.  Returns [(label, files, api)] of what compiled (for the
    invariants)."""
    rng = ck.rng
    apis = []
    for label, model in seed_models():
        lays = [None]
        ref = sg.reference_layout(model)
        rev = sg.reference_layout(model)
        rev.file_order = list(reversed(ref.file_order))
        lays.append(rev)
        for li, lay in enumerate(lays):
            files = sg.render(model, lay)
            ck.case(('faithful-seed', label, li))
            api = check_model(ck, model, files, 'seed:%s/%s' % (label, 'reference' if lay is None else 'files-reversed'))
            if api is not None:
                apis.append(('seed:' + label, files, api))
    for preset in PRESETS:
        for k in range(n_models):
            model = sg.gen_model(rng, preset)
            feats = sg.features(model)
            for f in ('patch.struct', 'patch.union', 'default.tag', 'default.float_from_int', 'union.parent', 'subtypes',
                      'route.attrs', 'route.deprecated_by', 'route.multi_version', 'inherit.cross_ns', 'forward_ref',
                      'files.multi', 'stone_cfg', 'applied.custom', 'alias.chain', 'inherit.depth>=2'):
                if feats.get(f):
                    ck.hist('faithful.models_with', f)
            ref_files = sg.render(model, None)
            ck.case(('faithful', preset, tuple(t for _p, t in ref_files)))
            api = check_model(ck, model, ref_files, '%s/reference' % preset)
            if api is not None:
                apis.append(('%s#%d' % (preset, k), ref_files, api))
                ck.stat('faithful.compared')
            lay = sg.gen_layout(rng, model)
            files = sg.render(model, lay)
            ck.case(('faithful-layout', preset, tuple(t for _p, t in files)))
            api = check_model(ck, model, files, '%s/random-layout' % preset)
            if api is not None:
                apis.append(('%s#%d/layout' % (preset, k), files, api))
                ck.stat('faithful.compared')
            f2, ns_docs = split_ns_docs(model, ref_files)
            if f2 is not None:
                ck.case(('faithful-nsdoc', preset, tuple(t for _p, t in f2)))
                if check_model(ck, model, f2, '%s/ns-doc-in-every-file' % preset, ns_docs=ns_docs) is not None:
                    ck.stat('faithful.compared')
                    ck.stat('faithful.ns_doc_split')
    if len(ck.samples) < 6 and apis:
        label, files, api = apis[-1]
        ck.sample({'suite': 'faithful', 'model': label, 'files': [p for p, _ in files],
                   'namespaces': list(api.namespaces)})
    return apis


# ------------------------------------------------------------------------------------------------ invariants

def _mentions(t):
    """[(kind, object, wrapper path)] of user types / aliases written in a type expression, through List / Map / `?`
    (an alias is a leaf: its own target is visited when the alias itself is)"""
    Alias, List, Map, Nullable, Struct, Union, TagRef, UserDefined = _ir()
    out, stack = [], [(t, ())]
    seen = set()
    while stack:
        x, path = stack.pop()
        if x is None or (id(x), path) in seen or len(path) > 40:
            continue
        seen.add((id(x), path))
        if isinstance(x, Nullable):
            stack.append((x.data_type, path + ('Nullable',)))
        elif isinstance(x, List):
            stack.append((x.data_type, path + ('List',)))
        elif isinstance(x, Map):
            stack.append((x.value_data_type, path + ('Map',)))
            stack.append((x.key_data_type, path + ('Map',)))
        elif isinstance(x, Alias):
            out.append(('alias', x, path))
        elif isinstance(x, UserDefined):
            out.append(('user', x, path))
    return out


def _tname(t):
    ns = getattr(getattr(t, 'namespace', None), 'name', None)
    return '%s.%s' % (ns, getattr(t, 'name', None))


def judge_invariants(api):
    """-> [(what, signature, detail)] : violated invariants of one accepted Api (real objects)"""
    Alias, List, Map, Nullable, Struct, Union, TagRef, UserDefined = _ir()
    P = []

    def bad(inv, what, detail, **sig):
        s = {'kind': 'invariant', 'inv': inv}
        s.update(sig)
        P.append(('C02: ' + what, s, detail))

    rs = api.route_schema
    rs_ns = getattr(rs, 'namespace', None)
    nss = list(api.namespaces.values())

    def home(obj):
        """the namespace object a reached type claims, if it is one the Api holds (or the detached stone_cfg)"""
        ns = getattr(obj, 'namespace', None)
        if ns is None:
            return None
        if api.namespaces.get(ns.name) is ns:
            return ns
        if rs_ns is not None and ns is rs_ns:
            return ns
        return None

    # ---- (i) closure ------------------------------------------------------------------------------------------
    def reach(kind, obj, frm):
        if kind == 'user':
            if getattr(obj, '_is_forward_ref', False):
                bad('closure', 'a type reachable from the Api is still a forward reference (not fully defined)',
                    {'type': _tname(obj), 'from': frm}, problem='forward-ref')
                return
            ns = home(obj)
            if ns is None:
                bad('closure', 'a reachable type lives in a namespace the Api does not hold',
                    {'type': _tname(obj), 'from': frm}, problem='foreign-namespace')
            elif ns.data_type_by_name.get(obj.name) is not obj or not any(d is obj for d in ns.data_types):
                if not (ns is rs_ns and obj is rs):
                    bad('closure', 'a reachable type is not the object registered under its name in its namespace',
                        {'type': _tname(obj), 'from': frm}, problem='not-registered')
        else:
            ns = home(obj)
            if obj.data_type is None:
                bad('closure', 'a reachable alias has no target', {'alias': _tname(obj), 'from': frm}, problem='alias-undefined')
            if ns is None:
                bad('closure', 'a reachable alias lives in a namespace the Api does not hold',
                    {'alias': _tname(obj), 'from': frm}, problem='foreign-namespace')
            elif ns.alias_by_name.get(obj.name) is not obj or not any(a is obj for a in ns.aliases):
                bad('closure', 'a reachable alias is not the object registered under its name in its namespace',
                    {'alias': _tname(obj), 'from': frm}, problem='not-registered')

    def reach_expr(t, frm):
        for kind, obj, _path in _mentions(t):
            reach(kind, obj, frm)

    def reach_value(v, frm):
        if isinstance(v, TagRef):
            reach_expr(v.union_data_type, frm + ' (tag %s)' % v.tag_name)
            u = v.union_data_type
            hops = 0
            while isinstance(u, (Alias, Nullable)) and hops < 50:
                u = u.data_type
                hops += 1
            if isinstance(u, Union) and not u._is_forward_ref:
                f = [x for x in u.all_fields if x.name == v.tag_name]
                if len(f) != 1:
                    bad('closure', 'a tag reference names no tag of its union', {'from': frm, 'tag': v.tag_name,
                                                                                  'union': _tname(u)}, problem='unknown-tag')

    def scan_type(d, where):
        if d._is_forward_ref:
            bad('closure', 'a data type of the Api is still a forward reference (not fully defined)',
                {'type': _tname(d), 'in': where}, problem='forward-ref')
            return
        me = _tname(d)
        if d.parent_type is not None:
            reach('user', d.parent_type, 'parent of ' + me)
        for f in d.fields:
            reach_expr(f.data_type, 'field %s.%s' % (me, f.name))
            if getattr(f, 'has_default', False):
                reach_value(f.default, 'default of %s.%s' % (me, f.name))
        if isinstance(d, Struct):
            for s in d.subtypes:
                reach('user', s, 'subtype of ' + me)
                if s.parent_type is not d:
                    bad('closure', 'a struct listed in `subtypes` does not have this struct as parent',
                        {'type': me, 'subtype': _tname(s)}, problem='subtype-parent')
            if d.has_enumerated_subtypes():
                for f in d.get_enumerated_subtypes():
                    reach('user', f.data_type, 'enumerated subtype %s of %s' % (f.name, me))
        fbn = getattr(d, '_fields_by_name', None)
        if isinstance(fbn, dict):
            for f in d.fields:
                if fbn.get(f.name) is not f:
                    bad('closure', 'the by-name field table of a type does not hold its field',
                        {'type': me, 'field': f.name}, problem='fields-by-name')

    for ns in nss:
        names = [d.name for d in ns.data_types]
        if len(set(names)) != len(names) or set(names) != set(ns.data_type_by_name) or \
                any(ns.data_type_by_name[d.name] is not d for d in ns.data_types):
            bad('tables', 'data_type_by_name is not the index of data_types', {'ns': ns.name}, table='data_type_by_name')
        names = [a.name for a in ns.aliases]
        if len(set(names)) != len(names) or set(names) != set(ns.alias_by_name) or \
                any(ns.alias_by_name[a.name] is not a for a in ns.aliases):
            bad('tables', 'alias_by_name is not the index of aliases', {'ns': ns.name}, table='alias_by_name')
        keys = [(r.name, r.version) for r in ns.routes]
        n_at = sum(len(v.at_version) for v in ns.routes_by_name.values())
        if len(set(keys)) != len(keys) or n_at != len(keys) or any(
                r.name not in ns.routes_by_name or ns.routes_by_name[r.name].at_version.get(r.version) is not r
                for r in ns.routes):
            bad('tables', 'routes_by_name is not the index of routes', {'ns': ns.name}, table='routes_by_name')
        v1 = {r.name: r for r in ns.routes if r.version == 1}
        if set(v1) != set(ns.route_by_name) or any(ns.route_by_name[k] is not r for k, r in v1.items()):
            bad('tables', 'route_by_name is not the index of the version-1 routes', {'ns': ns.name}, table='route_by_name')
        for d in ns.data_types:
            if d.namespace is not ns:
                bad('closure', 'a data type is listed in a namespace it does not name as its own',
                    {'type': _tname(d), 'listed_in': ns.name}, problem='wrong-namespace')
            scan_type(d, ns.name)
        for a in ns.aliases:
            if a.namespace is not ns:
                bad('closure', 'an alias is listed in a namespace it does not name as its own',
                    {'alias': _tname(a), 'listed_in': ns.name}, problem='wrong-namespace')
            if a.data_type is None:
                bad('closure', 'an alias has no target', {'alias': _tname(a)}, problem='alias-undefined')
            reach_expr(a.data_type, 'target of alias ' + _tname(a))
        for r in ns.routes:
            rn = '%s.%s:%d' % (ns.name, r.name, r.version)
            for part in ('arg_data_type', 'result_data_type', 'error_data_type'):
                t = getattr(r, part)
                if t is None:
                    bad('closure', 'a route has no %s' % part, {'route': rn}, problem='route-undefined')
                reach_expr(t, '%s of route %s' % (part, rn))
            for k, v in (r.attrs or {}).items():
                reach_value(v, 'attribute %s of route %s' % (k, rn))
            by = getattr(r.deprecated, 'by', None)
            if by is not None:
                reg = ns.routes_by_name.get(by.name)
                if reg is None or reg.at_version.get(by.version) is not by:
                    bad('closure', 'the successor of a deprecated route is not a registered route of its namespace',
                        {'route': rn, 'by': [by.name, by.version]}, problem='deprecated-by')
    if rs is not None and not rs._is_forward_ref:
        for f in rs.fields:
            reach_expr(f.data_type, 'field %s of the route schema' % f.name)
            if getattr(f, 'has_default', False):
                reach_value(f.default, 'default of route schema field ' + f.name)

    # ---- (ii) acyclic -------------------------------------------------------------------------------------------
    all_types = [d for ns in nss for d in ns.data_types if not d._is_forward_ref]
    for d in all_types:
        seen, c = set(), d
        while c is not None and id(c) not in seen:
            seen.add(id(c))
            c = c.parent_type
        if c is not None:
            bad('acyclic', 'inheritance is cyclic', {'type': _tname(d)}, graph='parents')
            break
    all_aliases = [a for ns in nss for a in ns.aliases]
    if rs_ns is not None and api.namespaces.get(rs_ns.name) is not rs_ns:
        all_aliases += list(rs_ns.aliases)
    edges = {id(a): [(b, path) for k, b, path in _mentions(a.data_type) if k == 'alias'] for a in all_aliases}
    state = {}

    def dfs(a, trail):
        state[id(a)] = 1
        for b, path in edges.get(id(a), []):
            st = state.get(id(b))
            if st == 1:
                cyc = trail + [(a, path)]
                start = next(i for i, (x, _p) in enumerate(cyc) if x is b) if any(x is b for x, _p in cyc) else 0
                cyc = cyc[start:]
                wr = sorted({w for _x, p in cyc for w in p})
                bad('acyclic', 'aliasing is cyclic: %s' % ' -> '.join(_tname(x) for x, _p in cyc + [(b, ())]),
                    {'cycle': [_tname(x) for x, _p in cyc], 'wrappers': wr}, graph='aliases',
                    through='+'.join(wr) if wr else 'direct')
                return True
            if st is None and dfs(b, trail + [(a, path)]):
                return True
        state[id(a)] = 2
        return False
    for a in all_aliases:
        if state.get(id(a)) is None and dfs(a, []):
            break

    # ---- (iii) all_fields -------------------------------------------------------------------------------------------
    cyclic_parents = any(s.get('graph') == 'parents' for _w, s, _d in P)
    if not cyclic_parents:
        for d in all_types + ([rs] if rs is not None and not rs._is_forward_ref else []):
            chain, c = [], d
            while c is not None:
                chain.append(c)
                c = c.parent_type
            chain.reverse()
            every = [f for c in chain for f in c.fields]
            got = list(d.all_fields)
            if isinstance(d, Struct):
                req = [f for f in every if not (isinstance(f.data_type, Nullable) or f.has_default)]
                opt = [f for f in every if isinstance(f.data_type, Nullable) or f.has_default]
                want = req + opt
                for lst, name, w in ((d.all_required_fields, 'all_required_fields', req),
                                     (d.all_optional_fields, 'all_optional_fields', opt)):
                    if [id(f) for f in lst] != [id(f) for f in w]:
                        bad('all-fields', '%s is not the documented listing (ancestors first)' % name,
                            {'type': _tname(d), 'got': [f.name for f in lst], 'want': [f.name for f in w]}, list=name)
            else:
                want = every
            if sorted(map(id, got)) != sorted(map(id, every)):
                bad('all-fields', 'all_fields is not the fields of the inheritance chain as a multiset',
                    {'type': _tname(d), 'got': [f.name for f in got], 'chain': [f.name for f in every]}, list='all_fields-multiset')
            elif [id(f) for f in got] != [id(f) for f in want]:
                bad('all-fields', 'all_fields does not put inherited and required fields first as documented',
                    {'type': _tname(d), 'got': [f.name for f in got], 'want': [f.name for f in want]}, list='all_fields')
            names = [f.name for f in got]
            if len(set(names)) != len(names):
                bad('all-fields', 'two members of one type (own or inherited) share a name',
                    {'type': _tname(d), 'names': names}, list='duplicate-name')
            if isinstance(d, Union):
                ca = [f for f in got if f.catch_all]
                if (not d.closed) != (len(ca) == 1) or (ca and (ca[0].name != 'other' or type(ca[0].data_type).__name__ != 'Void')):
                    bad('all-fields', 'an open union must list exactly one Void catch-all `other`, a closed union none',
                        {'type': _tname(d), 'closed': d.closed, 'catch_all': [f.name for f in ca]}, list='catch-all')

    # ---- (iv) order ---------------------------------------------------------------------------------------------
    keys = list(api.namespaces)
    if keys != sorted(keys) or any(api.namespaces[k].name != k for k in keys):
        bad('sorted', 'namespaces are not alphabetical', {'got': keys}, list='namespaces')
    for ns in nss:
        for what, got in (('routes', [(r.name, r.version) for r in ns.routes]),
                          ('data_types', [d.name for d in ns.data_types]),
                          ('aliases', [a.name for a in ns.aliases])):
            if got != sorted(got):
                bad('sorted', '%s of a namespace are not alphabetical' % what, {'ns': ns.name, 'got': [list(x) if isinstance(x, tuple) else x for x in got]},
                    list=what)
        if cyclic_parents:
            continue
        lt = ns.linearize_data_types()
        pos = {id(d): i for i, d in enumerate(lt)}
        if sorted(pos) != sorted(id(d) for d in ns.data_types) or len(lt) != len(ns.data_types):
            bad('linearize', 'linearize_data_types is not a permutation of the data types of the namespace',
                {'ns': ns.name, 'got': [d.name for d in lt]}, list='data_types', problem='not-permutation')
        for d in lt:
            p = d.parent_type
            if p is not None and p.namespace is ns and not (id(p) in pos and pos[id(p)] < pos[id(d)]):
                bad('linearize', 'linearize_data_types lists a type before its parent',
                    {'ns': ns.name, 'child': d.name, 'parent': p.name, 'got': [x.name for x in lt]},
                    list='data_types', problem='parent-after-child')
        if any(s.get('graph') == 'aliases' for _w, s, _d in P):
            continue
        la = ns.linearize_aliases()
        apos = {id(a): i for i, a in enumerate(la)}
        if sorted(apos) != sorted(id(a) for a in ns.aliases) or len(la) != len(ns.aliases):
            bad('linearize', 'linearize_aliases is not a permutation of the aliases of the namespace',
                {'ns': ns.name, 'got': [a.name for a in la]}, list='aliases', problem='not-permutation')
        for a in la:
            for k, b, path in _mentions(a.data_type):
                if k == 'alias' and b.namespace is ns and not (id(b) in apos and apos[id(b)] < apos[id(a)]):
                    bad('linearize', 'linearize_aliases lists alias %s before the alias %s that its target mentions%s' % (
                        a.name, b.name, ' inside ' + '/'.join(path) if path else ''),
                        {'ns': ns.name, 'alias': a.name, 'target_alias': b.name, 'through': list(path),
                         'got': [x.name for x in la]},
                        list='aliases', problem='target-after-alias', through=path[0] if path else 'direct')
    return P


TEXT_SEEDS = [
    ('alias-of-list-of-itself', [('s.stone', 'namespace seedtext\n\nalias Xs = List(Xs)\n')]),
    ('alias-of-nullable-itself', [('s.stone', 'namespace seedtext\n\nalias Xs = Xs?\n')]),
    ('alias-cycle-through-map', [('s.stone', 'namespace seedtext\n\nalias Xs = Map(String, Ys)\nalias Ys = List(Xs?)\n\n'
                                             'struct Holder\n    f Xs\n')]),
    ('alias-order-through-list', [('s.stone', 'namespace seedtext\n\nalias Ids = List(Zid)\nalias Zid = String\n'
                                              'alias Maps = Map(String, Zid?)\nalias Zzdirect = Zid\n')]),
    ('parent-after-child-names', [('s.stone', 'namespace seedtext\n\nstruct Alpha extends Zeta\n    a Int32\n\n'
                                              'struct Zeta\n    z Int32\n\nunion Beta extends Yota\n    b\n\n'
                                              'union Yota\n    y\n')]),
]


def suite_invariants(ck, apis, n_mut_models=0, n_mut=0):
    """`apis`: [(label, files, api)] accepted Apis (from suite_faithful); plus hand-written texts and the accepted
    outputs of the C03 text mutators over `n_mut_models` fresh models x `n_mut` mutations."""
    from harness.suites import fe_fuzz
    rng = ck.rng

    def judge(label, files, api, origin):
        ck.case(('invariants', origin, tuple(t for _p, t in files)))
        ck.stat('invariants.apis.' + origin)
        probs = judge_invariants(api)
        for what, sig, detail in probs:
            ck.stat('invariants.violated.' + sig['inv'])
            ck.failing_input(what, sig, {'suite': 'invariants', 'origin': origin, 'label': label, 'specs': _files(files),
                                         'detail': detail})
        return probs

    for label, files in TEXT_SEEDS:
        st = compile_guarded(files, fast=False)
        ck.hist('invariants.text_seed', '%s:%s' % (label, st[0]))
        if st[0] == 'ok':
            judge(label, files, st[1], 'text-seed')
    for label, files, api in apis:
        judge(label, files, api, 'generated')
    rendered = []
    for _ in range(n_mut_models):
        m = sg.gen_model(rng, rng.choice(['small', 'default', 'fe', 'routes']))
        rendered.append(sg.render(m, None))
    for files in rendered:
        for _ in range(n_mut):
            f2 = [list(f) for f in files]
            k = rng.randrange(len(f2))
            other = rng.choice(rng.choice(rendered))[1]
            f2[k][1] = fe_fuzz.mutate_text(rng, f2[k][1], other)
            if f2[k][1] == files[k][1]:
                continue
            f2 = [tuple(f) for f in f2]
            st = compile_guarded(f2, fast=True)
            ck.hist('invariants.mutant_outcome', st[0] if st[0] != 'crash' else 'crash(C03)')
            if st[0] == 'ok':
                judge('mutant', f2, st[1], 'mutated-text')


# ------------------------------------------------------------------------------------------------ replay

def replay_case(ck, case):
    """re-evaluate one recorded case; prints what it finds; returns True when the recorded failure still shows"""
    files = [tuple(x) for x in case['specs']]
    for p, t in files:
        print(' --- %s\n%s' % (p, t.rstrip()))
    if case.get('suite') == 'faithful':
        model = sg.model_from_json(case['model'])
        st, d, _notes = judge_faithful(model, files, case.get('ns_docs'), fast=False)
        if st[0] != 'ok':
            print(' the compiler now answers: %s %s' % (st[0], st[1]))
            return False
        if d is None:
            print(' the Api now equals the reference image of the model')
            return False
        print(' first differing path : %s' % d.path)
        print(' expected             : %s' % _short(d.expected))
        print(' actual               : %s' % _short(d.actual))
        if d.why:
            print(' why                  : %s' % d.why)
        report_faithful(ck, model, files, d, case.get('origin', 'replay'), case.get('ns_docs'))
        return True
    st = compile_guarded(files, fast=False)
    if st[0] != 'ok':
        print(' the compiler now answers: %s %s' % (st[0], st[1]))
        return False
    probs = judge_invariants(st[1])
    for what, sig, detail in probs:
        print(' FAILS: %s %s %s' % (what, json.dumps(sig, sort_keys=True), _short(detail)))
        ck.failing_input(what, sig, dict(case, detail=detail))
    if not probs:
        print(' every invariant holds on this input now')
    return bool(probs)
