"""be.* correspondence suites and direct oracles (C18).

Suites (each: real stone code in-process, the compiled Lean model through the driver, and a direct oracle
that evaluates the property itself on the real code):

  suite_format    emit_raw + output_buffer_to_string vs Fmt.escape / Fmt.pyFormat
  suite_path      exhaustive relative paths x (cwd, root) combos through _relative_output_path,
                  output_to_relative_path, copy_to_path, SwiftBaseBackend._write_output_in_target_folder
                  in a scratch tree; oracle = what appears under / next to the output folder
  suite_emit      random emit scripts on a real CodeBackend (tabs and spaces) vs Emit.runScript; oracle = an
                  independent Python reference pretty-printer
  suite_wrap      emit_wrapped_text vs Wrap.wrap; oracle = words preserved in order, prefixes in place
  suite_manifest_api   random write/copy sequences on a real backend, real mode and manifest mode, vs Manifest.run
  suite_manifest_backends   every built-in backend x specs (hand-written families under harness/specs/c18 + generated
                  ones) x option sets: manifest run vs real run (oracle only)
  suite_manifest_cli   the same through stone.cli.main: --output-manifest / --expected-output-manifest / --clean-build /
                  `--`, a toy backend running random write / copy scripts and the built-in backends (oracle only)
  suite_filter_none    CodeBackend.filter_out_none_valued_keys against its docstring (oracle only)
"""
import atexit
import contextlib
import importlib
import io
import itertools
import json
import os
import shutil
import signal
import sys
import tempfile
import textwrap
import time

from harness import core

RULE = ('paths: all sequences of <= 4 segments over {a, ., .., d/e, unicode, empty, ..x, out}, with and without trailing '
        'slash, plus absolute forms, x 7 (cwd, root) combinations (exhaustive), plus an output folder that does not exist '
        'yet x 17 file names x 3 writers; emit scripts: random trees of '
        'emit/emit_raw/emit_wrapped_text/placeholders/indent/block/generate_multiline_list over an alphabet biased to braces, '
        'format-like sequences and unicode, ~10% deliberately ill-formed; wrap: random unicode texts x widths -2..90 x '
        'prefixes x the two wrapping flags; filter_out_none_valued_keys: random dicts biased to falsy values; manifest: '
        'random write/copy sequences on the API and through stone.cli.main (toy backend; --output-manifest, '
        '--expected-output-manifest with exact / permuted / missing / extra / ill-typed lists, --clean-build over stale '
        'files, output path that is a file or lies under one, stone\'s own -w/-b/-a/-f in front), and every built-in '
        'backend x 4 hand-written spec families x option sets (incl. client arguments by style and auth types, which '
        'change the file set; arguments the backend\'s parser rejects) + generated specs. '
        'A case is non-trivial when it has a parent/absolute segment, a brace or placeholder, more than one line, '
        'or writes at least one file')

ALPHABET = ['{', '}', '{{', '}}', '{}', '{0}', '{x}', '{x', 'x}', 'a', 'b', ' ', '\n', 'é', '日本', '%s', '{!r}', '{:>4}', '\\', '"']

EMIT_ERRORS = (AssertionError, KeyError, IndexError, ValueError)


_own_scratch = []


def _scratch(prefix):
    """Scratch tree for the file-system suites: on tmpfs when there is one (creating / removing a directory costs
    ~20x less there than on the root file system, and the path suite does it some ten thousand times)."""
    base = '/dev/shm'
    if os.path.isdir(base) and os.access(base, os.W_OK | os.X_OK):
        d = tempfile.mkdtemp(prefix=prefix, dir=base)
        _own_scratch.append(d)
        return d
    return core.scratch(prefix)


@atexit.register
def _cleanup_own_scratch():
    for d in _own_scratch:
        shutil.rmtree(d, ignore_errors=True)


class Hang(Exception):
    """the real code did not return within the time limit (e.g. an endless loop introduced by an edit)"""


@contextlib.contextmanager
def time_limit(seconds):
    def handler(_signum, _frame):
        raise Hang()
    old = signal.signal(signal.SIGALRM, handler)
    signal.setitimer(signal.ITIMER_REAL, seconds)
    try:
        yield
    finally:
        signal.setitimer(signal.ITIMER_REAL, 0)
        signal.signal(signal.SIGALRM, old)


HANG = '<<did not terminate within the time limit>>'


def unwire(x):
    """Undo Driver.Be.wireEscape (U+E000 + 4 hex digits) in every string of a driver reply."""
    if isinstance(x, str):
        if '\ue000' not in x:
            return x
        out, i = [], 0
        while i < len(x):
            if x[i] == '\ue000':
                out.append(chr(int(x[i + 1:i + 5], 16)))
                i += 5
            else:
                out.append(x[i])
                i += 1
        return ''.join(out)
    if isinstance(x, list):
        return [unwire(v) for v in x]
    if isinstance(x, dict):
        return {k: unwire(v) for k, v in x.items()}
    return x


def drive(ck, reqs):
    """ck.driver + unwire; retries while a concurrent `lake build` is relinking the shared driver executable."""
    last = None
    for _attempt in range(40):
        try:
            return [unwire(r) for r in ck.driver(reqs)]
        except (RuntimeError, OSError) as e:
            last = e
            if 'answered' in str(e):
                raise
            time.sleep(3)
    raise last


def rand_text(rng, maxlen=8):
    return ''.join(rng.choice(ALPHABET) for _ in range(rng.randint(0, maxlen)))


def _backend_classes():
    from stone.backend import CodeBackend
    from stone.backends.swift import SwiftBaseBackend

    class Spaces(CodeBackend):
        def generate(self, api):
            pass

    class Tabs(CodeBackend):
        tabs_for_indents = True

        def generate(self, api):
            pass

    class Swift(SwiftBaseBackend):
        def generate(self, api):
            pass

    return Spaces, Tabs, Swift


# ======================================================================================= be.format (first slice)

def suite_format(ck):
    """emit_raw + output_buffer_to_string on the real Backend vs Fmt.escape / Fmt.pyFormat."""
    Spaces, _Tabs, _Swift = _backend_classes()
    n = ck.scale(2000, 40000)
    cases = [rand_text(ck.rng) for _ in range(n)]
    real_esc = []
    real_out = []
    for t in cases:
        b = Spaces('/nonexistent', [])
        try:
            b.emit_raw(t + '\n')
        except AssertionError:
            pass
        real_esc.append(''.join(b.output))
        try:
            real_out.append(b.output_buffer_to_string())
        except (KeyError, IndexError, ValueError):
            real_out.append(None)
    reqs = [{'op': 'be.escape', 'text': t + '\n'} for t in cases]
    reqs += [{'op': 'be.format', 'buf': real_esc[i], 'pos': [], 'named': []} for i in range(len(cases))]
    rep = drive(ck, reqs)
    for i, t in enumerate(cases):
        ck.case(('fmt', t), '{' in t or '}' in t)
        ck.hist('be.format.text_len', len(t))
        m_esc = rep[i].get('out')
        m_out = rep[len(cases) + i].get('out')
        if m_esc != real_esc[i]:
            ck.disagree('be.escape', t, real_esc[i], m_esc)
        else:
            ck.agree('be.escape')
        if m_out != real_out[i]:
            ck.disagree('be.format', t, real_out[i], m_out)
        else:
            ck.agree('be.format')
        if real_out[i] != t + '\n':
            ck.failing_input('emit_raw text does not reach the output verbatim',
                             {'site': 'emit_raw', 'kind': 'verbatim'},
                             {'suite': 'format', 'text': t, 'got': real_out[i]})
        if i < 2:
            ck.sample({'emit_raw': t + '\n', 'buffer': real_esc[i], 'formatted': real_out[i]})


# ======================================================================================= be.path

SEGS = ['a', '.', '..', 'd/e', 'é日', '', '..x', 'out']
OUT_NAME = 'out'


def rel_paths(maxdepth):
    seen = set()
    out = []
    for depth in range(1, maxdepth + 1):
        for combo in itertools.product(SEGS, repeat=depth):
            p = '/'.join(combo)
            for q in (p, p + '/'):
                if q not in seen:
                    seen.add(q)
                    out.append((q, depth))
    return out


class Sandbox:
    """scratch/l1/l2/l3/l4/w/{out,sub} + scratch/l1/l2/l3/l4/src/f.txt: four levels of padding so that no
    relative path of depth <= 4 (nor a mutated, no longer refusing implementation) can leave the scratch tree."""

    def __init__(self):
        self.top = os.path.realpath(_scratch('stone-verif-c18-'))
        self.base = os.path.join(self.top, 'l1', 'l2', 'l3', 'l4')
        self.w = os.path.join(self.base, 'w')
        self.out = os.path.join(self.w, OUT_NAME)
        self.sub = os.path.join(self.w, 'sub')
        self.srcdir = os.path.join(self.base, 'src')
        self.src = os.path.join(self.srcdir, 'f.txt')
        for d in (self.out, self.sub, self.srcdir):
            os.makedirs(d)
        with open(self.src, 'w') as fh:
            fh.write('source\n')
        self.baseline = self.listing()

    def listing(self):
        files, dirs = set(), set()
        for root, ds, fs in os.walk(self.top):
            for d in ds:
                dirs.add(os.path.join(root, d))
            for f in fs:
                files.add(os.path.join(root, f))
        return files, dirs

    def diff(self):
        files, dirs = self.listing()
        return sorted(files - self.baseline[0]), sorted(dirs - self.baseline[1])

    def inside_out(self, p):
        return p == self.out or p.startswith(self.out + os.sep)

    def reset(self, new_files, new_dirs):
        for f in new_files:
            try:
                os.unlink(f)
            except OSError:
                pass
        for d in sorted(new_dirs, key=len, reverse=True):
            shutil.rmtree(d, ignore_errors=True)
        if not os.path.isdir(self.out):
            os.makedirs(self.out)


def _combos(sb):
    """(name, cwd, root) — root as the backend receives it (target_folder_path)."""
    return [
        ('abs-root', sb.w, sb.out),
        ('rel-root', sb.w, OUT_NAME),
        ('dotdot-root', sb.sub, '../' + OUT_NAME),
        ('unnormalised-root', sb.w, OUT_NAME + '/../' + OUT_NAME + '/.'),
        ('slash-root', sb.w, OUT_NAME + '/'),
        ('sibling-root', sb.w, '../w/' + OUT_NAME),
        ('cwd-root', sb.out, '.'),
    ]


def _path_nontrivial(p):
    return '..' in p.split('/') or p.startswith('/') or '' in p.split('/')[:-1]


def suite_path(ck):
    from stone import backend as be_mod
    Spaces, _Tabs, Swift = _backend_classes()
    sb = Sandbox()
    home = os.getcwd()
    max_pure = 4
    max_fs = ck.scale(3, 4)
    rels = rel_paths(max_pure)
    # absolute forms: inside the output folder, next to it, double-slash spelling, the folder itself
    abs_forms = []
    for p, depth in rels:
        if depth <= 2:
            abs_forms.append((sb.out + '/' + p, depth))
            abs_forms.append((sb.w + '/' + p, depth))
            abs_forms.append(('/' + sb.out + '/' + p, depth))           # '//…' : the POSIX two-slash quirk
            abs_forms.append(('//' + sb.out + '/' + p, depth))          # '///…' collapses to '/'
    all_paths = rels + abs_forms
    ck.stat('be.path.relative_paths', len(rels))
    ck.stat('be.path.absolute_forms', len(abs_forms))
    try:
        # ---- the pure function, every combination
        reqs, meta = [], []
        for cname, cwd, root in _combos(sb):
            os.chdir(cwd)
            real_cwd = os.getcwd()
            for p, depth in all_paths:
                full = os.path.join(root, p)
                try:
                    real = be_mod._relative_output_path(root, full)
                    ok = True
                except AssertionError:
                    real, ok = None, False
                reqs.append({'op': 'be.path', 'cwd': real_cwd, 'root': root, 'path': p, 'join': True})
                meta.append((cname, p, depth, full, ok, real, os.path.abspath(full), os.path.dirname(full),
                             os.path.basename(full)))
        os.chdir(home)
        rep = drive(ck, reqs)
        for m, r in zip(meta, rep):
            cname, p, depth, full, ok, real, absp, dn, bn = m
            ck.case(('path', cname, p), _path_nontrivial(p))
            ck.hist('be.path.depth', depth)
            ck.hist('be.path.accepted', ok)
            got = (r.get('accepted'), r.get('rel'), r.get('full'), r.get('abs'), r.get('dirname'), r.get('basename'))
            want = (ok, real, full, absp, dn, bn)
            if got != want:
                ck.disagree('be.path', {'combo': cname, 'path': p}, want, got)
            else:
                ck.agree('be.path')
            # direct oracle on the pure function: an accepted relative name never climbs out
            if ok:
                parts = real.split('/')
                if real.startswith('/') or '..' in parts:
                    ck.failing_input('accepted output path escapes the output root',
                                     {'site': '_relative_output_path', 'kind': 'escape'},
                                     {'suite': 'path', 'writer': 'pure', 'combo': cname, 'path': p, 'relative': real})
        # ---- the three writers on the real file system
        fs_paths = [(p, d) for p, d in rels if d <= max_fs] + [(p, d) for p, d in abs_forms if d <= 1]
        writers = [('output_to_relative_path', Spaces, ['abs-root', 'rel-root', 'dotdot-root']),
                   ('swift_writer', Swift, ['abs-root', 'rel-root']),
                   ('copy_to_path', Spaces, ['abs-root', 'rel-root'])]
        combos = {c[0]: c for c in _combos(sb)}
        for wname, cls, cnames in writers:
            for cname in cnames:
                _c, cwd, root = combos[cname]
                os.chdir(cwd)
                real_cwd = os.getcwd()
                reqs, meta = [], []
                paths = fs_paths if wname != 'copy_to_path' else [(p, d) for p, d in fs_paths if d <= min(max_fs, 3)]
                for p, depth in paths:
                    backend = cls(root, [])
                    outcome = 'written'
                    then = None
                    try:
                        if wname == 'output_to_relative_path':
                            with backend.output_to_relative_path(p):
                                backend.emit('x = {1} é')
                        elif wname == 'swift_writer':
                            backend._write_output_in_target_folder('x = {1} é\n', p)
                        else:
                            dst = os.path.join(root, p)
                            if os.path.isdir(dst):
                                then = os.path.basename(sb.src)
                            backend.copy_to_path(sb.src, dst)
                    except AssertionError:
                        outcome = 'refused'
                    except OSError:
                        outcome = 'ioerror'
                    except (KeyError, IndexError, ValueError):
                        outcome = 'format-error'
                    new_files, new_dirs = sb.diff()
                    content_ok = True
                    if outcome == 'written' and len(new_files) == 1:
                        with open(new_files[0], 'rb') as fh:
                            data = fh.read()
                        content_ok = data == (b'source\n' if wname == 'copy_to_path' else 'x = {1} é\n'.encode('utf-8'))
                    sb.reset(new_files, new_dirs)
                    req = {'op': 'be.path', 'cwd': real_cwd, 'root': root, 'path': p, 'join': True}
                    if then is not None:
                        req['then'] = then
                    reqs.append(req)
                    meta.append((p, depth, outcome, new_files, new_dirs))
                    case = {'suite': 'path', 'writer': wname, 'combo': cname, 'cwd': 'w' if cwd == sb.w else 'w/sub',
                            'root': root.replace(sb.top, '<scratch>'), 'path': p.replace(sb.top, '<scratch>'),
                            'outcome': outcome,
                            'new_files': [f.replace(sb.top, '<scratch>') for f in new_files],
                            'new_dirs': [d.replace(sb.top, '<scratch>') for d in new_dirs]}
                    # ---- direct oracle: nothing lands outside the output folder; a refusal writes nothing
                    outside_files = [f for f in new_files if not sb.inside_out(f)]
                    outside_dirs = [d for d in new_dirs if not sb.inside_out(d)]
                    if outside_files:
                        ck.failing_input('%s wrote a file outside the output folder' % wname,
                                         {'site': wname, 'kind': 'escape'}, case)
                    elif outside_dirs:
                        ck.failing_input('%s created a directory outside the output folder' % wname,
                                         {'site': wname, 'kind': 'dir-outside'}, case)
                    if outcome == 'refused' and (new_files or new_dirs):
                        ck.failing_input('%s refused the request after writing' % wname,
                                         {'site': wname, 'kind': 'refused-after-write'}, case)
                    if outcome == 'format-error' or not content_ok:
                        ck.failing_input('text written through %s does not reach the file byte for byte' % wname,
                                         {'site': wname, 'kind': 'content'}, case)
                os.chdir(home)
                rep = drive(ck, reqs)
                for (p, depth, outcome, new_files, new_dirs), r in zip(meta, rep):
                    ck.case(('fs', wname, cname, p), _path_nontrivial(p))
                    ck.hist('be.path.%s' % wname, outcome)
                    accepted = outcome != 'refused'
                    want_file = None
                    if outcome == 'written':
                        want_file = [os.path.relpath(f, sb.out) for f in new_files]
                    got_file = [r.get('rel')] if outcome == 'written' else None
                    if accepted != r.get('accepted') or want_file != got_file:
                        ck.disagree('be.path.' + wname, {'combo': cname, 'path': p.replace(sb.top, '<scratch>')},
                                    [outcome, want_file], [r.get('accepted'), r.get('rel')])
                    else:
                        ck.agree('be.path.' + wname)
        # ---- an output folder that does not exist yet (oracle only; SwiftBaseBackend creates it itself before it
        #      validates the file name, the other two create it together with the file's directory)
        fresh = os.path.join(sb.w, 'fresh')
        fresh_paths = ['A.swift', 'sub/A.swift', 'é/日.swift', '../E.swift', '../fresh2/E.swift', '../fresh/A.swift',
                       '../../E.swift', 'a/../../E.swift', 'a/../A.swift', '.', '', '..', '../', sb.base + '/abs.swift',
                       fresh + '/in.swift', '../out/E.swift', 'sub/../../out/E.swift']
        os.chdir(sb.w)
        for wname, cls in (('swift_writer', Swift), ('output_to_relative_path', Spaces), ('copy_to_path', Spaces)):
            for root in ('fresh', fresh, './fresh/'):
                for p in fresh_paths:
                    backend = cls(root, [])
                    outcome = 'written'
                    try:
                        if wname == 'output_to_relative_path':
                            with backend.output_to_relative_path(p):
                                backend.emit('x = {1} é')
                        elif wname == 'swift_writer':
                            backend._write_output_in_target_folder('x = {1} é\n', p)
                        else:
                            backend.copy_to_path(sb.src, os.path.join(root, p))
                    except AssertionError:
                        outcome = 'refused'
                    except OSError:
                        outcome = 'ioerror'
                    except (KeyError, IndexError, ValueError):
                        outcome = 'format-error'
                    new_files, new_dirs = sb.diff()
                    sb.reset(new_files, new_dirs)
                    ck.case(('fresh-root', wname, root == fresh, p), True)
                    ck.hist('be.path.fresh_root.%s' % wname, outcome)
                    inside = lambda x: x == fresh or x.startswith(fresh + os.sep)   # noqa: E731
                    case = {'suite': 'path', 'writer': wname, 'combo': 'fresh-root', 'cwd': 'w',
                            'root': root.replace(sb.top, '<scratch>'), 'path': p.replace(sb.top, '<scratch>'),
                            'outcome': outcome, 'out_name': 'fresh',
                            'new_files': [f.replace(sb.top, '<scratch>') for f in new_files],
                            'new_dirs': [d.replace(sb.top, '<scratch>') for d in new_dirs]}
                    if [f for f in new_files if not inside(f)]:
                        ck.failing_input('%s wrote a file outside the output folder' % wname,
                                         {'site': wname, 'kind': 'escape'}, case)
                    elif [d for d in new_dirs if not inside(d)]:
                        ck.failing_input('%s created a directory outside the output folder' % wname,
                                         {'site': wname, 'kind': 'dir-outside'}, case)
                    # a refusal may leave the (empty) output folder itself behind, nothing else
                    if outcome == 'refused' and (new_files or [d for d in new_dirs if d != fresh]):
                        ck.failing_input('%s refused the request after writing' % wname,
                                         {'site': wname, 'kind': 'refused-after-write'}, case)
                    if outcome == 'format-error':
                        ck.failing_input('text written through %s does not reach the file byte for byte' % wname,
                                         {'site': wname, 'kind': 'content'}, case)
        os.chdir(home)
        # ---- observation outside the quantified domain (7 segments): recorded, not judged
        os.chdir(sb.w)
        b = Spaces(OUT_NAME, [])
        try:
            with b.output_to_relative_path('x/../../sib/../out/f'):
                b.emit('x')
            note = 'written'
        except AssertionError:
            note = 'refused'
        except OSError as e:
            note = type(e).__name__
        nf, nd = sb.diff()
        sb.reset(nf, nd)
        stray = [d.replace(sb.top, '<scratch>') for d in nd if not sb.inside_out(d)]
        if stray:
            ck.note('observation (depth 7, outside the quantified domain, not judged): output_to_relative_path('
                    "'x/../../sib/../out/f') is accepted (target inside), then os.makedirs of the un-normalised dirname "
                    'creates %s next to the output folder before failing with %s; no file is written' % (stray, note))
    finally:
        os.chdir(home)


# ======================================================================================= be.emit

PH_NAMES = ['x', 'name', '_p1', 'é']   # 'é' is outside the modelled subset of field names -> never sent, see gen
TEXTS = ['{', '}', '{{', '}}', '{}', '{0}', '{x}', '%s', '{!r}', '{:>4}', 'a', 'bc', ' ', '  ', 'é', '日本', '\\', '"',
         'foo(bar)', 'x = y;', '\t', '-', 'long-hyphen-ated', '😀', ' ', ' ']


def gen_line(rng, maxlen=5):
    return ''.join(rng.choice(TEXTS) for _ in range(rng.randint(0, maxlen)))


def gen_words(rng, n=None):
    n = rng.randint(0, 14) if n is None else n
    seps = [' ', ' ', ' ', '  ', '\n', '\t', ' \n ', '\r\n', '\x0b', '\x0c', ' ', '\x1c', ' ', '\x85']
    words = ['a', 'the', 'word', 'é', '日本語', 'hy-phen-ated', 'x' * rng.randint(1, 30), '{}', '{x}', '}', 'a b',
             '-', '--', 'end.', 'Q?', '😀', 'w w', '%s']
    parts = [rng.choice(['', '', ' ', '\n', '\t'])]
    for _ in range(n):
        parts.append(rng.choice(words))
        parts.append(rng.choice(seps))
    if parts and rng.random() < 0.5:
        parts.pop()
    return ''.join(parts)


def gen_ops(rng, depth, bad):
    """A list of emit ops (nested arrays, the driver's wire format). `bad` = probability of an ill-formed op."""
    ops = []
    for _ in range(rng.randint(0, 4 if depth else 6)):
        k = rng.random()
        if k < 0.30:
            s = gen_line(rng)
            if rng.random() < bad:
                s += '\n' + gen_line(rng, 2)
            ops.append(['emit', s])
        elif k < 0.40:
            s = ''.join(rng.choice(TEXTS + ['\n']) for _ in range(rng.randint(0, 5)))
            if not (rng.random() < bad):
                s = s + '\n' if s else rng.choice(['', '\n'])
            ops.append(['raw', s])
        elif k < 0.48:
            name = rng.choice(['', '', 'x', 'name', '_p1'])
            ops.append(['ph', name])
            if not (rng.random() < bad):
                if name == '':
                    ops.insert(rng.randint(0, len(ops)), ['pos', gen_line(rng, 3)])
                else:
                    ops.insert(rng.randint(0, len(ops)), ['named', name, gen_line(rng, 3)])
        elif k < 0.52:
            ops.append(rng.choice([['pos', gen_line(rng, 2)], ['named', rng.choice(['x', 'name', 'unused']), gen_line(rng, 2)]]))
        elif k < 0.62:
            width = rng.choice([80, 80, 40, 20, 10, 5, 1]) if not (rng.random() < bad) else rng.choice([0, -3])
            ops.append(['wrapped', gen_words(rng), rng.choice(['', '', '// ', '# ', ' * ', '{']),
                        rng.choice(['', '', '- ', '/** ']), rng.choice(['', '', '  ', ' * ']), width])
        elif k < 0.74 and depth < 3:
            dent = rng.choice([None, None, 0, 1, 2, 4, 7])
            if rng.random() < bad:
                dent = -rng.randint(1, 3)
            ops.append(['indent', dent, gen_ops(rng, depth + 1, bad)])
        elif k < 0.88 and depth < 3:
            dent = rng.choice([None, None, None, 0, 2, 8])
            if rng.random() < bad:
                dent = -1
            d0 = rng.choice(['{', '{', '(', '', None, 'begin', '{{'])
            d1 = rng.choice(['}', '}', ')', '', None, 'end', '}}'])
            ops.append(['block', rng.choice(['', 'if (x)', 'class A', 'def f():', '{b}', 'é']),
                        rng.choice(['', '', ';', ' // {end}']), d0, d1, dent, rng.random() < 0.3,
                        gen_ops(rng, depth + 1, bad)])
        else:
            items = [gen_line(rng, 2) for _ in range(rng.randint(0, 4))]
            if rng.random() < bad and items:
                items[rng.randrange(len(items))] += '\n'
            ops.append(['mlist', items, rng.choice(['', '', 'f', 'x = {', 'call ']), rng.choice(['', ';', ' -> T', '}']),
                        rng.choice(['(', '[', '', '{', '<<']), rng.choice([')', ']', '', '}']), rng.random() < 0.5,
                        rng.choice([',', ',', '', ' |', '{,}']), rng.random() < 0.5])
    return ops


def exec_ops(b, ops):
    for op in ops:
        t = op[0]
        if t == 'emit':
            b.emit(op[1])
        elif t == 'raw':
            b.emit_raw(op[1])
        elif t == 'ph':
            b.emit_placeholder(op[1])
        elif t == 'pos':
            b.add_positional_placeholder(op[1])
        elif t == 'named':
            b.add_named_placeholder(op[1], op[2])
        elif t == 'wrapped':
            b.emit_wrapped_text(op[1], prefix=op[2], initial_prefix=op[3], subsequent_prefix=op[4], width=op[5])
        elif t == 'indent':
            with b.indent(op[1]):
                exec_ops(b, op[2])
        elif t == 'block':
            with b.block(before=op[1], after=op[2], delim=(op[3], op[4]), dent=op[5], allman=op[6]):
                exec_ops(b, op[7])
        elif t == 'mlist':
            b.generate_multiline_list(op[1], before=op[2], after=op[3], delim=(op[4], op[5]), compact=op[6], sep=op[7],
                                      skip_last_sep=op[8])
        else:
            raise RuntimeError(t)


class Refused(Exception):
    pass


def reference_text(ops, tabs):
    """Independent reference pretty-printer (written from the docstrings of stone/backend.py, no buffer, no
    str.format): returns the final text, raises Refused for scripts the backend must reject."""
    unit = '\t' if tabs else ' '
    step = 1 if tabs else 4
    pos, named = [], {}

    def collect(ops):
        for op in ops:
            if op[0] == 'pos':
                pos.append(op[1])
            elif op[0] == 'named':
                named[op[1]] = op[2]
            elif op[0] == 'indent':
                collect(op[2])
            elif op[0] == 'block':
                collect(op[7])
    collect(ops)
    out = []
    next_pos = [0]

    def line(ind, text):
        if '\n' in text:
            raise Refused('newline in emit')
        out.append(unit * ind + text + '\n' if text else '\n')

    def dent_of(d):
        if d is None:
            return step
        if d < 0:
            raise Refused('negative dent')
        return d

    def go(ops, ind):
        for op in ops:
            t = op[0]
            if t == 'emit':
                line(ind, op[1])
            elif t == 'raw':
                if op[1] and not op[1].endswith('\n'):
                    raise Refused('raw without newline')
                out.append(op[1])
            elif t == 'ph':
                if op[1] == '':
                    if next_pos[0] >= len(pos):
                        raise Refused('positional placeholder missing')
                    out.append(pos[next_pos[0]])
                    next_pos[0] += 1
                else:
                    if op[1] not in named:
                        raise Refused('named placeholder missing')
                    out.append(named[op[1]])
            elif t in ('pos', 'named'):
                pass
            elif t == 'wrapped':
                if op[5] <= 0:
                    raise Refused('width')
                pre = unit * ind + op[2]
                out.append(textwrap.fill(op[1], width=op[5], initial_indent=pre + op[3], subsequent_indent=pre + op[4],
                                         break_long_words=False, break_on_hyphens=False) + '\n')
            elif t == 'indent':
                go(op[2], ind + dent_of(op[1]))
            elif t == 'block':
                _t, before, after, d0, d1, dent, allman, body = op
                if before and not allman:
                    line(ind, before + ' ' + d0 if d0 is not None else before)
                else:
                    if before:
                        line(ind, before)
                    if d0 is not None:
                        line(ind, d0)
                go(body, ind + dent_of(dent))
                line(ind, (d1 if d1 is not None else '') + after)
            elif t == 'mlist':
                _t, items, before, after, d0, d1, compact, sep, skip = op
                if len(items) == 0:
                    line(ind, before + d0 + d1 + after)
                elif len(items) == 1:
                    line(ind, before + d0 + items[0] + d1 + after)
                elif compact:
                    line(ind, before + d0 + items[0] + sep)
                    inner = ind + len(before) + len(d0)
                    for it in items[1:-1]:
                        line(inner, it + sep)
                    line(inner, items[-1] + d1 + after)
                else:
                    if before + d0:
                        line(ind, before + d0)
                    for it in items[:-1]:
                        line(ind + step, it + sep)
                    line(ind + step, items[-1] + ('' if skip else sep))
                    if d1 + after:
                        line(ind, d1 + after)
    go(ops, 0)
    return ''.join(out)


def run_emit_real(cls, ops):
    b = cls('/nonexistent', [])
    try:
        with time_limit(2.0):
            exec_ops(b, ops)
            return b.output_buffer_to_string()
    except EMIT_ERRORS:
        return None
    except Hang:
        return HANG


def _script_nontrivial(ops):
    s = json.dumps(ops)
    return '{' in s or '"ph"' in s or '"block"' in s or '"indent"' in s


def _count_ops(ops):
    n = 0
    for op in ops:
        n += 1
        if op[0] == 'indent':
            n += _count_ops(op[2])
        elif op[0] == 'block':
            n += _count_ops(op[7])
    return n


def _emit_mismatch(cls, tabs, ops):
    try:
        ref = reference_text(ops, tabs)
    except Refused:
        ref = None
    real = run_emit_real(cls, ops)
    return real != ref, real, ref


def _variants(ops):
    """smaller scripts: one op removed, a context replaced by its body, a body emptied (at any depth)"""
    for i, op in enumerate(ops):
        yield ops[:i] + ops[i + 1:]
        body_at = {'indent': 2, 'block': 7}.get(op[0])
        if body_at is not None:
            body = op[body_at]
            yield ops[:i] + body + ops[i + 1:]
            if body:
                yield ops[:i] + [op[:body_at] + [[]] + op[body_at + 1:]] + ops[i + 1:]
            for v in _variants(body):
                yield ops[:i] + [op[:body_at] + [v] + op[body_at + 1:]] + ops[i + 1:]
        if op[0] == 'mlist' and len(op[1]) > 2:
            yield ops[:i] + [[op[0], op[1][:2]] + op[2:]] + ops[i + 1:]


def shrink_script(cls, tabs, ops, budget=400):
    """Greedy minimisation of a failing emit script (keeps failing the reference comparison)."""
    improved = True
    t0 = time.time()
    while improved and budget > 0:
        improved = False
        for v in _variants(ops):
            budget -= 1
            if budget <= 0 or time.time() - t0 > 30:
                budget = 0
                break
            if _emit_mismatch(cls, tabs, v)[0]:
                ops = v
                improved = True
                break
    return ops


def emit_oracle(ck, cls, tabs, ops, real):
    try:
        ref = reference_text(ops, tabs)
    except Refused:
        ref = None
    if real != ref:
        if not any(v['what'].startswith('emitted text differs') for v in ck.violations):
            small = shrink_script(cls, tabs, ops)
            bad, sreal, sref = _emit_mismatch(cls, tabs, small)
            if bad:
                ops, real, ref = small, sreal, sref
        kind = 'accepts-ill-formed' if ref is None else ('rejects-well-formed' if real is None else 'text-differs')
        ck.failing_input('emitted text differs from the reference pretty-printer (%s)' % kind,
                         {'site': 'emit-script', 'kind': kind},
                         {'suite': 'emit', 'tabs': tabs, 'script': ops, 'real': real, 'reference': ref})
        return False
    return True


def suite_emit(ck):
    Spaces, Tabs, _Swift = _backend_classes()
    n = ck.scale(3000, 60000)
    scripts = []
    for i in range(n):
        bad = 0.0 if ck.rng.random() < 0.75 else 0.08
        scripts.append((ck.rng.random() < 0.5, gen_ops(ck.rng, 0, bad)))
    reals = []
    for tabs, ops in scripts:
        reals.append(run_emit_real(Tabs if tabs else Spaces, ops))
        if reals[-1] == HANG and sum(1 for r in reals if r == HANG) >= 5:
            ck.note('be.emit stopped after 5 non-terminating scripts; %d scripts not run' % (len(scripts) - len(reals)))
            scripts = scripts[:len(reals)]
            break
    rep = drive(ck, [{'op': 'be.emit', 'tabs': tabs, 'script': ops} for tabs, ops in scripts])
    for (tabs, ops), real, r in zip(scripts, reals, rep):
        ck.case(('emit', tabs, json.dumps(ops)), _script_nontrivial(ops))
        ck.hist('be.emit.ops', min(_count_ops(ops), 20))
        ck.hist('be.emit.outcome', 'error' if real is None else 'text')
        if 'protocol_error' in r:
            ck.disagree('be.emit', {'tabs': tabs, 'script': ops}, real, r)
            continue
        model = r.get('out') if r.get('ok') else None
        if model != real or r.get('ref') != model:
            ck.disagree('be.emit', {'tabs': tabs, 'script': ops}, real, {'model': model, 'err': r.get('err'), 'ref': r.get('ref')})
        else:
            ck.agree('be.emit')
        emit_oracle(ck, Tabs if tabs else Spaces, tabs, ops, real)
    for tabs, ops in scripts[:2]:
        ck.sample({'emit_script': ops, 'tabs': tabs, 'text': run_emit_real(Tabs if tabs else Spaces, ops)})


# ======================================================================================= be.wrap

def wrap_oracle(ck, case, out):
    """words preserved in order, every line behind its prefix. With break_long_words / break_on_hyphens a word may
    be cut, so there the characters outside white space are compared; without them the words themselves, and a
    flag that is off must stay off (no word is cut / no word is cut at a hyphen)."""
    text, ind, prefix, ini, sub, width = (case[k] for k in ('text', 'indent', 'prefix', 'ini', 'sub', 'width'))
    blw, boh = bool(case.get('blw')), bool(case.get('boh'))
    p0 = ind + prefix + ini
    p1 = ind + prefix + sub
    body = out[:-1] if out.endswith('\n') else out
    lines = body.split('\n') if body else []
    words = []
    ok = out.endswith('\n')
    for i, ln in enumerate(lines):
        p = p0 if i == 0 else p1
        if not ln.startswith(p):
            ok = False
            break
        words.extend(ln[len(p):].split())
    kind = 'words'
    if ok and not (blw or boh) and words != text.split():
        ok = False
    if ok and (blw or boh):
        if ''.join(words) != ''.join(text.split()):
            ok = False
        else:
            # every piece is a word or a cut of one; a cut needs a flag that allows it at that place
            pieces, src = list(words), text.split()
            j = 0
            for w in src:
                taken = ''
                first = True
                while taken != w and j < len(pieces) and w.startswith(taken + pieces[j]):
                    if not first and not blw and not (boh and taken.endswith('-')):
                        ok, kind = False, 'flag-ignored'
                    taken += pieces[j]
                    j += 1
                    first = False
                if taken != w:
                    ok = False
                    break
            if ok and blw and width > 0:
                room = [width - len(p0)] + [width - len(p1)] * max(len(lines) - 1, 0)
                if min(room) >= 1 and any(len(ln) > width for ln in lines):
                    ok, kind = False, 'flag-ignored'        # break_long_words: no line is longer than the width
    if not ok:
        ck.failing_input('wrapped text loses / reorders words, drops a prefix or ignores a wrapping flag',
                         {'site': 'emit_wrapped_text', 'kind': kind}, dict(case, suite='wrap', got=out))
    return ok


def suite_wrap(ck):
    Spaces, Tabs, _Swift = _backend_classes()
    n = ck.scale(4000, 80000)
    cases = []
    for i in range(n):
        tabs = ck.rng.random() < 0.3
        depth = ck.rng.choice([0, 0, 1, 2, 5])
        cases.append({'text': gen_words(ck.rng), 'tabs': tabs, 'depth': depth,
                      'indent': ('\t' if tabs else ' ') * depth,
                      'prefix': ck.rng.choice(['', '', '// ', '# ', '{', '  ']),
                      'ini': ck.rng.choice(['', '', '- ', '/** ', 'é ']),
                      'sub': ck.rng.choice(['', '', '  ', ' * ']),
                      'width': ck.rng.choice([80, 80, 60, 30, 20, 12, 8, 5, 3, 1, 90, 0, -2])})
        # the two wrapping flags (default False, the only value the built-in backends pass and the model covers):
        # a quarter of the cases sets one or both; these are judged by the oracle and textwrap.fill alone
        r = ck.rng.random()
        cases[-1]['blw'] = r < 0.17
        cases[-1]['boh'] = 0.09 <= r < 0.25
        c = cases[-1]
        if c['blw'] and c['width'] - len(c['indent'] + c['prefix']) - max(len(c['ini']), len(c['sub'])) < 1:
            # textwrap itself never returns when it may cut words and a prefix leaves no room at all
            # (CPython: _handle_long_word takes chunk[:0] for ever) - not a behaviour of the code under test
            c['blw'] = False
    reals = []
    for c in cases:
        b = (Tabs if c['tabs'] else Spaces)('/nonexistent', [])
        b.cur_indent = c['depth']
        try:
            with time_limit(2.0):
                if c['blw'] or c['boh']:
                    b.emit_wrapped_text(c['text'], prefix=c['prefix'], initial_prefix=c['ini'],
                                        subsequent_prefix=c['sub'], width=c['width'], break_long_words=c['blw'],
                                        break_on_hyphens=c['boh'])
                else:
                    b.emit_wrapped_text(c['text'], prefix=c['prefix'], initial_prefix=c['ini'],
                                        subsequent_prefix=c['sub'], width=c['width'])
                reals.append(b.output_buffer_to_string())
        except ValueError:
            reals.append(None)
        except Hang:
            reals.append(HANG)
            if sum(1 for r in reals if r == HANG) >= 5:
                break
    hung = len(cases) - len(reals)
    if hung:
        ck.note('be.wrap stopped after 5 non-terminating calls; %d cases not run' % hung)
        cases = cases[:len(reals)]
    rep = drive(ck, [{'op': 'be.wrap', 'text': c['text'], 'ini': c['indent'] + c['prefix'] + c['ini'],
                      'sub': c['indent'] + c['prefix'] + c['sub'], 'width': c['width']} for c in cases])
    for c, real, r in zip(cases, reals, rep):
        nlines = 0 if real is None else real.count('\n')
        ck.case(('wrap', json.dumps(c, sort_keys=True)), nlines > 1)
        ck.hist('be.wrap.lines', min(nlines, 12))
        ck.hist('be.wrap.width', c['width'])
        ck.hist('be.wrap.flags', 'long_words=%s hyphens=%s' % (c['blw'], c['boh']))
        if c['blw'] or c['boh']:
            # outside the model (it has the defaults built in): the library call with the same flags is the reference
            try:
                want = textwrap.fill(c['text'], width=c['width'], initial_indent=c['indent'] + c['prefix'] + c['ini'],
                                     subsequent_indent=c['indent'] + c['prefix'] + c['sub'],
                                     break_long_words=c['blw'], break_on_hyphens=c['boh']) + '\n'
            except ValueError:
                want = None
            if real != HANG and real != want:
                ck.failing_input('emit_wrapped_text does not pass its wrapping flags on',
                                 {'site': 'emit_wrapped_text', 'kind': 'flag-ignored'},
                                 dict(c, suite='wrap', got=real, expected=want))
            ck.agree('be.wrap.flags')
        else:
            model = (r.get('out') + '\n') if r.get('ok') else None
            if model != real:
                ck.disagree('be.wrap', c, real, model)
            else:
                ck.agree('be.wrap')
        if real == HANG:
            ck.failing_input('emit_wrapped_text does not terminate', {'site': 'emit_wrapped_text', 'kind': 'hang'},
                             dict(c, suite='wrap'))
        elif real is not None:
            wrap_oracle(ck, c, real)
            if not (c['blw'] or c['boh']) and r.get('ok') and r.get('words') != c['text'].split():
                ck.disagree('be.wrap.words', c, c['text'].split(), r.get('words'))
        elif c['width'] > 0:
            ck.failing_input('emit_wrapped_text rejects a positive width', {'site': 'emit_wrapped_text', 'kind': 'rejects'},
                             dict(c, suite='wrap'))
    ck.sample({'wrap': cases[0], 'text': reals[0]})


# ======================================================================================= be.filter_none

class _Opaque:
    """a value that is neither None nor comparable to anything"""
    def __eq__(self, other):
        return False

    def __hash__(self):
        return 7

    def __bool__(self):
        return False


def suite_filter_none(ck):
    """CodeBackend.filter_out_none_valued_keys (oracle only, from its docstring): a NEW dict with exactly the
    keys whose value is not None, each bound to the very same value; the argument is left alone. Values are
    biased to the falsy ones (0, '', False, [], {}, 0.0) that a truthiness test would lose."""
    Spaces, _Tabs, _Swift = _backend_classes()
    b = Spaces('/nonexistent', [])
    n = ck.scale(600, 6000)
    opaque = _Opaque()
    values = [None, None, None, 0, '', False, [], {}, 0.0, (), 'x', 1, True, [None], {'k': None}, 'None', opaque,
              float('nan'), b'', -1]
    keys = ['a', 'b', 'min_value', 'max_value', 'pattern', '', 0, 1, None, ('t', 1), 'é', False, 2.5]
    for _i in range(n):
        d = {}
        for _j in range(ck.rng.randint(0, 6)):
            d[ck.rng.choice(keys)] = ck.rng.choice(values)
        before = list(d.items())
        try:
            got = b.filter_out_none_valued_keys(d)
            err = None
        except Exception as e:                              # noqa: the real code is under test
            got, err = None, type(e).__name__
        ck.case(('filter_none', repr(before)), any(v is None for _k, v in before))
        ck.hist('be.filter_none.size', len(before))
        want = [(k, v) for k, v in before if v is not None]
        ok = (err is None and isinstance(got, dict) and (got is not d)
              and len(got) == len(want) and all(k in got and got[k] is v for k, v in want)
              and len(d) == len(before) and all(k in d and d[k] is v for k, v in before))
        if ok:
            ck.agree('be.filter_none')
        else:
            ck.failing_input('filter_out_none_valued_keys does not return a new dict with exactly the non-None entries',
                             {'site': 'filter_out_none_valued_keys', 'kind': 'entries'},
                             {'suite': 'filter_none', 'items': [[repr(k), repr(v)] for k, v in before],
                              'got': None if got is None else [[repr(k), repr(v)] for k, v in got.items()],
                              'same_object': got is d, 'error': err})


# ======================================================================================= manifest: API level

def _abs_ancestors(path):
    comps = [c for c in path.split('/') if c]
    return [comps[:i] for i in range(1, len(comps) + 1)]


def gen_manifest_ops(rng):
    ops = []
    for _ in range(rng.randint(1, 6)):
        k = rng.random()
        content = rand_text(rng, 4).replace('\n', ' ')
        if k < 0.6:
            rel = rng.choice(['f1.txt', 'f2.py', 'sub/f3.txt', 'sub/deep/f4.txt', './f1.txt', 'sub//f3.txt', 'é/日.txt',
                              '__init__.py', '__init__.py', '../escape.txt', '../../e2.txt', '@ABS@/abs-escape.txt',
                              'sub/../../e3.txt', 'Resources', '', '.', 'Resources/r.txt', '..x/ok.txt'])
            ops.append(['out', rel, rng.random() < 0.3, content])
        elif k < 0.85:
            dst = rng.choice(['', 'Resources', 'Resources/', 'copied.txt', 'Resources/renamed.h', 'missing/c.txt',
                              '../outside.txt', '..'])
            ops.append(['copy', rng.choice(['src1.h', 'src2.m']), content, dst])
        else:
            ops.append(['swift', content, rng.choice(['A.swift', 'B.swift', 'Resources/C.swift', 'nodir/D.swift',
                                                      '../E.swift', 'A.swift'])])
    return ops


def run_manifest_real(cls, sb, root, ops, manifest):
    """Execute the ops on a real backend. Returns (status, manifest outputs or None, {relative file: content})."""
    from stone.backend import OutputManifest
    om = OutputManifest() if manifest else None
    b = cls(root, [], output_manifest=om)
    status = 'ok'
    try:
        for op in ops:
            if op[0] == 'out':
                with b.output_to_relative_path(op[1], mode='ab' if op[2] else 'wb'):
                    b.emit_raw(op[3] + '\n')
            elif op[0] == 'copy':
                src = os.path.join(sb.srcdir, op[1])
                with open(src, 'w', encoding='utf-8') as fh:
                    fh.write(op[2] + '\n')
                b.copy_to_path(src, os.path.join(root, op[3]) if op[3] != '' else root)
            else:
                b._write_output_in_target_folder(op[1] + '\n', op[2])
    except AssertionError:
        status = 'refused'
    except OSError:
        status = 'io'
    except (KeyError, IndexError, ValueError):
        status = 'format-error'
    return status, (om.outputs() if om else None)


def suite_manifest_api(ck):
    _Spaces, _Tabs, Swift = _backend_classes()
    sb = Sandbox()
    os.makedirs(os.path.join(sb.out, 'Resources'))
    sb.baseline = sb.listing()
    home = os.getcwd()
    n = ck.scale(400, 6000)
    dirs = _abs_ancestors(sb.out) + [_abs_ancestors(sb.out)[-1] + ['Resources']]
    try:
        os.chdir(sb.w)
        cwd = os.getcwd()
        seqs = [(ck.rng.choice([OUT_NAME, sb.out, './' + OUT_NAME]),
                 [[x.replace('@ABS@', sb.base) if isinstance(x, str) else x for x in op] for op in gen_manifest_ops(ck.rng)])
                for _ in range(n)]
        reqs, reals = [], []
        for root, ops in seqs:
            for manifest in (False, True):
                status, outputs = run_manifest_real(Swift, sb, root, ops, manifest)
                new_files, new_dirs = sb.diff()
                new_files = [f for f in new_files if not f.startswith(sb.srcdir)]
                files = {}
                for f in new_files:
                    with open(f, encoding='utf-8') as fh:
                        files[f] = fh.read()
                sb.reset(new_files + [os.path.join(sb.srcdir, 'src1.h'), os.path.join(sb.srcdir, 'src2.m')], new_dirs)
                os.makedirs(os.path.join(sb.out, 'Resources'), exist_ok=True)
                reals.append((status, outputs, files, new_dirs))
                model_ops = []
                for op in ops:
                    if op[0] == 'out':
                        model_ops.append(['out', op[1], op[2], op[3] + '\n'])
                    elif op[0] == 'copy':
                        model_ops.append(['copy', op[1], op[2] + '\n', os.path.join(root, op[3]) if op[3] != '' else root])
                    else:
                        model_ops.append(['swift', op[1] + '\n', op[2]])
                reqs.append({'op': 'be.manifest', 'cwd': cwd, 'root': root, 'manifest': manifest, 'dirs': dirs,
                             'ops': model_ops})
        os.chdir(home)
        rep = drive(ck, reqs)
        i = 0
        for root, ops in seqs:
            for manifest in (False, True):
                status, outputs, files, new_dirs = reals[i]
                r = rep[i]
                i += 1
                case = {'suite': 'manifest_api', 'root': root.replace(sb.top, '<scratch>'), 'ops': ops, 'manifest': manifest,
                        'status': status, 'files': sorted(f.replace(sb.top, '<scratch>') for f in files)}
                ck.case(('mapi', root, json.dumps(ops), manifest), bool(files) or bool(outputs))
                ck.hist('be.manifest_api.status', '%s/%s' % ('manifest' if manifest else 'real', status))
                real_files = sorted(('/' + '/'.join(k.strip('/').split('/')), v) for k, v in files.items())
                model_files = sorted(('/' + '/'.join(k), v) for k, v in r.get('files', []))
                want = (status, outputs if manifest else None, real_files)
                got = (r.get('status'), r.get('outputs') if manifest else None, model_files)
                if want != got:
                    ck.disagree('be.manifest_api', case, want, got)
                else:
                    ck.agree('be.manifest_api')
                # direct oracles
                outside = [f for f in files if not sb.inside_out(f)] + [d for d in new_dirs if not sb.inside_out(d)]
                if outside:
                    ck.failing_input('a write request landed outside the output folder',
                                     {'site': 'backend-api', 'kind': 'escape'}, case)
                if manifest and files:
                    ck.failing_input('a manifest run created a file', {'site': 'backend-api', 'kind': 'manifest-writes'}, case)
                if status == 'format-error':
                    ck.failing_input('raw text does not survive output_buffer_to_string',
                                     {'site': 'backend-api', 'kind': 'content'}, case)
            # manifest vs real of the same sequence (same status => same set), when no copy goes to a non-directory
            (s_real, _o, f_real, _d), (s_man, o_man, _f, _d2) = reals[i - 2], reals[i - 1]
            if s_real == 'ok' and s_man == 'ok':
                created = sorted(os.path.relpath(f, sb.out) for f in f_real)
                if created != o_man:
                    ck.failing_input('manifest differs from the files the real run created (API sequence)',
                                     {'site': 'backend-api', 'kind': 'manifest-differs'},
                                     {'suite': 'manifest_api', 'root': root.replace(sb.top, '<scratch>'), 'ops': ops,
                                      'created': created, 'manifest': o_man})
    finally:
        os.chdir(home)


# ======================================================================================= manifest: built-in backends

SPEC_DIR = os.path.join(core.VERIF, 'harness', 'specs', 'c18')
SW_ARGS = ['-m', 'Mod', '-c', 'Client', '-t', 'Transport', '-y', '{}', '-z',
           '{"rpc":"RpcRequest","upload":"UploadRequest","download":"DownloadRequest"}']
TEMPLATE = '// header\n/*IMPORT*/\n/*TYPES*/\n/*ROUTES*/\n// footer {x}\n'

# (backend, args, needs template in the output folder, expected to be refused)
BACKEND_RUNS = [
    ('python_types', ['-p', 'pk'], False, False),
    ('python_types', ['-p', 'pk', '-r', 'route_{ns}_{route}'], False, False),
    ('python_type_stubs', ['-p', 'pk'], False, False),
    ('python_client', ['-m', 'base', '-c', 'Base', '-t', 'pk'], False, False),
    ('python_client', ['-m', 'sub/dir/base', '-c', 'Base', '-t', 'pk', '-a', 'auth'], False, False),
    ('python_client', ['-m', '../escape', '-c', 'Base', '-t', 'pk'], False, True),
    ('js_client', ['r.js'], False, False),
    ('js_client', ['lib/nested/r.js', '-c', 'Api'], False, False),
    ('js_client', ['../../escape.js'], False, True),
    ('js_types', ['t.js'], False, False),
    ('js_types', ['@TOP@/abs-escape.js'], False, True),
    ('tsd_types', ['t.template', 't.d.ts'], True, False),
    ('tsd_types', ['t.template'], True, False),
    ('tsd_types', ['t.template', 'types/all.d.ts', '--export-namespaces'], True, False),
    ('tsd_client', ['t.template', 'c.d.ts'], True, False),
    ('tsd_client', ['t.template', 'x/../c.d.ts', '--import-namespaces'], True, False),
    ('swift_types', [], False, False),
    ('swift_types', ['--objc'], False, False),
    ('swift_types', ['-d'], False, True),
    ('swift_client', SW_ARGS, False, False),
    ('swift_client', SW_ARGS + ['--objc'], False, False),
    ('swift_client', ['-m', '../Mod'] + SW_ARGS[2:], False, True),
    ('obj_c_types', [], False, False),
    ('obj_c_types', ['-d'], False, True),
    ('obj_c_client', SW_ARGS, False, False),
]

# Option sets that change WHICH files the client backends write (realistic values, as an SDK build passes them):
# client-side route arguments by style (-y: routes of those styles make swift_client add <Class>RequestBox.swift and
# [AppAuth]ReconnectionHelpers.swift), the auth type (-w: obj_c_client writes Routes/<NS><Auth>AuthRoutes.{h,m} only for
# namespaces with a route of that auth type, swift_client renames / drops <NS>[AppAuth]Routes.swift).
SW_CLIENT_ARGS = {
    'upload': [['upload', [['input', '.data(input)', 'Data', 'The file to upload, as an Data object.']]],
               ['upload', [['input', '.file(input)', 'URL', 'The file to upload, as an URL object.']]]],
    'download': [['download_file', [['overwrite', 'overwrite', 'Bool = false', 'Overwrite the destination.'],
                                    ['destination', 'destination', 'URL', 'Where to store the download.']]],
                 ['download_memory', []]],
}
SW_STYLE_TO_REQUEST = {'rpc': 'RpcRequest', 'upload': 'UploadRequest', 'download_file': 'DownloadRequestFile',
                       'download_memory': 'DownloadRequestMemory'}
OC_CLIENT_ARGS = {
    'upload': [['upload', ['Data', [['inputData', 'inputData', 'NSData *', 'The file to upload.']]]],
               ['upload', ['Url', [['inputUrl', 'inputUrl', 'NSString *', 'The file to upload.']]]]],
    'download': [['download_url', ['Url', [['overwrite', 'overwrite', 'BOOL', 'Overwrite.'],
                                           ['outputUrl', 'outputUrl', 'NSURL *', 'Destination.']]]],
                 ['download_data', ['Data', []]]],
}
OC_STYLE_TO_REQUEST = {'rpc': 'DBRpcTask', 'upload': 'DBUploadTask', 'download_url': 'DBDownloadUrlTask',
                       'download_data': 'DBDownloadDataTask'}
SW_FULL = ['-m', 'Mod', '-c', 'Client', '-t', 'Transport', '-y', json.dumps(SW_CLIENT_ARGS), '-z',
           json.dumps(SW_STYLE_TO_REQUEST)]
OC_FULL = ['-m', 'Mod', '-c', 'Client', '-t', 'Transport', '-y', json.dumps(OC_CLIENT_ARGS), '-z',
           json.dumps(OC_STYLE_TO_REQUEST)]

# run on the specs that have upload / download routes and routes of several auth types (RICH_SPECS) and on generated specs
BACKEND_RUNS_RICH = [
    ('swift_client', SW_FULL, False, False),
    ('swift_client', SW_FULL + ['-w', 'app'], False, False),
    ('swift_client', SW_FULL + ['--objc'], False, False),
    ('swift_client', SW_FULL + ['--objc', '-w', 'app'], False, False),
    ('obj_c_client', OC_FULL + ['-w', 'user'], False, False),
    ('obj_c_client', OC_FULL + ['-w', 'team'], False, False),
    ('obj_c_client', OC_FULL + ['-w', 'app'], False, False),
    ('obj_c_client', ['-m', '../../Mod'] + OC_FULL[2:] + ['-w', 'user'], False, True),
    ('obj_c_types', ['-e'], False, False),
    ('swift_types', ['-r', 'route_{ns}_{route}'], False, False),
    # arguments the backend's own parser rejects: both modes stop there, nothing is written
    ('js_client', [], False, False),
    ('python_types', ['--no-such-option', 'x'], False, False),
]
RICH_SPECS = ('basic', 'reserved')


def load_specs():
    cfg = open(os.path.join(SPEC_DIR, 'stone_cfg.stone'), encoding='utf-8').read()
    out = []
    for d in sorted(os.listdir(SPEC_DIR)):
        p = os.path.join(SPEC_DIR, d)
        if os.path.isdir(p):
            files = [(f, open(os.path.join(p, f), encoding='utf-8').read()) for f in sorted(os.listdir(p))
                     if f.endswith('.stone')]
            out.append((d, [('stone_cfg.stone', cfg)] + files))
    return out


def _walk_files(root):
    res = {}
    for r, _ds, fs in os.walk(root):
        for f in fs:
            p = os.path.join(r, f)
            try:
                with open(p, 'rb') as fh:
                    res[p] = fh.read()
            except OSError:
                res[p] = None
    return res


def _walk_dirs(root):
    return {os.path.join(r, d) for r, ds, _f in os.walk(root) for d in ds}


def run_backend_once(sb_top, name, args, specs, template, manifest, via_cli_helpers=True):
    """One Compiler run in a fresh tree <top>/l1/l2/l3/l4/proj/out with cwd = proj.
    Returns dict(status, manifest, created (relative to out), outside (absolute), dirs_created)."""
    from stone.frontend.frontend import specs_to_ir
    from stone.compiler import Compiler, BackendException
    from stone import cli as stone_cli
    proj = os.path.join(sb_top, 'l1', 'l2', 'l3', 'l4', 'proj')
    args = [a.replace('@TOP@', sb_top) for a in args]
    shutil.rmtree(os.path.join(sb_top, 'l1'), ignore_errors=True)
    out = os.path.join(proj, 'out')
    os.makedirs(out)
    os.makedirs(os.path.join(sb_top, 'l1', 'l2', 'l3', 'l4', 'Format'))
    with open(os.path.join(sb_top, 'l1', 'l2', 'l3', 'l4', 'Format', 'jazzy.json'), 'w') as fh:
        json.dump({'custom_categories': [{'name': 'Routes', 'children': []}, {'name': 'Types', 'children': []},
                                         {'name': 'RouteObjects', 'children': []}]}, fh)
    if template:
        with open(os.path.join(out, 't.template'), 'w') as fh:
            fh.write(TEMPLATE)
    before_files = _walk_files(sb_top)
    before_dirs = _walk_dirs(sb_top)
    home = os.getcwd()
    os.chdir(proj)
    status = 'ok'
    detail = ''
    not_manifest = None
    sink = io.StringIO()            # argparse usage texts and the "Note: ..." of Backend.__init__
    try:
        api = specs_to_ir(specs)
        mod = importlib.import_module('stone.backends.' + name)
        with contextlib.redirect_stdout(sink), contextlib.redirect_stderr(sink):
            c = Compiler(api, mod, list(args), 'out', output_manifest=manifest)
            try:
                with time_limit(60.0):
                    c.build()
            except Hang:
                status, detail = 'hang', 'Hang: no result within 60 s'
            except BackendException as e:
                last = e.traceback.strip().splitlines()[-1]
                if 'attempted to write outside its output root' in last:
                    status = 'refused'
                elif last.startswith('SystemExit'):
                    status = 'usage'
                else:
                    status = 'backend-exception'
                detail = last[:200]
        man = c.output_manifest() if manifest else None
        not_manifest = None if manifest else c.output_manifest()
        actual = stone_cli._actual_outputs('out')
    except SystemExit as e:
        status, man, actual, detail = 'usage', None, [], 'SystemExit: %s' % (e,)
    finally:
        os.chdir(home)
    after_files = _walk_files(sb_top)
    after_dirs = _walk_dirs(sb_top)
    changed = sorted(p for p, v in after_files.items() if before_files.get(p, b'\0missing') != v or p not in before_files)
    created_rel = sorted(os.path.relpath(p, out) for p in changed if p == out or p.startswith(out + os.sep))
    outside = sorted(p for p in changed if not p.startswith(out + os.sep))
    new_dirs = sorted(after_dirs - before_dirs)
    return {'status': status, 'detail': detail, 'manifest': man, 'created': created_rel,
            'outside': [p.replace(sb_top, '<scratch>') for p in outside],
            'new_dirs': [d.replace(sb_top, '<scratch>') for d in new_dirs],
            'outside_dirs': [d.replace(sb_top, '<scratch>') for d in new_dirs if not (d == out or d.startswith(out + os.sep))],
            'actual_outputs': sorted(a for a in actual if not (template and a == 't.template')),
            'manifest_of_real_run': not_manifest}


def backend_oracle(ck, case, real, man):
    """The property on one (backend, spec, args): manifest run == real run, manifest run writes nothing,
    nothing lands outside the output folder."""
    sig = {'site': 'manifest', 'backend': case['backend']}
    okay = True
    for mode, r in (('real', real), ('manifest', man)):
        if r['outside'] or r['outside_dirs']:
            ck.failing_input('%s run of %s wrote outside the output folder' % (mode, case['backend']),
                             dict(sig, kind='escape'), dict(case, mode=mode, result=r))
            okay = False
    if man['created'] or man['outside']:
        ck.failing_input('manifest run of %s created files' % case['backend'], dict(sig, kind='manifest-writes'),
                         dict(case, result=man))
        okay = False
    if real['status'] != man['status'] or (real['status'] == 'backend-exception' and real['detail'] != man['detail']):
        # the two runs do not end the same way: the manifest promises files the real run does not deliver (or vice versa)
        ck.failing_input('manifest run and real run of %s end differently (real: %s / manifest: %s)'
                         % (case['backend'], real['detail'] or real['status'], man['detail'] or man['status']),
                         dict(sig, kind='status-differs', real_error=(real['detail'].split(':')[0] or real['status']),
                              manifest_error=(man['detail'].split(':')[0] or man['status'])),
                         dict(case, real=real, manifest=man))
        okay = False
    elif real['status'] == 'ok':
        if man['manifest'] != real['created'] or real['created'] != real['actual_outputs']:
            ck.failing_input('manifest of %s differs from the files the real run creates' % case['backend'],
                             dict(sig, kind='manifest-differs'),
                             dict(case, manifest=man['manifest'], created=real['created'],
                                  actual_outputs=real['actual_outputs']))
            okay = False
    elif real['status'] == 'refused':
        # both refused at the same request: what was recorded before equals what was written before
        if man['manifest'] != real['created']:
            ck.failing_input('manifest of %s differs from the files the real run created before the refusal'
                             % case['backend'], dict(sig, kind='manifest-differs'),
                             dict(case, manifest=man['manifest'], created=real['created']))
            okay = False
    return okay


def gen_backend_specs(ck, n):
    """n generated multi-namespace specs (harness/specgen.py, presets `routes` / `default`): [(name, [(path, text)])].
    Their route attributes are whatever the generator invents, so the Swift / Objective-C client backends, which
    insist on `auth` / `style`, mostly stop with the same exception in both modes (counted, not judged)."""
    from harness import specgen
    out = []
    for i in range(n):
        preset = 'routes' if i % 2 == 0 else 'default'
        try:
            model = specgen.gen_model(ck.rng, preset)
            files = [(os.path.basename(path), text) for path, text in specgen.render(model, None)]
        except Exception as e:                              # noqa: generator trouble is not a finding
            ck.note('spec generator failed (%s): %s' % (preset, str(e)[:120]))
            continue
        out.append(('gen%d-%s' % (i, preset), files))
    return out


def _first_per_backend(rows):
    seen, out = set(), []
    for row in rows:
        if row[0] not in seen and not row[3]:
            seen.add(row[0])
            out.append(row)
    return out


def backend_plan(ck):
    """[(spec name, spec files, generated?, rows)]: the hand-written spec families x the whole option grid (the
    file-set changing client options on the specs that have upload / download routes and several auth types), then
    generated specs x one ordinary option set per backend + the client option sets."""
    plan = []
    for sname, spec in load_specs():
        rows = list(BACKEND_RUNS) + (list(BACKEND_RUNS_RICH) if sname in RICH_SPECS else [])
        plan.append((sname, spec, False, rows))
    gen_rows = _first_per_backend(BACKEND_RUNS) + [r for r in BACKEND_RUNS_RICH if r[0] in ('swift_client', 'obj_c_client')
                                                    and not r[3]][::3]
    for sname, spec in gen_backend_specs(ck, ck.scale(2, 40)):
        plan.append((sname, spec, True, gen_rows))
    return plan


def suite_manifest_backends(ck):
    top = os.path.realpath(_scratch('stone-verif-c18-be-'))
    seen_backends = set()
    dirs_noted = set()
    for sname, spec, generated, runs in backend_plan(ck):
        try:
            from stone.frontend.frontend import specs_to_ir
            specs_to_ir(spec)
        except Exception as e:                              # noqa: a generated spec the frontend does not take
            ck.note('spec %s not accepted by the frontend (%s); skipped' % (sname, type(e).__name__))
            ck.stat('be.manifest_backends.spec_rejected')
            continue
        for name, args, template, expect_refused in runs:
            case = {'suite': 'manifest_backends', 'backend': name, 'args': args, 'spec': sname}
            if generated:
                case['spec_files'] = [list(x) for x in spec]
            try:
                real = run_backend_once(top, name, args, spec, template, False)
                man = run_backend_once(top, name, args, spec, template, True)
            except Exception as e:  # a backend that cannot run on this spec at all
                ck.note('skipped %s %s on %s: %s: %s' % (name, args[:2], sname, type(e).__name__, str(e)[:120]))
                ck.stat('be.manifest_backends.skipped')
                continue
            if real['status'] in ('backend-exception', 'usage') and man['status'] == real['status']:
                if not generated and real['status'] != 'usage':
                    ck.note('backend %s %s on %s ends with %s in both modes: %s' % (name, args[:2], sname, real['status'],
                                                                                       real['detail']))
                ck.stat('be.manifest_backends.%s_both' % ('crashed' if real['status'] != 'usage' else 'usage_error'))
            seen_backends.add(name)
            ck.case(('mbe', name, tuple(args), sname, json.dumps(spec) if generated else ''), bool(real['created']))
            ck.hist('be.manifest_backends.status', real['status'])
            ck.hist('be.manifest_backends.spec_kind', 'generated' if generated else sname)
            ck.hist('be.manifest_backends.files', min(len(real['created']), 25))
            ck.stat('be.manifest_backends.dirs_created_by_manifest_runs', len(man['new_dirs']))
            if man['new_dirs'] and name not in dirs_noted:
                dirs_noted.add(name)
                ck.note('manifest run of %s creates directories (no files): %s' % (name, man['new_dirs']))
            if expect_refused and real['status'] != 'refused':
                ck.note('expected a refusal for %s %s on %s, got %s' % (name, args, sname, real['status']))
            # no model on this side: the oracle alone judges (a failing input is a violation or a known finding)
            okay = backend_oracle(ck, case, real, man)
            ck.agree('be.manifest_backends')
            ck.hist('be.manifest_backends.oracle', 'holds' if okay else 'fails')
            if name == 'python_types' and sname == 'basic' and len(args) == 2:
                ck.sample({'backend': name, 'spec': sname, 'manifest': man['manifest'], 'created': real['created']})
            if name == 'swift_client' and sname == 'reserved' and args[-2:] == ['-w', 'app']:
                ck.sample({'backend': name, 'spec': sname, 'options': '-y <client args> -w app',
                           'manifest': man['manifest'], 'created': real['created']})
    ck.stat('be.manifest_backends.backends', len(seen_backends))
    shutil.rmtree(os.path.join(top, 'l1'), ignore_errors=True)


# ======================================================================================= manifest: through stone.cli.main

TOY_BACKEND = '''import argparse
import json
import os

from stone.backend import CodeBackend

_parser = argparse.ArgumentParser(prog='toy-backend')
_parser.add_argument('ops')
_parser.add_argument('--src', default='')


class ToyBackend(CodeBackend):
    """executes a script of write / copy requests given on the command line (after the `--`)"""
    cmdline_parser = _parser

    def generate(self, api):
        for op in json.loads(self.args.ops):
            if op[0] == 'out':
                with self.output_to_relative_path(op[1], mode='ab' if op[2] else 'wb'):
                    self.emit_raw(op[3] + '\\n')
            else:
                dst = os.path.join(self.target_folder_path, op[3]) if op[3] != '' else self.target_folder_path
                self.copy_to_path(os.path.join(self.args.src, op[1]), dst)
'''



def _spec_namespaces():
    """{spec family: its namespaces (stone_cfg aside), those with routes first}"""
    res = {}
    for sname, files in load_specs():
        nss = []
        for _fn, text in files:
            first = text.lstrip().split('\n', 1)[0].split()
            if len(first) >= 2 and first[0] == 'namespace' and first[1] != 'stone_cfg':
                nss.append((0 if '\nroute ' in text else 1, first[1]))
        res[sname] = [n for _k, n in sorted(nss)]
    return res


CLI_SPEC = 'namespace toy\n\nstruct S\n    f String\n\nroute r (S, Void, Void)\n'


class CliSandbox:
    """<top>/l1/l2/l3/l4/proj/{out, specs/, toy.stoneg.py, src/} ; cwd of every run = proj"""

    def __init__(self):
        self.top = os.path.realpath(_scratch('stone-verif-c18-cli-'))
        self.base = os.path.join(self.top, 'l1', 'l2', 'l3', 'l4')
        self.proj = os.path.join(self.base, 'proj')
        self.out = os.path.join(self.proj, 'out')
        self.src = os.path.join(self.proj, 'src')
        os.makedirs(self.src)
        os.makedirs(os.path.join(self.proj, 'specs'))
        for fn in ('src1.h', 'src2.m'):
            with open(os.path.join(self.src, fn), 'w', encoding='utf-8') as fh:
                fh.write('source of %s\n' % fn)
        self.backend = os.path.join(self.proj, 'toy.stoneg.py')
        with open(self.backend, 'w', encoding='utf-8') as fh:
            fh.write(TOY_BACKEND)
        self.toy_spec = os.path.join(self.proj, 'specs', 'toy.stone')
        with open(self.toy_spec, 'w', encoding='utf-8') as fh:
            fh.write(CLI_SPEC)
        os.makedirs(os.path.join(self.base, 'Format'))
        with open(os.path.join(self.base, 'Format', 'jazzy.json'), 'w') as fh:
            json.dump({'custom_categories': []}, fh)
        self.spec_paths = {}
        for sname, files in load_specs():
            d = os.path.join(self.proj, 'specs', sname)
            os.makedirs(d)
            paths = []
            for fn, text in files:
                with open(os.path.join(d, fn), 'w', encoding='utf-8') as fh:
                    fh.write(text)
                paths.append(os.path.join('specs', sname, fn))
            self.spec_paths[sname] = paths

    def fresh_out(self, kind='dir', extra=()):
        """kind: 'dir' (empty folder), 'resources' (+ out/Resources), 'file' (out is a regular file), 'absent',
        'under-file' (`afile/out` where afile is a regular file). Returns the output argument."""
        for victim in (self.out, os.path.join(self.proj, 'afile')):
            if os.path.isdir(victim) and not os.path.islink(victim):
                shutil.rmtree(victim)
            elif os.path.lexists(victim):
                os.unlink(victim)
        if kind == 'file':
            with open(self.out, 'w') as fh:
                fh.write('i am a file\n')
        elif kind == 'under-file':
            with open(os.path.join(self.proj, 'afile'), 'w') as fh:
                fh.write('i am a file\n')
            return 'afile/out'
        elif kind != 'absent':
            os.makedirs(self.out)
            if kind == 'resources':
                os.makedirs(os.path.join(self.out, 'Resources'))
        for rel, text in extra:
            os.makedirs(os.path.dirname(os.path.join(self.out, rel)), exist_ok=True)
            with open(os.path.join(self.out, rel), 'w', encoding='utf-8') as fh:
                fh.write(text)
        return 'out'

    def snapshot(self):
        return _walk_files(self.top), _walk_dirs(self.top)

    def run(self, argv):
        """stone.cli.main in-process with cwd = proj. Returns dict(code, stdout, stderr, changed (absolute paths of
        files created or modified), removed, new_dirs)."""
        from stone import cli as stone_cli
        before_files, before_dirs = self.snapshot()
        old_argv, home = sys.argv, os.getcwd()
        out, err = io.StringIO(), io.StringIO()
        sys.argv = ['stone'] + list(argv)
        os.chdir(self.proj)
        try:
            with contextlib.redirect_stdout(out), contextlib.redirect_stderr(err), time_limit(60.0):
                stone_cli.main()
            code = 0
        except SystemExit as e:
            code = 0 if e.code is None else (e.code if isinstance(e.code, int) else 1)
        except Hang:
            code = 'hang'
        except Exception as e:                              # noqa: whatever escapes main is an outcome to compare
            code = 'exception:%s' % type(e).__name__
        finally:
            sys.argv = old_argv
            os.chdir(home)
        after_files, after_dirs = self.snapshot()
        changed = sorted(p for p, v in after_files.items() if p not in before_files or before_files[p] != v)
        return {'code': code, 'stdout': out.getvalue(), 'stderr': err.getvalue(), 'changed': changed,
                'removed': sorted(p for p in before_files if p not in after_files),
                'new_dirs': sorted(after_dirs - before_dirs),
                'listing': sorted(os.path.relpath(p, self.out) for p in after_files
                                  if p.startswith(self.out + os.sep))}

    def rel(self, paths):
        return sorted(os.path.relpath(p, self.out) for p in paths)

    def strip(self, x):
        if isinstance(x, str):
            return x.replace(self.top, '<scratch>')
        if isinstance(x, list):
            return [self.strip(v) for v in x]
        if isinstance(x, dict):
            return {k: self.strip(v) for k, v in x.items()}
        return x


def _cli_status(r):
    if r['code'] == 0:
        return 'ok'
    if r['code'] == 1 and 'attempted to write outside its output root' in r['stderr']:
        return 'refused'
    if r['code'] == 1 and 'output manifest mismatch' in r['stderr']:
        return 'mismatch'
    if r['code'] == 1 and 'raised an exception' in r['stderr']:
        return 'backend-exception'
    return 'exit-%s' % (r['code'],)


def _cli_manifest(r):
    """the JSON list a `--output-manifest` run prints, or None"""
    try:
        data = json.loads(r['stdout'])
    except ValueError:
        return None
    if isinstance(data, list) and all(isinstance(x, str) for x in data):
        return data
    return None


def cli_case_run(sb, case):
    """Carry out one recorded CLI case: the manifest run, the real run, the runs with an expected manifest.
    Returns the list of (what, signature-kind, detail) the property fails with."""
    problems = []
    backend = case['backend']
    bargs = [a.replace('<src>', sb.src) for a in case['backend_args']]
    specs = sb.spec_paths[case['spec']] if case['spec'] != 'toy' else [os.path.relpath(sb.toy_spec, sb.proj)]
    head = [sb.backend if backend == 'toy' else backend]
    extra = [(rel, text) for rel, text in case.get('stale', [])]
    tpl = [('t.template', TEMPLATE)] if case.get('template') else []
    flags = list(case.get('flags', []))

    def argv(outarg, more):
        # options before, between and after the positionals: argparse takes them anywhere before the `--`
        a = head + [outarg] + specs + flags + more
        return a + (['--'] + bargs if (bargs or case.get('bare_dashes')) else [])

    def note(kind, what, **detail):
        problems.append((what, kind, sb.strip(detail)))

    # ---- 1. manifest run
    outarg = sb.fresh_out(case['out_kind'], extra + tpl)
    man = sb.run(argv(outarg, ['--output-manifest']))
    man_status = _cli_status(man)
    manifest = _cli_manifest(man) if man_status == 'ok' else None
    if man['changed']:
        note('manifest-writes', '`--output-manifest` run created or changed files', files=man['changed'])
    if man_status == 'ok' and manifest is None:
        note('manifest-not-json', '`--output-manifest` did not print a JSON list of paths', stdout=man['stdout'][:300])
    # ---- 2. real run
    outarg = sb.fresh_out(case['out_kind'], extra + tpl)
    real = sb.run(argv(outarg, []))
    real_status = _cli_status(real)
    outside = [p for p in real['changed'] if not p.startswith(sb.out + os.sep)]
    outside_dirs = [d for d in real['new_dirs'] if not (d == sb.out or d.startswith(sb.out + os.sep))]
    if outside or outside_dirs:
        note('escape', 'a run through the command line wrote outside the output folder', files=outside, dirs=outside_dirs)
    created = sb.rel([p for p in real['changed'] if p.startswith(sb.out + os.sep)])
    info = {'manifest_status': man_status, 'real_status': real_status, 'manifest': manifest, 'created': created}
    # (an I/O error of the real run - a request for the folder itself, a copy into a missing folder - has no
    #  counterpart in a manifest run, which goes on to later requests: judged only when both end in ok / refused)
    if {man_status, real_status} <= {'ok', 'refused'} and man_status != real_status:
        note('status-differs', 'only one of manifest run / real run refuses the request (real: %s, manifest: %s)'
             % (real_status, man_status), real_stderr=real['stderr'][-300:], manifest_stderr=man['stderr'][-300:])
    elif man_status == 'ok' and real_status == 'ok' and manifest is not None:
        if manifest != created:
            note('manifest-differs', '`--output-manifest` lists other paths than the real run creates',
                 manifest=manifest, created=created)
    elif case['out_kind'] in ('file', 'under-file') and man_status != real_status:
        note('status-differs', 'an unusable output path ends the two modes differently (real: %s, manifest: %s)'
             % (real_status, man_status), real_stderr=real['stderr'][-300:], manifest_stderr=man['stderr'][-300:])
    # ---- 3. runs with --expected-output-manifest (only where the first two agree and succeed)
    if man_status == 'ok' and real_status == 'ok' and manifest is not None and manifest == created:
        exp_path = os.path.join(sb.proj, 'expected.json')
        for mode, perturb in case.get('expected_runs', []):
            outarg = sb.fresh_out(case['out_kind'], extra + tpl)
            if mode == 'real':
                # what the folder holds afterwards: with --clean-build only what this run writes
                keep = [] if '--clean-build' in flags else [rel for rel, _t in extra + tpl]
                base = sorted(set(created) | set(keep))
            else:
                base = list(manifest)
            exp = list(base)
            if perturb == 'drop' and exp:
                del exp[len(exp) // 2]
            elif perturb in ('add', 'drop'):
                exp.append('zz/not-generated.txt')
                perturb = 'add'
            elif perturb == 'shuffled':
                exp = exp[::-1]
            elif perturb == 'not-a-list':
                exp = {'outputs': exp}                     # not "a JSON list of strings": never acceptable
            with open(exp_path, 'w', encoding='utf-8') as fh:
                json.dump(exp, fh)
            more = ['--expected-output-manifest', 'expected.json'] + (['--output-manifest'] if mode == 'manifest' else [])
            r = sb.run(argv(outarg, more))
            st = _cli_status(r)
            want_ok = perturb in ('same', 'shuffled')
            if mode == 'manifest' and r['changed'] and not man['changed']:
                note('manifest-writes', '`--output-manifest --expected-output-manifest` run created or changed files',
                     files=[p for p in r['changed'] if p != exp_path])
            if want_ok and st != 'ok':
                note('expected-rejected', 'the expected manifest names exactly the generated paths, yet the %s run ends '
                     'with %s' % (mode, st), expected=exp, stderr=r['stderr'][-300:], mode=mode, perturb=perturb)
            elif not want_ok and st == 'ok':
                note('expected-accepted', 'the expected manifest differs from the generated paths (%s), yet the %s run '
                     'succeeds' % (perturb, mode), expected=exp, generated=base, mode=mode, perturb=perturb)
            elif want_ok and mode == 'manifest' and _cli_manifest(r) != manifest:
                note('manifest-differs', '`--output-manifest` prints something else when an expected manifest is given',
                     printed=r['stdout'][:300], manifest=manifest)
            elif want_ok and mode == 'real' and sb.rel([p for p in r['changed'] if p.startswith(sb.out + os.sep)]) != created:
                note('manifest-differs', 'a real run with an expected manifest creates other files than one without',
                     created=created, now=sb.rel([p for p in r['changed'] if p.startswith(sb.out + os.sep)]))
        if os.path.exists(exp_path):
            os.unlink(exp_path)
    return problems, info


def gen_cli_cases(ck):
    cases = []
    n_toy = ck.scale(36, 400)
    for _ in range(n_toy):
        ops = [op for op in gen_manifest_ops(ck.rng) if op[0] != 'swift']
        ops = [[x.replace('@ABS@', '<base>') if isinstance(x, str) else x for x in op] for op in ops]
        ops = [(['out', op[1], op[2], op[3]] if op[0] == 'out' else ['copy', op[1], '', op[3]]) for op in ops]
        r = ck.rng.random()
        out_kind = 'resources' if r < 0.7 else ('dir' if r < 0.85 else 'absent')
        if ck.rng.random() < 0.6:
            # mostly scripts that succeed (the runs with an expected manifest need a run that ends well)
            def benign(op):
                if op[0] == 'out':
                    return op[1] not in ('', '.', 'Resources') and '..' not in op[1].split('/') and '<base>' not in op[1]
                return op[3] in ('', 'copied.txt') + (('Resources', 'Resources/', 'Resources/renamed.h')
                                                      if out_kind == 'resources' else ())
            ops = [op for op in ops if benign(op)] or [['out', 'f1.txt', False, 'x {0}']]
        flags, stale = [], []
        if ck.rng.random() < 0.3:
            flags.append('--clean-build')
            stale = [['stale.txt', 'left over\n'], ['old/deep/stale.py', '# left over\n']][:ck.rng.randint(1, 2)]
        if ck.rng.random() < 0.2:
            flags.append('-v')
        modes = [('real', 'same'), ('manifest', 'same'), ('manifest', ck.rng.choice(['drop', 'add'])),
                 ('real', ck.rng.choice(['drop', 'add'])), ('real', 'shuffled'), ('manifest', 'shuffled')]
        cases.append({'suite': 'manifest_cli', 'backend': 'toy', 'spec': 'toy', 'out_kind': out_kind, 'flags': flags,
                      'stale': stale, 'backend_args': [json.dumps(ops, ensure_ascii=False), '--src', '<src>'],
                      'expected_runs': ck.rng.sample(modes, 2)})
    # an output path that is a regular file / lies under one: both modes must end the same way, nothing is written
    for kind in ('file', 'under-file'):
        cases.append({'suite': 'manifest_cli', 'backend': 'toy', 'spec': 'toy', 'out_kind': kind, 'flags': [],
                      'stale': [], 'backend_args': [json.dumps([['out', 'f1.txt', False, 'x'], ['out', 'sub/f2.txt', False, 'y']]),
                                                    '--src', '<src>'], 'expected_runs': []})
        cases.append({'suite': 'manifest_cli', 'backend': 'python_types', 'spec': 'basic', 'out_kind': kind, 'flags': [],
                      'stale': [], 'backend_args': ['-p', 'pk'], 'expected_runs': []})
    # every built-in backend once (thorough: every ordinary option set), spec chosen at random
    names = [s for s, _f in load_specs()]
    CLI_SPEC_NAMESPACES = _spec_namespaces()
    rows = [r for r in BACKEND_RUNS + BACKEND_RUNS_RICH if not r[3] and r[1] not in ([], ['--no-such-option', 'x'])]
    if ck.tier != 'thorough':
        picked, rest = {}, []
        for row in rows:
            picked.setdefault(row[0], []).append(row)
        rows = [ck.rng.choice(v) for _k, v in sorted(picked.items())]
    for name, args, template, _refused in rows:
        spec = ck.rng.choice(names)
        flags, stale = [], []
        if ck.rng.random() < 0.3:
            flags.append('--clean-build')
            stale = [['stale.txt', 'left over\n']]
        modes = [('real', 'same'), ('manifest', 'same'), ('manifest', 'drop'), ('real', 'drop'), ('real', 'add'),
                 ('manifest', 'add'), ('manifest', 'not-a-list')]
        if template and '--clean-build' in flags:
            flags, stale = [], []               # the template lives in the output folder: a clean build removes it
        # stone's own selection options change what the backends write; the two modes must follow alike
        r = ck.rng.random()
        if r < 0.25:
            flags += ['-b', CLI_SPEC_NAMESPACES[spec][0]]
        elif r < 0.4:
            flags += ['-w', CLI_SPEC_NAMESPACES[spec][-1]]
        elif r < 0.5:
            flags += ['-a', ':all', '-f', 'auth!="team" and style="rpc"']
        cases.append({'suite': 'manifest_cli', 'backend': name, 'spec': spec, 'out_kind': 'dir', 'flags': flags,
                      'stale': stale, 'template': template, 'backend_args': list(args),
                      'expected_runs': ck.rng.sample(modes, 2)})
    # no backend arguments at all, with and without a bare `--`
    for bare in (False, True):
        cases.append({'suite': 'manifest_cli', 'backend': 'swift_types', 'spec': 'multi', 'out_kind': 'dir', 'flags': [],
                      'stale': [], 'backend_args': [], 'bare_dashes': bare, 'expected_runs': [('real', 'same')]})
    return cases


def suite_manifest_cli(ck):
    """The same property one level up: `stone <backend> out specs... [--output-manifest] [--expected-output-manifest F]
    [--clean-build] -- <backend args>` through stone.cli.main (in-process), for a toy backend that executes random
    write / copy scripts and for the built-in backends. Oracle only."""
    sb = CliSandbox()
    for case in gen_cli_cases(ck):
        case = dict(case)
        case['backend_args'] = [a.replace('<base>', sb.base) if isinstance(a, str) else a for a in case['backend_args']]
        problems, info = cli_case_run(sb, case)
        ck.case(('mcli', json.dumps(sb.strip(case), sort_keys=True)), bool(info['created']))
        ck.hist('be.manifest_cli.backend', case['backend'])
        ck.hist('be.manifest_cli.status', '%s/%s' % (info['real_status'], info['manifest_status']))
        ck.hist('be.manifest_cli.flags', ' '.join(case['flags']) or '-')
        for mode, perturb in case.get('expected_runs', []):
            ck.hist('be.manifest_cli.expected', '%s/%s' % (mode, perturb))
        ck.agree('be.manifest_cli')
        for what, kind, detail in problems:
            ck.failing_input(what, {'site': 'cli-manifest', 'kind': kind,
                                    'backend': 'toy' if case['backend'] == 'toy' else 'built-in'},
                             dict(sb.strip(case), detail=detail, observed=sb.strip(info)))
        if case['backend'] == 'toy' and info['created'] and len([x for x in ck.samples if 'cli_ops' in x]) < 1:
            ck.sample({'cli_ops': case['backend_args'][0], 'flags': case['flags'], 'manifest': info['manifest'],
                       'created': info['created']})


# ======================================================================================= replay

def replay(ck, path):
    """Re-evaluate the oracle of one recorded failing input on the tree under test."""
    rec = json.load(open(path))
    print(json.dumps(rec, indent=1, ensure_ascii=False)[:3000])
    if rec.get('no_failing_input_found'):
        print('(this record names broken proof obligations / correspondence suites, not a failing input; '
              're-run ./check C18 to re-evaluate them)')
        return 0
    before = len(ck.violations)
    known_before = len(ck.known_hits)
    if not replay_case(ck, rec):
        print('(no re-evaluation for this kind of record; the failing input is shown above)')
        return 0
    failed = len(ck.violations) > before or len(ck.known_hits) > known_before
    print('replay: the recorded input %s on %s' % ('STILL FAILS' if failed else 'no longer fails', core.REPO))
    return 1 if failed else 0


def run_corpus(ck):
    """corpus/C18/*.json (replay-file format): minimised past failures and hand seeds, evaluated first."""
    d = os.path.join(core.VERIF, 'corpus', ck.prop)
    if not os.path.isdir(d):
        return
    for fn in sorted(os.listdir(d)):
        if fn.endswith('.json'):
            rec = json.load(open(os.path.join(d, fn)))
            if replay_case(ck, rec):
                ck.case(('corpus', fn), True)
                ck.stat('corpus.cases')


def replay_case(ck, rec):
    """Evaluate the direct oracle on one recorded case; False if the record has no re-evaluable case."""
    case = rec.get('case') or {}
    suite = case.get('suite')
    Spaces, Tabs, Swift = _backend_classes()
    if suite == 'format':
        b = Spaces('/nonexistent', [])
        b.emit_raw(case['text'] + '\n')
        if b.output_buffer_to_string() != case['text'] + '\n':
            ck.failing_input('emit_raw text does not reach the output verbatim', {'site': 'emit_raw', 'kind': 'verbatim'}, case)
    elif suite == 'emit':
        cls = Tabs if case['tabs'] else Spaces
        emit_oracle(ck, cls, case['tabs'], case['script'], run_emit_real(cls, case['script']))
    elif suite == 'wrap':
        b = (Tabs if case['tabs'] else Spaces)('/nonexistent', [])
        b.cur_indent = case['depth']
        try:
            with time_limit(2.0):
                b.emit_wrapped_text(case['text'], prefix=case['prefix'], initial_prefix=case['ini'],
                                    subsequent_prefix=case['sub'], width=case['width'],
                                    break_long_words=bool(case.get('blw')), break_on_hyphens=bool(case.get('boh')))
            got = b.output_buffer_to_string()
            small = {k: case.get(k) for k in ('text', 'tabs', 'depth', 'indent', 'prefix', 'ini', 'sub', 'width',
                                              'blw', 'boh')}
            if wrap_oracle(ck, small, got) and (case.get('blw') or case.get('boh')):
                want = textwrap.fill(case['text'], width=case['width'],
                                     initial_indent=case['indent'] + case['prefix'] + case['ini'],
                                     subsequent_indent=case['indent'] + case['prefix'] + case['sub'],
                                     break_long_words=bool(case.get('blw')),
                                     break_on_hyphens=bool(case.get('boh'))) + '\n'
                if got != want:
                    ck.failing_input('emit_wrapped_text does not pass its wrapping flags on',
                                     {'site': 'emit_wrapped_text', 'kind': 'flag-ignored'}, dict(small, suite='wrap'))
        except Hang:
            ck.failing_input('emit_wrapped_text does not terminate', {'site': 'emit_wrapped_text', 'kind': 'hang'}, case)
    elif suite == 'path' and case.get('writer') in ('output_to_relative_path', 'swift_writer', 'copy_to_path'):
        sb = Sandbox()
        home = os.getcwd()
        try:
            os.chdir(sb.w if case['cwd'] == 'w' else sb.sub)
            root = case['root'].replace('<scratch>', sb.top)
            p = case['path'].replace('<scratch>', sb.top)
            b = (Swift if case['writer'] == 'swift_writer' else Spaces)(root, [])
            outcome = 'written'
            try:
                if case['writer'] == 'output_to_relative_path':
                    with b.output_to_relative_path(p):
                        b.emit('x')
                elif case['writer'] == 'swift_writer':
                    b._write_output_in_target_folder('x\n', p)
                else:
                    b.copy_to_path(sb.src, os.path.join(root, p))
            except AssertionError:
                outcome = 'refused'
            except OSError:
                outcome = 'ioerror'
            nf, nd = sb.diff()
            if case.get('combo') == 'fresh-root':
                fresh = os.path.join(sb.w, 'fresh')
                bad = [x for x in nf + nd if not (x == fresh or x.startswith(fresh + os.sep))]
                nd = [d for d in nd if d != fresh]
            else:
                bad = [x for x in nf + nd if not sb.inside_out(x)]
            if bad or (outcome == 'refused' and (nf or nd)):
                ck.failing_input('replayed: %s' % rec.get('what'), rec.get('signature', {}), case)
        finally:
            os.chdir(home)
    elif suite == 'manifest_cli':
        sb = CliSandbox()
        c = {k: v for k, v in case.items() if k not in ('detail', 'observed')}
        c['backend_args'] = [a.replace('<scratch>', sb.top).replace('<base>', sb.base) for a in c['backend_args']]
        problems, _info = cli_case_run(sb, c)
        for what, kind, detail in problems:
            ck.failing_input(what, {'site': 'cli-manifest', 'kind': kind,
                                    'backend': 'toy' if c['backend'] == 'toy' else 'built-in'}, dict(case, detail=detail))
    elif suite == 'filter_none':
        b = Spaces('/nonexistent', [])
        for v in (0, '', False, [], {}, 0.0, (), 'x', None):
            d = {'k': v, 'n': None}
            got = b.filter_out_none_valued_keys(d)
            if got is d or list(got.items()) != ([('k', v)] if v is not None else []) or len(d) != 2:
                ck.failing_input('filter_out_none_valued_keys does not return a new dict with exactly the non-None entries',
                                 {'site': 'filter_out_none_valued_keys', 'kind': 'entries'}, case)
                break
    elif suite == 'manifest_backends':
        top = os.path.realpath(_scratch('stone-verif-c18-replay-'))
        spec = ([tuple(x) for x in case['spec_files']] if case.get('spec_files') else dict(load_specs())[case['spec']])
        template = any(a == 't.template' for a in case['args'])
        real = run_backend_once(top, case['backend'], case['args'], spec, template, False)
        man = run_backend_once(top, case['backend'], case['args'], spec, template, True)
        backend_oracle(ck, {k: case[k] for k in ('suite', 'backend', 'args', 'spec', 'spec_files') if k in case}, real, man)
    else:
        return False
    return True
