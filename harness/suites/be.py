"""be.* correspondence suites and direct oracles (C18)."""
import json

RULE = ('random emit scripts / raw texts over an alphabet biased to braces and format-like sequences; '
        'a case is non-trivial when the text contains a brace or a placeholder')

ALPHABET = ['{', '}', '{{', '}}', '{}', '{0}', '{x}', '{x', 'x}', 'a', 'b', ' ', '\n', 'é', '日本', '%s', '{!r}', '{:>4}', '\\', '"']


def rand_text(rng, maxlen=8):
    return ''.join(rng.choice(ALPHABET) for _ in range(rng.randint(0, maxlen)))


def suite_format(ck):
    """emit_raw + output_buffer_to_string on the real Backend vs Fmt.escape / Fmt.pyFormat."""
    from stone.backend import CodeBackend

    class B(CodeBackend):
        def generate(self, api):
            pass

    n = ck.scale(2000, 40000)
    cases = []
    for i in range(n):
        text = rand_text(ck.rng)
        cases.append(text)
    reqs = [{'op': 'be.escape', 'text': t} for t in cases]
    reqs += [{'op': 'be.format', 'buf': None, 'pos': [], 'named': []} for _ in cases]
    # real side
    real_esc = []
    real_out = []
    for t in cases:
        b = B('/nonexistent', [])
        b.output = []
        b._append_output(t.replace('{', '{{').replace('}', '}}'))  # placeholder, replaced below
        b.output = []
        try:
            b.emit_raw(t + '\n')
        except AssertionError:
            pass
        real_esc.append(''.join(b.output))
        try:
            real_out.append(b.output_buffer_to_string())
        except (KeyError, IndexError, ValueError) as e:
            real_out.append(None)
    for i, t in enumerate(cases):
        reqs[i]['text'] = t + '\n'
        reqs[len(cases) + i]['buf'] = real_esc[i]
    rep = ck.driver(reqs)
    for i, t in enumerate(cases):
        nontrivial = ('{' in t or '}' in t)
        ck.case(('fmt', t), nontrivial)
        ck.hist('be.format.text_len', len(t))
        m_esc = rep[i].get('out')
        m_out = rep[len(cases) + i].get('out')
        if m_esc != real_esc[i]:
            ck.disagree('be.escape', t, real_esc[i], m_esc)
        else:
            ck.agree('be.escape')
        if m_out != real_out[i]:
            ck.disagree('be.format', t, real_out[i], m_out)
        else:
            ck.agree('be.format')
        # direct oracle (the property itself on the real code): raw text reaches the file verbatim
        if real_out[i] != t + '\n':
            ck.failing_input('emit_raw text does not reach the output verbatim',
                             {'site': 'emit_raw', 'kind': 'verbatim'}, {'text': t, 'got': real_out[i]})
        if i < 3:
            ck.sample({'emit_raw': t + '\n', 'buffer': real_esc[i], 'formatted': real_out[i]})


def replay(ck, path):
    case = json.load(open(path))
    print(json.dumps(case, indent=1)[:2000])
    return 0
