"""Suite `fe.lex` (C11, part A): the line-level lexer model `StoneVerif.Lex` against stone/frontend/lexer.py.

* `abstract(text)`   a small independent scanner: text -> the model's physical line records (leading whitespace,
                     blank / space-only / comment-only / significant, opaque tokens with `(` `)` singled out,
                     trailer, "ends inside a string literal").  It never calls the real lexer.
* `real_lex(text)`   the REAL lexer's token stream reduced to kinds (N I D ( ) o) + the layout errors it recorded.
* `suite_fe_lex`     correspondence: generated specs under the reference layout and under noisy layouts, the same
                     texts with damaged indentation (odd widths, two-level jumps, dedents to unopened levels, tabs,
                     unmatched parentheses, garbage lines), and synthetic "line soup".
* `suite_lex_layout` direct oracle on the real lexer for the statements proved about the model: blank /
                     space-only / comment-only line insertion at every boundary outside string literals, trailing
                     whitespace / comments, continuation-line breaks: the full (type, value) token stream is the
                     same up to runs of NEWLINE (the grammar's `NL`).
* `doc_spans`        which string literals are documentation strings (by position); `doc_trail_variants`: white space
                     appended to the lines INSIDE them (used by suite `layout`: only the Api may be compared there).
* `suite_doctrim`    the parser's rule `docstring : STRING` against `StoneVerif.DocTrim.docClean` (op fe.doctrim), and
                     doc_trailing_ws evaluated on the real rule.
"""
import re

from harness import core

STRING_RE = re.compile(r'\"([^\\"]|(\\.))*\"')          # t_ANY_STRING (ply compiles it the same way)
WORD_CHARS = set('abcdefghijklmnopqrstuvwxyzABCDEFGHIJKLMNOPQRSTUVWXYZ0123456789_-./=,?[]{}:@')
LAYOUT_ERRORS = {
    'Indent is not divisible by 4.': 'notDiv',
    'Line continuation must increment indent by 1.': 'contIndent',
    'Unmatched closing parenthesis.': 'unmatchedRpar',
}


# ------------------------------------------------------------------------------------------------ the scanner

def abstract(text):
    """-> (lines, info): lines = the driver's physical line records, info = {'garbage': n, 'strings': n}"""
    data = text + '\n'                              # Lexer.input
    raw = data.split('\n')[:-1]
    recs = []
    tok_id = 0
    pos = 0
    n = len(data)
    in_str_end = None                                # absolute end position of the string literal we are inside
    info = {'garbage': 0, 'strings': 0, 'multiline_strings': 0}
    for line in raw:
        start, end = pos, pos + len(line)            # data[end] == '\n'
        starts_inside = in_str_end is not None
        toks = []
        comment = False
        i = start
        if starts_inside:
            if in_str_end > end:                     # the literal does not close on this line
                recs.append({'i': len(line) - len(line.lstrip()), 'k': 'g', 'toks': [], 'trail': 'none', 'open': True})
                pos = end + 1
                continue
            i = in_str_end
            in_str_end = None
        last_tok_end = i
        while i < end:
            ch = data[i]
            if ch in ' \t':
                i += 1
            elif ch == '#':
                comment = True
                break
            elif ch == '"':
                m = STRING_RE.match(data, i)
                if m:
                    toks.append(tok_id)
                    tok_id += 1
                    info['strings'] += 1
                    if m.end() > end:
                        info['multiline_strings'] += 1
                        in_str_end = m.end()
                        break
                    i = m.end()
                    last_tok_end = i
                else:
                    info['garbage'] += 1
                    i += 1
                    last_tok_end = i
            elif ch == '(' or ch == ')':
                toks.append(ch)
                i += 1
                last_tok_end = i
            elif ch in WORD_CHARS:
                j = i
                while j < end and data[j] in WORD_CHARS:
                    j += 1
                toks.append(tok_id)
                tok_id += 1
                i = j
                last_tok_end = i
            else:
                info['garbage'] += 1
                i += 1
                last_tok_end = i
        indent = len(line) - len(line.lstrip())
        if starts_inside or in_str_end is not None:
            kind = 'g'
        elif line == '':
            kind = 'e'
        elif line.lstrip() == '':
            kind = 's'
        elif line.lstrip()[0] == '#':
            kind = 'c'
        else:
            kind = 'g'
        rec = {'i': indent, 'k': kind, 'open': in_str_end is not None}
        if kind == 'c':
            rec['pure'] = all(c == ' ' for c in line[:line.index('#')])
        if kind == 'g':
            rec['toks'] = toks
            if in_str_end is not None:
                rec['trail'] = 'none'
            elif comment:
                rec['trail'] = 'comment'
            elif last_tok_end < end:
                rec['trail'] = 'spaces'
            else:
                rec['trail'] = 'none'
        recs.append(rec)
        pos = end + 1
    return recs, info


def closed_boundaries(recs):
    """indices b (0..len) such that a line may be inserted before physical line b without landing inside a
    string literal"""
    return [b for b in range(len(recs) + 1) if b == 0 or not recs[b - 1]['open']]


# ------------------------------------------------------------------------------------------------ the real lexer

def real_tokens(text):
    """full token stream [(type, value repr)] and raw error list; ('EXC', name) appended if the lexer raised"""
    from stone.frontend.lexer import Lexer
    lx = Lexer()
    lx.input(text)
    out = []
    try:
        while True:
            t = lx.token()
            if t is None:
                break
            out.append((t.type, repr(t.value) if t.type not in ('NEWLINE', 'INDENT', 'DEDENT', 'NULL') else ''))
    except Exception as e:                           # noqa: reported as part of the stream
        out.append(('EXC', type(e).__name__))
    return out, list(lx.errors)


KIND = {'NEWLINE': 'N', 'INDENT': 'I', 'DEDENT': 'D', 'LPAR': '(', 'RPAR': ')'}


def collapse(kinds):
    out = []
    for k in kinds:
        if k == 'o' and out and out[-1] == 'o':
            continue
        out.append(k)
    return out


def real_lex(text):
    toks, errs = real_tokens(text)
    kinds = collapse([KIND.get(ty, 'o') if ty != 'EXC' else 'EXC:' + v for ty, v in toks])
    e = []
    for msg, _lineno in errs:
        if msg.startswith('Illegal character'):
            continue
        e.append(LAYOUT_ERRORS.get(msg, 'unmodelled:' + msg))
    return kinds, e


def model_kinds(reply):
    return collapse(['o' if isinstance(t, int) else t for t in reply['toks']])


def norm_stream(toks):
    """the parser's view: runs of NEWLINE collapse (NL : NL NEWLINE), a leading run is `spec : NL`"""
    out = []
    prev_nl = True
    for t in toks:
        if t[0] == 'NEWLINE':
            if not prev_nl:
                out.append(t)
            prev_nl = True
        else:
            out.append(t)
            prev_nl = False
    return out


# ------------------------------------------------------------------------------------------------ inputs

HAND = [
    'a\n    b\nc\n', 'a\n   \n    b\nc\n', 'a\n\n\n    b\n\nc\n', 'a\n# c\n    b\n  # d\nc\n', 'a\n\t# c\n    b\n',
    'a # x\n    b   \nc\n', '# c\n    a\n', '    a\nb\n', '    a\n    b\n', '\n    a\n', 'a\n   b\n', 'a\n        b\n',
    'a\n        b\n    c\n', 'a\n    b\n        c', 'a\n    b # c', 'a\n    b\n    # c', 'a\n\tb\n', 'a\n\t\t\t\tb\n',
    'a(b,\n    c)\nd\n', 'a(b,\nc)\nd\n', 'a(b,\n        c)\nd\n', 'a(b, # x\n    # y\n  # z\n\n   \n    c)\nd\n',
    'a\n    b(c,\n        d)\n    e\n', 'a\n    b(c,\n    d)\n    e\n', 'a(\n    b\n)\nc\n', 'a(\n    b\n    )\nc\n',
    'a(b(\n    c),\n    d)\ne\n', 'a(b,\n    c)\n    d\n', 'a)\n    b\n', 'a\n    b(c\n', 'a\n    "x\n    y\n  # z\n\n"   \nb\n',
    'a "x\ny" # c\n    b\n', 'a(b,\n   c)\n', 'a(b,\n    c(d,\n        e))\nf\n', 'a(b,\n    c(d,\n    e))\nf\n',
    '# c1\n# c2\n    a\n', '  # c1\n    a\n', '\t# c1\n    a\n', '  \n    a\n', '\n\n    a\n', '# c\n\n\n    a\n',
    'a\n    $\n    b\n', 'a(\n    $\n    b)\n', 'a "x\n    b\n', 'a "x\\\ny"\n', 'a(b\n', 'a\n    b(c # x\n', 'a\n    b(c # x',
    '', '# x', '   ', 'a\n    b(\n        c\n    )\n', 'a(\n\n  \n# c\nb)\n', 'a\n    b\n        c(\n    d)\ne\n',
    'a\n    b "x\n# not a comment\n   " c\n        d\n', 'a\n    b ")" c\n    d "(" \n        e\n', 'a\n    b\n\n  \n',
    'a\n    b\n    \n# x\n', 'a ""\n    b "\\"" # "\n', 'a "x # y" # z\n', 'a\n    b\n  c\n', ')\n(\n)\n    a\n',
]


def gen_soup(rng):
    """synthetic line soup over a small alphabet of line shapes"""
    shapes = ['a', 'a b', 'a(b,', 'c)', 'a(b)', '(', ')', '# c', '#', '', ' ', '  ', '\t', 'x "s', 'y" z', '"p', 'q"',
              'a # t', 'a(b, # t', '$', 'a "(" b', 'a ")"', '"#" a', 'a\t# t', '))', '((', 'a(b(c,', 'd), e)']
    indents = ['', '', '', ' ', '  ', '   ', '    ', '    ', '    ', '     ', '        ', '        ', '            ',
               '\t', ' \t', '\t\t\t\t', '                ']
    n = rng.randrange(1, 12)
    lines = []
    for _ in range(n):
        s = rng.choice(shapes)
        ind = rng.choice(indents) if s not in ('', ' ', '  ', '\t') else ''
        tail = rng.choice(['', '', '', ' ', '   ', '\t'])
        lines.append(ind + s + tail)
    return '\n'.join(lines) + rng.choice(['', '\n', '\n\n'])


def damage(rng, text):
    """break the indentation / bracketing of a legal text in 1-3 places"""
    lines = text.split('\n')
    what = []
    for _ in range(rng.randrange(1, 4)):
        if not lines:
            break
        i = rng.randrange(len(lines))
        l = lines[i]
        body = l.lstrip(' ')
        ind = len(l) - len(body)
        op = rng.choice(['odd', 'odd', 'jump2', 'jump2', 'dedent0', 'minus4', 'plus4', 'tabs', 'tab1', 'rpar', 'lpar',
                         'garbage', 'spaces_line', 'tab_comment', 'drop_rpar', 'first_indent'])
        what.append(op)
        if op == 'odd':
            lines[i] = ' ' * max(0, ind + rng.choice([-3, -2, -1, 1, 2, 3])) + body
        elif op == 'jump2':
            lines[i] = ' ' * (ind + 8) + body
        elif op == 'dedent0':
            lines[i] = body
        elif op == 'minus4':
            lines[i] = ' ' * max(0, ind - 4) + body
        elif op == 'plus4':
            lines[i] = ' ' * (ind + 4) + body
        elif op == 'tabs':
            lines[i] = '\t' * (ind // 4) + body
        elif op == 'tab1':
            lines[i] = '\t' + l
        elif op == 'rpar':
            lines[i] = l + ')'
        elif op == 'lpar':
            lines[i] = l + ' ('
        elif op == 'garbage':
            lines.insert(i, ' ' * rng.choice([0, 2, 4, 8]) + '$ ;')
        elif op == 'spaces_line':
            lines.insert(i, rng.choice([' ', '    ', '\t', '  \t ']))
        elif op == 'tab_comment':
            lines.insert(i, rng.choice(['\t# c', '  \t # c', ' # c']))
        elif op == 'drop_rpar' and ')' in l:
            k = l.rindex(')')
            lines[i] = l[:k] + l[k + 1:]
        elif op == 'first_indent':
            lines[0] = rng.choice(['  ', '    ', '\t']) + lines[0]
    return '\n'.join(lines), what


def spec_texts(ck, n_models):
    """[(label, text)] from the spec generator: reference rendering and one noisy layout per model; falls back to
    the hand-written specs under harness/specs if the generator is unavailable"""
    import os
    out = []
    try:
        from harness import specgen as sg
        for k in range(n_models):
            m = sg.gen_model(ck.rng, 'fe' if k % 3 else 'default')
            for _p, t in sg.render(m, None):
                out.append(('ref', t))
            for _p, t in sg.render(m, sg.gen_layout(ck.rng, m)):
                out.append(('layout', t))
    except Exception as e:                            # noqa: generator still being finished by a colleague
        ck.note('fe.lex: spec generator unavailable (%s: %s); using harness/specs' % (type(e).__name__, e))
    if not out:
        root = os.path.join(core.VERIF, 'harness', 'specs')
        for r, _d, fs in os.walk(root):
            for f in sorted(fs):
                if f.endswith('.stone'):
                    out.append(('hand', open(os.path.join(r, f), encoding='utf-8').read()))
    return out


# ------------------------------------------------------------------------------------------------ correspondence

def compare(ck, batch):
    """batch: [(label, text)]; one driver call"""
    reqs, keep = [], []
    for label, text in batch:
        recs, info = abstract(text)
        reqs.append({'op': 'fe.lex', 'lines': recs})
        keep.append((label, text, recs, info))
    replies = ck.driver(reqs)
    for (label, text, recs, info), rep in zip(keep, replies):
        kinds, errs = real_lex(text)
        ck.case(('fe.lex', text), nontrivial=len(recs) > 1)
        ck.stat('fe.lex.%s' % label)
        ck.hist('fe.lex.errors', ','.join(sorted(set(errs))) or 'none')
        if 'protocol_error' in rep:
            ck.disagree('fe.lex', {'text': text, 'label': label}, [kinds, errs], rep)
            continue
        mk, me = model_kinds(rep), rep['errs']
        if any(e.startswith('unmodelled:') for e in errs):
            ck.stat('fe.lex.unmodelled_error')
            ck.disagree('fe.lex', {'text': text, 'label': label}, [kinds, errs], [mk, me])
        elif mk == kinds and me == errs:
            ck.agree('fe.lex')
            if info['multiline_strings']:
                ck.stat('fe.lex.with_multiline_string')
            if _has_continuation(recs):
                ck.stat('fe.lex.with_continuation_line')
        else:
            ck.disagree('fe.lex', {'text': text, 'label': label}, [kinds, errs], [mk, me])


def _has_continuation(recs):
    d = 0
    for r in recs:
        if d > 0 and r['k'] == 'g' and r.get('toks'):
            return True
        for t in r.get('toks', []):
            if t == '(':
                d += 1
            elif t == ')':
                d = max(0, d - 1)
    return False


def suite_fe_lex(ck):
    batch = [('hand', t) for t in HAND]
    texts = spec_texts(ck, ck.scale(12, 120))
    batch += texts
    legal = [t for _l, t in texts]
    for _ in range(ck.scale(600, 8000)):
        if legal:
            t, what = damage(ck.rng, ck.rng.choice(legal))
            for w in what:
                ck.hist('fe.lex.damage', w)
            batch.append(('damaged', t))
    for _ in range(ck.scale(1500, 20000)):
        batch.append(('soup', gen_soup(ck.rng)))
    for k in range(0, len(batch), 2000):
        compare(ck, batch[k:k + 2000])
    ck.sample({'suite': 'fe.lex', 'text': HAND[21], 'real': real_lex(HAND[21])})


# ------------------------------------------------------------------------------------------------ direct oracle

def insert_variants(rng, text, cap):
    """texts obtained from `text` by inserting one blank / space-only / comment-only line at a boundary outside
    string literals: every boundary when there are at most `cap`, a random subset otherwise; plus variants with
    trailing whitespace / comment on a significant line"""
    recs, _info = abstract(text)
    raw = (text + '\n').split('\n')[:-1]
    bs = closed_boundaries(recs)
    if len(bs) > cap:
        bs = sorted(rng.sample(bs, cap))
    fillers = ['', '   ', '        ', '# note', '      # struct x', '    #', '\t', '\t# tab comment', '  \t  ']
    out = []
    for b in bs:
        f = rng.choice(fillers)
        out.append(('insert', b, f, '\n'.join(raw[:b] + [f] + raw[b:]) + '\n'))
    sig = [i for i, r in enumerate(recs) if r['k'] == 'g' and not r['open']]
    for i in (sig if len(sig) <= cap else rng.sample(sig, cap)):
        tail = rng.choice([' ', '    ', ' # trailing', '  #', '\t'])
        out.append(('trail', i, tail, '\n'.join(raw[:i] + [raw[i] + tail] + raw[i + 1:]) + '\n'))
    return out


OPENERS, CLOSERS = '([{', ')]}'
DOC_TAILS = [' ', '  ', '   ', '    ', '      ', '\t', ' \t', '\t ', '        ']


def doc_spans(text):
    """[(first, last)]: the physical lines (0-based, inclusive) of every string literal that is a DOCUMENTATION string,
    recognised by position alone: it is the first token of its line, no parenthesis / bracket / brace is open, and only
    blanks or a comment follow its closing quote (`docsection : docstring NL` is the only production in which a
    statement begins with a STRING; everywhere else a literal follows `=`, `(`, `,`, `[`, `{` or `:`).  Independent of
    `abstract` and of the real lexer."""
    data = text + '\n'
    spans = []
    depth = 0
    line = 0
    first = True                                     # no token seen yet on this physical line
    i, n = 0, len(data)
    while i < n:
        ch = data[i]
        if ch == '\n':
            line += 1
            first = True
            i += 1
        elif ch in ' \t':
            i += 1
        elif ch == '#':
            while data[i] != '\n':
                i += 1
        elif ch == '"':
            m = STRING_RE.match(data, i)
            if not m:
                first = False
                i += 1
                continue
            last = line + m.group().count('\n')
            j = m.end()
            while data[j] in ' \t':
                j += 1
            if first and depth == 0 and data[j] in '#\n':
                spans.append((line, last))
            line = last
            first = False
            i = m.end()
        else:
            if ch in OPENERS:
                depth += 1
            elif ch in CLOSERS:
                depth = max(0, depth - 1)
            first = False
            i += 1
    return spans


def doc_interior_lines(text):
    """physical lines that END inside a documentation string (every line of a multi-line doc string but its last):
    whitespace appended to such a line is trailing whitespace of a doc line, which the parser removes
    (`p_docstring_string`: "Remove trailing whitespace on every line")"""
    return [ln for a, b in doc_spans(text) for ln in range(a, b)]


def doc_trail_variants(rng, text, cap):
    """[('doc-trail', line, tail, text')]: blanks / tabs appended to ONE line that ends inside a documentation string
    (an empty line between two paragraphs of a doc included), every such line when there are at most `cap`; then
    ('doc-trail-all', None, tail, text') with whitespace on every such line at once.  Only the Api may be compared
    across these (the STRING token itself differs: the parser, not the lexer, trims doc lines)."""
    raw = (text + '\n').split('\n')[:-1]
    lines = doc_interior_lines(text)
    if not lines:
        return []
    out = []
    for ln in (lines if len(lines) <= cap else sorted(rng.sample(lines, cap))):
        tail = rng.choice(DOC_TAILS)
        out.append(('doc-trail', ln, tail, '\n'.join(raw[:ln] + [raw[ln] + tail] + raw[ln + 1:]) + '\n'))
    for tail in ('  ', None):
        new = list(raw)
        for ln in lines:
            new[ln] += tail if tail is not None else rng.choice(DOC_TAILS)
        out.append(('doc-trail-all', None, tail, '\n'.join(new) + '\n'))
    return out


def first_sig_indent_zero(text):
    recs, _ = abstract(text)
    for r in recs:
        if r['k'] == 'g':
            return r['i'] == 0
    return True


def suite_lex_layout(ck):
    """dent_insensitive / trailing_ws / paren_break evaluated on the REAL lexer"""
    try:
        from harness import specgen as sg
    except Exception as e:                            # noqa
        ck.note('fe.lex.layout skipped: %s' % e)
        return
    n_models = ck.scale(6, 60)
    cap = ck.scale(40, 400)
    for k in range(n_models):
        m = sg.gen_model(ck.rng, 'fe' if k % 2 else 'small')
        ref_files = sg.render(m, None)
        # (1) insertion at every boundary, trailing text
        for path, text in ref_files:
            base, berr = real_tokens(text)
            nb = norm_stream(base)
            for kind, where, filler, vt in insert_variants(ck.rng, text, cap):
                got, gerr = real_tokens(vt)
                ck.case(('lexlayout', vt))
                ck.stat('fe.lex.layout.%s' % kind)
                if norm_stream(got) != nb or [e[0] for e in gerr] != [e[0] for e in berr]:
                    ck.failing_input('C11: the token stream of the real lexer changes when a %s is added' % (
                        'blank / comment line' if kind == 'insert' else 'trailing blank / comment'),
                        {'kind': 'lex-layout', 'variant': kind},
                        {'suite': 'fe.lex.layout', 'reference': [[path, text]], 'variant': [[path, vt]],
                         'where': where, 'filler': filler})
                else:
                    ck.agree('fe.lex.layout')
        # (2) noise layouts of the generator with the same files and definitions (no syntax variants):
        #     blank / comment lines, trailing text and continuation-line breaks all at once
        lay = sg.reference_layout(m)
        for rep in range(3):
            lay.noise = dict(seed=ck.rng.getrandbits(32), blank=0.15, comment=0.12, trail_ws=0.15, trail_comment=0.1,
                             brk=0.5, syntax=0.0)
            for (path, text), (_p2, vt) in zip(ref_files, sg.render(m, lay)):
                base, berr = real_tokens(text)
                got, gerr = real_tokens(vt)
                ck.case(('lexnoise', vt))
                ck.stat('fe.lex.layout.noise')
                if norm_stream(got) != norm_stream(base) or gerr or berr:
                    ck.failing_input('C11: the token stream of the real lexer changes under comment / blank-line / '
                                     'continuation-line noise', {'kind': 'lex-layout', 'variant': 'noise'},
                                     {'suite': 'fe.lex.layout', 'reference': [[path, text]], 'variant': [[path, vt]]})
                else:
                    ck.agree('fe.lex.layout')


# ------------------------------------------------------------------------------------------------ doc-string rule

_PF = []
SPACES = [' ', ' ', ' ', '\t', '\t', '\r', '\x0b', '\x0c', '\x1c', '\x1d', '\x1e', '\x1f', '\x85', '\xa0', '\u1680', '\u2000',
          '\u2003', '\u200a', '\u2028', '\u2029', '\u202f', '\u205f', '\u3000']
NOT_SPACES = ['\u200b', '\x00', '\x1b', '\x08', '\ufeff', '\u2060', '\u180e', '\x7f', '\x0e', '\x21']
DOC_WORDS = ['A', 'note.', 'the', 'value', ':type:`Note`', 'is', 'caf\u00e9', '\u2264', 'x', '"quoted"', '\\', '#', '(paren)', '-']


def real_docstring_rule(text):
    """the REAL rule `docstring : STRING` (ParserFactory.p_docstring_string) applied to a token value"""
    from stone.frontend.parser import ParserFactory
    if not _PF:
        _PF.append(ParserFactory())
    p = [None, text]
    _PF[0].p_docstring_string(p)
    return p[0]


def gen_doc_lines(rng):
    """lines of a doc text as (content, tail): tail = white space that is not a line break"""
    out = []
    for _ in range(rng.choice((1, 2, 2, 3, 3, 4, 6))):
        r = rng.random()
        if r < 0.25:
            body = ''                                                    # paragraph break
        else:
            words = [rng.choice(DOC_WORDS) for _ in range(rng.randrange(1, 5))]
            body = rng.choice(('', '', '    ', '  ', '\t')) + rng.choice((' ', ' ', '  ', '\t')).join(words)
            if rng.random() < 0.2:
                body += rng.choice(NOT_SPACES)
            if rng.random() < 0.15:
                body += rng.choice(SPACES) + rng.choice(NOT_SPACES)
        tail = ''.join(rng.choice(SPACES) for _ in range(rng.choice((0, 1, 1, 2, 3, 5)))) if rng.random() < 0.6 else ''
        out.append((body, tail))
    return out


def judge_doctrim(ck, clean, dirty):
    """the property on the real rule: `dirty` is `clean` with white space appended to some of its lines"""
    try:
        a, b = real_docstring_rule(clean), real_docstring_rule(dirty)
    except Exception as e:                            # noqa
        a, b = 'no exception', 'exception %s' % type(e).__name__
    if a == b:
        ck.agree('fe.doctrim.oracle')
        return True
    ck.failing_input('C11: white space at the end of a line of a documentation string changes the text the parser keeps '
                     '(docstring : STRING): %r vs %r' % (a, b), {'kind': 'doc-trim', 'variant': 'trailing-ws'},
                     {'suite': 'fe.doctrim', 'reference': clean, 'variant': dirty, 'real_reference': a, 'real_variant': b})
    return False


def suite_doctrim(ck):
    """(1) correspondence of `DocTrim.docClean` (op fe.doctrim) with the real `p_docstring_string`, a sweep over every
    code point below U+3100 (what `rstrip` removes) included; (2) doc_trailing_ws evaluated on the real rule"""
    texts = ['', ' ', '\n', 'a', 'a \n b \n', 'a  \n  \nb ', '\n\n', ' \n \n ', 'a\r\nb\r\n', 'a \x0c\nb\x85', 'a\u200b \nb',
             '\n'.join('a' + chr(c) for c in range(0x3100) if c != 10),
             '\n'.join(chr(c) + 'a' + chr(c) * 2 for c in range(0x3100) if c != 10)]
    pairs = []
    for _ in range(ck.scale(600, 6000)):
        lw = gen_doc_lines(ck.rng)
        clean = '\n'.join(l for l, _w in lw)
        dirty = '\n'.join(l + w for l, w in lw)
        pairs.append((clean, dirty))
        texts.append(dirty)
        if ck.rng.random() < 0.3:
            texts.append(clean)
    replies = ck.driver([{'op': 'fe.doctrim', 'cps': [ord(c) for c in t]} for t in texts])
    for t, rep in zip(texts, replies):
        ck.case(('fe.doctrim', t), nontrivial='\n' in t)
        try:
            real = real_docstring_rule(t)
        except Exception as e:                        # noqa
            real = 'exception %s' % type(e).__name__
        model = ''.join(chr(c) for c in rep['cps']) if 'cps' in rep else rep
        if real == model:
            ck.agree('fe.doctrim')
        else:
            ck.disagree('fe.doctrim', {'text': t}, real, model)
    for clean, dirty in pairs:
        ck.hist('fe.doctrim.lines', min(clean.count('\n') + 1, 6))
        if clean != dirty:
            ck.stat('fe.doctrim.with_trailing_ws')
            if any(l != '' and l2 != l for l, l2 in zip(clean.split('\n')[:-1], dirty.split('\n')[:-1])):
                ck.stat('fe.doctrim.with_trailing_ws_on_interior_line')
        judge_doctrim(ck, clean, dirty)


def replay_doctrim(ck, case):
    judge_doctrim(ck, case['reference'], case['variant'])


def replay_case(ck, case):
    """re-evaluate one recorded `fe.lex.layout` case"""
    ref = case['reference'][0][1]
    var = case['variant'][0][1]
    base, berr = real_tokens(ref)
    got, gerr = real_tokens(var)
    if norm_stream(got) != norm_stream(base) or [e[0] for e in gerr] != [e[0] for e in berr]:
        ck.failing_input('C11: the token stream of the real lexer changes under a layout change',
                         {'kind': 'lex-layout', 'variant': 'replay'}, case)
