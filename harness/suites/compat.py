"""compat.* suites for C07: pairs of specs (A, B = A + backwards compatible edits of docs/evolve_spec.rst), both
through the real toolchain; messages encoded under one decoded under the other, on the real generated classes,
judged by an independent Python reading of the property (view / lift / unknown-content of a message) and compared
with the compiled Lean model (`decl.compat.batch`).

Edit kinds (all listed in "Backwards Compatible Changes"):
  add_field      an optional (`T?`) or defaulted field, at any struct (also parents, structs used as union members /
                 list elements / map values / subtypes)
  add_tag        a void or typed tag of an open union (also parent unions)
  void_to_typed  a Void tag gets a type (nullable or not)
  add_subtype    a new leaf struct under an enumerated root written `union` (catch-all)
  add_route      a new route
  rename_type    a struct / union / alias renamed consistently
  intro_alias    an alias introduced for a type expression      | at sites where the generated `bb.Attribute(...)`
  inline_alias   a use of an alias replaced by its target       | flags do not change (see SITE RULE below)
"""
import copy
import json
import os

from harness import core, pygen, irdump, values, specgen
from harness.values import canon, json_to_tagged, tagged_to_json
from harness.suites.rt import outcome, model_outcome
from harness.specgen import TypeRef, Field, Alias, Struct, Union, Route, TagRef

PROFILE = dict(base='rt', name='compat', p_examples=0.0, p_doc=0.0, p_patch=0.0, n_defs=(8, 14), n_namespaces=(1, 3),
               w_kind=dict(struct=6.0, union=4.5, alias=2.0, route=1.2, annotation=1.2, annotation_type=0.0),
               p_subtypes=0.4, p_closed=0.2, p_container=0.4, p_user=0.4, p_nullable=0.25, p_default=0.4,
               p_union_parent=0.4, p_parent=0.5)

EDIT_KINDS = ('add_field', 'add_field', 'add_field', 'add_tag', 'add_tag', 'void_to_typed', 'void_to_typed', 'add_subtype',
              'add_subtype', 'add_route', 'rename_type', 'intro_alias', 'inline_alias')


# ==================================================================================================
# model helpers
# ==================================================================================================
def defs_index(model):
    return {(ns.name, d.name): d for ns in model.namespaces for d in ns.defs if d.kind in ('struct', 'union', 'alias')}


def visible(model, nsname):
    ns = specgen.find_ns(model, nsname)
    return [nsname] + list(ns.imports)


def resolve(idx, nsname, t):
    """('builtin', name) | (kind, ns, name) for a TypeRef seen from namespace nsname"""
    if t.ns is None and t.name in specgen.BUILTIN_TYPES:
        return ('builtin', t.name)
    key = (t.ns or nsname, t.name)
    d = idx.get(key)
    if d is None:
        return ('unknown',) + key
    return (d.kind,) + key


def deep_core(idx, nsname, t):
    """follow aliases: (resolved core, nullable seen anywhere on the way)"""
    nul = bool(t.nullable)
    r = resolve(idx, nsname, t)
    guard = 0
    while r[0] == 'alias' and guard < 30:
        guard += 1
        a = idx[(r[1], r[2])]
        nul = nul or bool(a.type.nullable)
        r = resolve(idx, r[1], a.type)
    return r, nul


def family(idx, key):
    """all structs (or unions) connected to `key` through parent links"""
    kind = idx[key].kind

    def parent_key(k):
        d = idx[k]
        if d.parent is None:
            return None
        return (d.parent.ns or k[0], d.parent.name)
    root = key
    while parent_key(root) is not None:
        root = parent_key(root)
    out = {root}
    changed = True
    while changed:
        changed = False
        for k, d in idx.items():
            if d.kind == kind and k not in out and parent_key(k) in out:
                out.add(k)
                changed = True
    return out


def member_names(idx, fam):
    names = set()
    for k in fam:
        d = idx[k]
        if d.kind == 'struct':
            names |= {f.name for f in d.fields}
            if d.subtypes is not None:
                names |= {tag for tag, _ in d.subtypes[0]}
        else:
            names |= {f.name for f in d.tags}
    return names


def canon_set(model):
    out = set()
    for ns in model.namespaces:
        out.add(specgen.canonical(ns.name, ns.name))
        for d in ns.defs:
            out.add(specgen.canonical(d.name, ns.name))
    return out


def walk_typerefs(t):
    """t and every TypeRef below it (List / Map arguments)"""
    yield t
    for a in t.args:
        if isinstance(a, TypeRef):
            for x in walk_typerefs(a):
                yield x


def all_type_slots(model):
    """every place a TypeRef is written: (nsname, owner def, what, getter, setter)"""
    out = []
    for ns in model.namespaces:
        for d in ns.defs:
            if d.kind == 'struct':
                for f in d.fields:
                    out.append((ns.name, d, 'field', f))
            elif d.kind == 'union':
                for f in d.tags:
                    if f.type is not None:
                        out.append((ns.name, d, 'tag', f))
            elif d.kind == 'alias':
                out.append((ns.name, d, 'alias', d))
            elif d.kind == 'route':
                for part in ('arg', 'result', 'error'):
                    out.append((ns.name, d, 'route.' + part, (d, part)))
    return out


def slot_get(slot):
    what, h = slot[2], slot[3]
    if what.startswith('route.'):
        return getattr(h[0], h[1])
    return h.type


def slot_set(slot, t):
    what, h = slot[2], slot[3]
    if what.startswith('route.'):
        setattr(h[0], h[1], t)
    else:
        h.type = t


def roles_of(model, idx):
    """(ns, name) -> set of roles under which a struct is reached: member (union tag type), element (list item), value
    (map value), parent, subtype, field"""
    roles = {}

    def add(k, r):
        roles.setdefault(k, set()).add(r)
    for slot in all_type_slots(model):
        nsname, d, what = slot[0], slot[1], slot[2]
        t = slot_get(slot)

        def visit(t, ctx):
            r, _ = deep_core(idx, nsname, t)
            if r[0] in ('struct', 'union'):
                add((r[1], r[2]), ctx)
            if t.ns is None and t.name == 'List' and t.args:
                visit(t.args[0], 'element')
            if t.ns is None and t.name == 'Map' and len(t.args) > 1:
                visit(t.args[1], 'value')
        visit(t, {'field': 'field', 'tag': 'member', 'alias': 'aliased'}.get(what, 'route'))
    for k, d in idx.items():
        if d.kind in ('struct', 'union') and d.parent is not None:
            add((d.parent.ns or k[0], d.parent.name), 'parent')
        if d.kind == 'struct' and d.subtypes is not None:
            for _tag, tr in d.subtypes[0]:
                add((tr.ns or k[0], tr.name), 'subtype')
    return roles


def place_def(rng, ns, d):
    ns.defs.append(d)
    if ns.files:
        rng.choice(ns.files).append(len(ns.defs) - 1)


class Editor:
    """applies compatible edits to a clone; records the script, the class renames and the 'hot' names"""

    def __init__(self, rng, model):
        self.rng = rng
        self.m = model
        self.P = specgen.get_profile(PROFILE)
        self.script = []
        self.renames = {}        # (ns, old) -> new   (struct / union / alias)
        self.hot_fields = set()
        self.hot_tags = set()
        self.hot_typed = set()   # (ns, union name, tag) given a type
        self.hot_leaves = set()  # (ns, name)
        self.touched = set()     # (ns, name) of classes containing an edited site
        self.n = 0

    # ---- names
    def fresh_member(self, names, stem):
        while True:
            self.n += 1
            cand = '%s_%d' % (stem, self.n)
            if cand not in names and cand not in specgen.PY_RESERVED:
                return cand

    def fresh_def(self, nsname, stem):
        cs = canon_set(self.m)
        while True:
            self.n += 1
            cand = '%s%d' % (stem, self.n)
            if specgen.canonical(cand, nsname) not in cs:
                return cand

    # ---- types
    def user_types(self, nsname, kinds):
        idx = defs_index(self.m)
        vis = visible(self.m, nsname)
        return [k for k, d in idx.items() if d.kind in kinds and k[0] in vis and k[0] != 'stone_cfg']

    def tref(self, nsname, key, nullable=False):
        return TypeRef(key[1], None if key[0] == nsname else key[0], nullable=nullable)

    def prim(self, nullable=False):
        t = specgen.prim_type(self.rng, self.rng.choice(specgen.PRIMITIVES), self.P)
        t.nullable = nullable
        return t

    def any_type(self, nsname, nullable):
        """a type expression: primitive, user type, list or map of those"""
        rng = self.rng
        r = rng.random()
        users = self.user_types(nsname, ('struct', 'union'))
        if r < 0.4 or not users:
            return self.prim(nullable)
        if r < 0.7:
            return self.tref(nsname, rng.choice(users), nullable)
        el = self.prim() if rng.random() < 0.5 else self.tref(nsname, rng.choice(users))
        if rng.random() < 0.6:
            return TypeRef('List', None, [el], nullable=nullable)
        return TypeRef('Map', None, [TypeRef('String'), el], nullable=nullable)

    # ---- edits
    def add_field(self):
        rng = self.rng
        idx = defs_index(self.m)
        roles = roles_of(self.m, idx)
        structs = [k for k, d in idx.items() if d.kind == 'struct' and k[0] != 'stone_cfg']
        if not structs:
            return False
        w = [1 + 3 * len(roles.get(k, set()) - {'field', 'route'}) for k in structs]
        key = rng.choices(structs, w)[0]
        d = idx[key]
        names = member_names(idx, family(idx, key))
        name = self.fresh_member(names, 'nf')
        if rng.random() < 0.55:
            fl = Field(name, self.any_type(key[0], True))
            how = 'optional'
        else:
            t = self.prim()
            if t.name in ('Bytes', 'Timestamp'):
                t = TypeRef('Int32')
            v = specgen.prim_value(rng, t, 0.3, uni=False)
            if isinstance(v, str) and (not v.isalnum()):
                v = None
            if v is None:
                t = TypeRef('String')
                v = 'dflt'
            fl = Field(name, t, default=v)
            how = 'defaulted'
            unions = [k for k in self.user_types(key[0], ('union',)) if any(f.type is None for f in idx[k].tags)]
            if unions and rng.random() < 0.25:
                uk = rng.choice(unions)
                fl = Field(name, self.tref(key[0], uk), default=TagRef(rng.choice([f.name for f in idx[uk].tags if f.type is None])))
        d.fields.insert(rng.randint(0, len(d.fields)), fl)
        self.hot_fields.add(name)
        self.touched.add(key)
        self.script.append({'edit': 'add_field', 'struct': '%s.%s' % key, 'field': name, 'how': how,
                            'type': specgen.r_type(fl.type).replace(specgen.BRK, ''),
                            'roles': sorted(roles.get(key, ()))})
        return True

    def add_tag(self):
        rng = self.rng
        idx = defs_index(self.m)
        roles = roles_of(self.m, idx)

        def is_open(k):
            return all(not idx[x].closed for x in family(idx, k) if True) and not idx[k].closed
        unions = [k for k, d in idx.items() if d.kind == 'union' and not d.closed and k[0] != 'stone_cfg']
        # a closed union may extend nothing open (A31) but an open one may have closed ancestors? no: adding to an open
        # union only changes it and its descendants, which are open as well
        unions = [k for k in unions if all(not idx[x].closed for x in family(idx, k) if self._descends(idx, x, k))]
        if not unions:
            return False
        w = [1 + 3 * len(roles.get(k, set()) - {'route'}) for k in unions]
        key = rng.choices(unions, w)[0]
        d = idx[key]
        names = member_names(idx, family(idx, key)) | {'other'}
        name = self.fresh_member(names, 'nt')
        if rng.random() < 0.4:
            fl = Field(name)
        else:
            fl = Field(name, self.any_type(key[0], rng.random() < 0.3))
        d.tags.insert(rng.randint(0, len(d.tags)), fl)
        self.hot_tags.add(name)
        self.touched.add(key)
        self.script.append({'edit': 'add_tag', 'union': '%s.%s' % key, 'tag': name,
                            'type': None if fl.type is None else specgen.r_type(fl.type).replace(specgen.BRK, ''),
                            'roles': sorted(roles.get(key, ()))})
        return True

    @staticmethod
    def _descends(idx, x, k):
        """x is k or a descendant of k"""
        cur = x
        guard = 0
        while cur is not None and guard < 20:
            guard += 1
            if cur == k:
                return True
            d = idx[cur]
            cur = None if d.parent is None else (d.parent.ns or cur[0], d.parent.name)
        return False

    def void_to_typed(self):
        rng = self.rng
        idx = defs_index(self.m)
        used = set()            # void tags used as defaults / route attributes stay void
        for ns in self.m.namespaces:
            for d in ns.defs:
                if d.kind == 'struct':
                    used |= {f.default.tag for f in d.fields if isinstance(f.default, TagRef)}
                if d.kind == 'route':
                    used |= {v.tag for v in d.attrs.values() if isinstance(v, TagRef)}
        cands = [(k, f) for k, d in idx.items() if d.kind == 'union' and k[0] != 'stone_cfg'
                 for f in d.tags if f.type is None and f.name not in used]
        if not cands:
            return False
        key, f = rng.choice(cands)
        f.type = self.any_type(key[0], rng.random() < 0.5)
        self.hot_typed.add((key[0], key[1], f.name))
        self.touched.add(key)
        self.script.append({'edit': 'void_to_typed', 'union': '%s.%s' % key, 'tag': f.name,
                            'type': specgen.r_type(f.type).replace(specgen.BRK, '')})
        return True

    def add_subtype(self):
        rng = self.rng
        idx = defs_index(self.m)
        roots = [k for k, d in idx.items() if d.kind == 'struct' and d.subtypes is not None and d.subtypes[1]]
        if not roots:
            return False
        key = rng.choice(roots)
        d = idx[key]
        ns = specgen.find_ns(self.m, key[0])
        names = member_names(idx, family(idx, key))
        tag = self.fresh_member(names, 'ns')
        leaf = Struct(self.fresh_def(key[0], 'NewLeaf'), parent=TypeRef(d.name))
        for _ in range(rng.randint(0, 2)):
            fname = self.fresh_member(names | {tag}, 'lf')
            names.add(fname)
            leaf.fields.append(Field(fname, self.any_type(key[0], rng.random() < 0.4)))
        if not leaf.fields:
            leaf.doc = 'added subtype'
        place_def(rng, ns, leaf)
        d.subtypes[0].insert(rng.randint(0, len(d.subtypes[0])), (tag, TypeRef(leaf.name)))
        self.hot_leaves.add((key[0], leaf.name))
        self.touched.add(key)
        self.script.append({'edit': 'add_subtype', 'root': '%s.%s' % key, 'tag': tag, 'leaf': leaf.name,
                            'fields': [f.name for f in leaf.fields]})
        return True

    def add_route(self):
        rng = self.rng
        nss = [ns for ns in self.m.namespaces if ns.name != 'stone_cfg']
        ns = rng.choice(nss)
        existing = [d for n in self.m.namespaces for d in n.defs if d.kind == 'route']
        has_cfg = specgen.find_ns(self.m, 'stone_cfg') is not None
        if has_cfg and not existing:
            return False
        name = self.fresh_def(ns.name, 'added_route_')
        structs = self.user_types(ns.name, ('struct',))
        unions = self.user_types(ns.name, ('union',))

        def pick(pool):
            if pool and rng.random() < 0.7:
                return self.tref(ns.name, rng.choice(pool))
            return TypeRef('Void')
        rt = Route(name, 1, pick(structs), pick(structs), pick(unions))
        if existing:
            rt.attrs = copy.deepcopy(rng.choice(existing).attrs)
        place_def(rng, ns, rt)
        self.script.append({'edit': 'add_route', 'route': '%s.%s' % (ns.name, name)})
        return True

    def rename_type(self):
        rng = self.rng
        idx = defs_index(self.m)
        cands = [k for k in idx if k[0] != 'stone_cfg']
        if not cands:
            return False
        key = rng.choice(cands)
        d = idx[key]
        new = self.fresh_def(key[0], d.name + 'Rn')
        for ns in self.m.namespaces:
            for dd in ns.defs:
                trs = []
                if dd.kind in ('struct', 'union') and dd.parent is not None:
                    trs.append(dd.parent)
                if dd.kind == 'struct' and dd.subtypes is not None:
                    trs += [tr for _tag, tr in dd.subtypes[0]]
                for t in trs:
                    if (t.ns or ns.name, t.name) == key:
                        t.name = new
            # every written type expression
        for slot in all_type_slots(self.m):
            for t in walk_typerefs(slot_get(slot)):
                if not (t.ns is None and t.name in specgen.BUILTIN_TYPES) and (t.ns or slot[0], t.name) == key:
                    t.name = new
        d.name = new
        # renames compose: earlier renames that ended at `key` now end at the new name
        for k0, v0 in list(self.renames.items()):
            if (k0[0], v0) == key:
                self.renames[k0] = new
        if not any((k0[0], v0) == (key[0], new) for k0, v0 in self.renames.items()):
            self.renames[key] = new
        if d.kind != 'alias':
            self.touched.add((key[0], new))
        self.script.append({'edit': 'rename_type', 'kind': d.kind, 'old': '%s.%s' % key, 'new': new})
        return True

    # SITE RULE for alias edits: python_types derives `bb.Attribute(nullable=, user_defined=)` from the *literal* shape of
    # a field's type (a literal `?`, a literal struct / union name).  An alias introduced or removed exactly there changes
    # those flags (a detail of the generated classes, not of the wire): such sites are not edited.  Union tag types,
    # route types, alias targets and everything below List / Map are free.
    def _alias_sites(self, want_alias_ref):
        idx = defs_index(self.m)
        out = []
        for slot in all_type_slots(self.m):
            nsname, d, what = slot[0], slot[1], slot[2]
            if nsname == 'stone_cfg':
                continue
            top = slot_get(slot)
            for t in walk_typerefs(top):
                r = resolve(idx, nsname, t)
                if want_alias_ref != (r[0] == 'alias'):
                    continue
                if r[0] == 'builtin' and r[1] == 'Void':
                    continue
                if t is top:
                    if what == 'alias' and not want_alias_ref:
                        continue                      # alias X = <expr>  ->  alias X = Y; alias Y = <expr>: allowed but dull
                    if what == 'field':
                        core, nul = deep_core(idx, nsname, t)
                        if core[0] in ('struct', 'union') or nul:
                            continue                  # SITE RULE
                out.append((slot, t, t is top))
        return out

    def intro_alias(self):
        rng = self.rng
        sites = self._alias_sites(False)
        # Map keys must stay literal String types (A20)
        sites = [s for s in sites if not self._is_map_key(s)]
        if not sites:
            return False
        slot, t, is_top = rng.choice(sites)
        nsname = slot[0]
        ns = specgen.find_ns(self.m, nsname)
        name = self.fresh_def(nsname, 'NewAlias')
        target = copy.deepcopy(t)
        keep_q = bool(t.nullable) and (rng.random() < 0.5 or (slot[2] == 'field' and is_top))
        if keep_q:
            target.nullable = False
        place_def(rng, ns, Alias(name, target))
        t.name, t.ns, t.args, t.kwargs = name, None, [], {}
        t.nullable = keep_q
        self.touched.add((nsname, slot[1].name))
        self.script.append({'edit': 'intro_alias', 'alias': '%s.%s' % (nsname, name), 'in': slot[1].name, 'site': slot[2],
                            'nested': not is_top})
        return True

    def _is_map_key(self, site):
        slot, t, _ = site
        for u in walk_typerefs(slot_get(slot)):
            if u.ns is None and u.name == 'Map' and u.args and u.args[0] is t:
                return True
        return False

    def inline_alias(self):
        rng = self.rng
        idx = defs_index(self.m)
        sites = self._alias_sites(True)
        if not sites:
            return False
        slot, t, is_top = rng.choice(sites)
        nsname = slot[0]
        akey = (t.ns or nsname, t.name)
        a = idx[akey]
        target = copy.deepcopy(a.type)
        if t.nullable and target.nullable:
            return False
        if akey[0] != nsname:
            for u in walk_typerefs(target):
                if u.ns is None and u.name in specgen.BUILTIN_TYPES:
                    continue
                if u.ns is None:
                    u.ns = akey[0]
                elif u.ns == nsname:
                    u.ns = None
        target.nullable = bool(target.nullable or t.nullable)
        t.name, t.ns, t.args, t.kwargs, t.nullable = target.name, target.ns, target.args, target.kwargs, target.nullable
        self.touched.add((nsname, slot[1].name))
        self.script.append({'edit': 'inline_alias', 'alias': '%s.%s' % akey, 'in': slot[1].name, 'site': slot[2],
                            'nested': not is_top})
        return True

    def apply(self, kind):
        return getattr(self, kind)()


def gen_pair(rng, n_edits=None, kinds=None):
    """(modelA, modelB, editor) with 1-4 compatible edits applied to a clone of a generated spec"""
    A = specgen.gen_model(rng, PROFILE)
    B = specgen.clone(A)
    ed = Editor(rng, B)
    want = n_edits or rng.choice((1, 1, 2, 2, 3, 4))
    tries = 0
    while len(ed.script) < want and tries < 20:
        tries += 1
        ed.apply(rng.choice(kinds or EDIT_KINDS))
    return A, B, ed


# ==================================================================================================
# hand-written pair: every edit kind at sites reached through nesting
# ==================================================================================================
HAND_A = """namespace ca

alias Code = Int32(min_value=0, max_value=99)

struct Base
    id Int64
    note String?

struct Leafy extends Base
    codes List(Code)

struct Item
    name String
    n UInt32 = 3

struct Box
    items List(Item)
    by_name Map(String, Item)
    pick Choice
    maybe Choice?
    res Res?
    child Leafy?

union Choice
    plain
    also
    later
    item Item
    num Code
    opt Item?

union MoreChoice extends Choice
    extra String

union_closed Shut
    a
    b Item

struct Res
    union
        file FileRes
        folder FolderRes
    path String

struct FileRes extends Res
    size UInt64

struct FolderRes extends Res
    kids List(Res)

route get_box(Box, Res, MoreChoice)
"""

HAND_B = """namespace ca

alias Code = Int32(min_value=0, max_value=99)
alias Codes = List(Code)
alias Extra = String

struct Base
    id Int64
    added_opt String?
    note String?
    added_dflt Int32 = 7

struct Leafy extends Base
    codes Codes

struct Thing
    name String
    item_extra Choice?
    n UInt32 = 3
    flag Boolean = true

struct Box
    items List(Thing)
    by_name Map(String, Thing)
    pick Choice
    maybe Choice?
    res Res?
    child Leafy?

union Choice
    plain
    also Thing?
    later Int32
    newtag
    newtyped List(Thing)
    item Thing
    num Int32(min_value=0, max_value=99)
    opt Thing?

union MoreChoice extends Choice
    extra Extra
    morenew Base

union_closed Shut
    a Base?
    b Thing

struct Res
    union
        file FileRes
        link LinkRes
        folder FolderRes
    path String
    owner String?

struct FileRes extends Res
    size UInt64

struct LinkRes extends Res
    target String

struct FolderRes extends Res
    kids List(Res)
    shared Boolean = false

route get_box(Box, Res, MoreChoice)
route put_box(Box, Void, Shut)
"""

HAND_RENAMES = {('ca', 'Item'): 'Thing'}
HAND_HOT = dict(fields={'added_opt', 'added_dflt', 'item_extra', 'flag', 'owner', 'shared'}, tags={'newtag', 'newtyped', 'morenew'},
                typed={('ca', 'Choice', 'also'), ('ca', 'Choice', 'later'), ('ca', 'Shut', 'a')}, leaves={('ca', 'LinkRes')})


# ==================================================================================================
# sessions
# ==================================================================================================
class Side:
    def __init__(self, rng, specs, ts, hot=None):
        self.specs = specs
        self.built = pygen.build_python(specs)
        self.api = self.built.api
        self.env = irdump.env_of(self.api)
        self.codec = values.Codec(self.built, ts)
        self.gen = ForcedGen(rng, self.api, ts, hot or {})
        self.types = dict(irdump.top_level_types(self.api))
        self._validators = {}

    def validator(self, label):
        if label not in self._validators:
            self._validators[label] = self.built.validator_for(self.types[label])
        return self._validators[label]

    def encode(self, label, obj):
        from stone.backends.python_rsrc import stone_serializers as ss
        v = self.validator(label)
        return outcome(lambda: json_to_tagged(ss.json_compat_obj_encode(v, obj)))

    def decode(self, label, doc_tagged, strict):
        from stone.backends.python_rsrc import stone_serializers as ss
        v = self.validator(label)
        doc = tagged_to_json(doc_tagged)
        return outcome(lambda: ss.json_compat_obj_decode(v, doc, strict=strict))


class ForcedGen(values.ValueGen):
    """ValueGen that steers into the edited sites: new fields are set, new / retyped tags and new subtypes are chosen
    in a good share of the values"""

    def __init__(self, rng, api, ts, hot):
        values.ValueGen.__init__(self, rng, api, ts)
        self.hot = hot

    def valid_struct(self, t, depth):
        from stone.ir import Nullable
        rng = self.rng
        target = t
        if t.has_enumerated_subtypes():
            leaves = []

            def walk(s):
                for f in s.get_enumerated_subtypes():
                    if f.data_type.has_enumerated_subtypes():
                        walk(f.data_type)
                    else:
                        leaves.append(f.data_type)
            walk(t)
            if not leaves:
                return None
            hot = [l for l in leaves if (l.namespace.name, l.name) in self.hot.get('leaves', ())]
            target = rng.choice(hot) if hot and rng.random() < 0.5 else rng.choice(leaves)
        slots = []
        for c in irdump.chain(target):
            for f in c.fields:
                if f.omitted_caller:
                    continue
                optional = isinstance(f.data_type, Nullable) or f.has_default
                p_skip = 0.1 if f.name in self.hot.get('fields', ()) else 0.4
                if optional and (depth > 5 or rng.random() < p_skip):
                    continue
                x = self.valid(f.data_type, depth + 1)
                if x is None:
                    if optional:
                        continue
                    return None
                if x == ['n'] and isinstance(f.data_type, Nullable):
                    continue
                slots.append([f.name, x])
        return ['S', irdump.ref_of(target), slots]

    def valid_union(self, t, depth, tag=None):
        rng = self.rng
        if tag is None and depth <= 5 and rng.random() < 0.55:
            hot = [f.name for f in t.all_fields if not f.catch_all and not f.omitted_caller and
                   (f.name in self.hot.get('tags', ()) or
                    any((c.namespace.name, c.name, f.name) in self.hot.get('typed', ()) for c in irdump.chain(t)))]
            if hot:
                r = values.ValueGen.valid_union(self, t, depth, rng.choice(hot))
                if r is not None:
                    return r
        return values.ValueGen.valid_union(self, t, depth, tag)


class Pair:
    """both specs built by the real toolchain + the class correspondence"""

    def __init__(self, ck, specsA, specsB, renames, hot, script):
        self.ck = ck
        self.script = script
        self.ts = values.TsRegistry()
        self.A = Side(ck.rng, specsA, self.ts)
        self.B = Side(ck.rng, specsB, self.ts, hot)
        self.renames = {'%s.%s' % k: '%s.%s' % (k[0], v) for k, v in renames.items()}
        self.rho = []
        for refA in self.A.built.ir_by_ref:
            refB = self.renames.get(refA, refA)
            if refB in self.B.built.ir_by_ref:
                self.rho.append([refA, refB])
        self.toB = dict((a, b) for a, b in self.rho)
        self.toA = dict((b, a) for a, b in self.rho)

    def label_to_b(self, label):
        kind, rest = label.split(' ', 1)
        if kind in ('type', 'alias'):
            return '%s %s' % (kind, self.renames.get(rest, rest))
        return label

    def type_pairs(self):
        out = []
        for label, irA in self.A.types.items():
            lb = self.label_to_b(label)
            if lb in self.B.types:
                out.append((label, lb, irA, self.B.types[lb]))
        return out

    def case_base(self):
        return {'specsA': self.A.specs, 'specsB': self.B.specs, 'edits': self.script, 'rho': self.rho}


# ==================================================================================================
# the property, read in Python (independent of the Lean model): over tagged values / parsed messages and stone.ir
# ==================================================================================================
def strip(t):
    from stone.ir import Alias, Nullable
    nullable = False
    while isinstance(t, (Alias, Nullable)):
        if isinstance(t, Nullable):
            nullable = True
        t = t.data_type
    return t, nullable


def public_fields(dt):
    return [f for c in irdump.chain(dt) for f in c.fields if not f.omitted_caller]


def leaves_of(root):
    """tag -> leaf struct, for tags naming a leaf directly below the root"""
    return {f.name: f.data_type for f in root.get_enumerated_subtypes() if not f.data_type.has_enumerated_subtypes()}


def public_tag(u, tag):
    for f in u.all_fields:
        if f.name == tag and not f.omitted_caller:
            return f
    return None


def catch_all_name(u):
    for f in u.all_fields:
        if f.catch_all:
            return f.name
    return None


def view_py(P, tA, v):
    """the A-view of the B-value v at A's declared type tA: unknown fields dropped, unknown tags read as the catch-all with
    None, unknown subtypes read as the base struct, payloads of tags that are Void in A forgotten"""
    from stone.ir import List, Map, Struct, Union, Void
    c, _n = strip(tA)
    k = v[0]
    if k == 'n':
        return v
    if isinstance(c, List) and k in 'lu':
        return [k, [view_py(P, c.data_type, x) for x in v[1]]]
    if isinstance(c, Map) and k == 'd':
        return ['d', [[a, view_py(P, c.value_data_type, b)] for a, b in v[1]]]
    if isinstance(c, Struct) and k == 'S':
        target = c
        if c.has_enumerated_subtypes():
            refA = P.toA.get(v[1])
            dt = P.A.built.ir_by_ref.get(refA) if refA else None
            if dt is not None and (dt is c or dt in leaves_of(c).values()):
                target = dt
        fa = {f.name: f for f in public_fields(target)}
        return ['S', irdump.ref_of(target), [[a, view_py(P, fa[a].data_type, b)] for a, b in v[2] if a in fa]]
    if isinstance(c, Union) and k == 'U':
        f = public_tag(c, v[2])
        if f is None:
            return ['U', irdump.ref_of(c), catch_all_name(c), ['n']]
        if isinstance(f.data_type, Void):
            return ['U', irdump.ref_of(c), v[2], ['n']]
        return ['U', irdump.ref_of(c), v[2], view_py(P, f.data_type, v[3])]
    return v


def lift_py(P, tB, v):
    """the A-value v seen under B at B's declared type tB: the same slots, B's classes"""
    from stone.ir import List, Map, Struct, Union, Void
    c, _n = strip(tB)
    k = v[0]
    if k == 'n':
        return v
    if isinstance(c, List) and k in 'lu':
        return [k, [lift_py(P, c.data_type, x) for x in v[1]]]
    if isinstance(c, Map) and k == 'd':
        return ['d', [[a, lift_py(P, c.value_data_type, b)] for a, b in v[1]]]
    if isinstance(c, Struct) and k == 'S':
        target = c
        if c.has_enumerated_subtypes():
            dt = P.B.built.ir_by_ref.get(P.toB.get(v[1]))
            if dt is not None:
                target = dt
        fb = {f.name: f for f in public_fields(target)}
        return ['S', irdump.ref_of(target), [[a, lift_py(P, fb[a].data_type, b)] for a, b in v[2] if a in fb]]
    if isinstance(c, Union) and k == 'U':
        f = public_tag(c, v[2])
        if f is None:
            return v
        if isinstance(f.data_type, Void):
            return ['U', irdump.ref_of(c), v[2], ['n']]
        return ['U', irdump.ref_of(c), v[2], lift_py(P, f.data_type, v[3])]
    return v


def msg_unknown(tA, j):
    """the parsed message j (as B wrote it) contains something A does not know when read at A's type tA: a member that
    is not a field, a tag that is not a tag, a subtype that is not listed, anything beside the tag of a Void tag"""
    from stone.ir import List, Map, Struct, Union, Void
    c, _n = strip(tA)
    if j is None:
        return False
    if isinstance(c, List) and isinstance(j, list):
        return any(msg_unknown(c.data_type, x) for x in j)
    if isinstance(c, Map) and isinstance(j, dict):
        return any(msg_unknown(c.value_data_type, x) for x in j.values())
    if isinstance(c, Struct) and isinstance(j, dict):
        target = c
        if c.has_enumerated_subtypes():
            target = leaves_of(c).get(j.get('.tag'))
            if target is None:
                return True
        fa = {f.name: f for f in public_fields(target)}
        for key, x in j.items():
            if key == '.tag':
                continue
            if key not in fa or msg_unknown(fa[key].data_type, x):
                return True
        return False
    if isinstance(c, Union):
        if isinstance(j, str):
            return public_tag(c, j) is None
        if isinstance(j, dict):
            f = public_tag(c, j.get('.tag'))
            if f is None:
                return True
            ft, _ = strip(f.data_type)
            if isinstance(ft, Void):
                return any(key != '.tag' for key in j)
            if isinstance(ft, Struct) and not ft.has_enumerated_subtypes():
                return msg_unknown(ft, j)
            return any(key not in ('.tag', f.name) for key in j) or msg_unknown(f.data_type, j.get(f.name))
    return False


def void_to_required(P, tA, v):
    """the A-value v uses a tag that is Void in A and has a non-nullable type in B"""
    from stone.ir import List, Map, Struct, Union, Void, Nullable
    c, _n = strip(tA)
    k = v[0]
    if isinstance(c, List) and k in 'lu':
        return any(void_to_required(P, c.data_type, x) for x in v[1])
    if isinstance(c, Map) and k == 'd':
        return any(void_to_required(P, c.value_data_type, b) for _a, b in v[1])
    if isinstance(c, Struct) and k == 'S':
        dt = P.A.built.ir_by_ref.get(v[1], c)
        fa = {f.name: f for f in public_fields(dt)}
        return any(void_to_required(P, fa[a].data_type, b) for a, b in v[2] if a in fa)
    if isinstance(c, Union) and k == 'U':
        f = public_tag(c, v[2])
        if f is None:
            return False
        if isinstance(f.data_type, Void):
            ub = P.B.built.ir_by_ref.get(P.toB.get(irdump.ref_of(c)))
            g = public_tag(ub, v[2]) if ub is not None else None
            if g is None:
                return False
            return not isinstance(g.data_type, Void) and not strip(g.data_type)[1]
        return void_to_required(P, f.data_type, v[3])
    return False


def ambiguous_empty(side, t, v):
    """C04's documented exception (finding D7): a union member of nullable ordinary-struct type carrying an instance with
    nothing set is written as the bare tag, which reads back as null.  Not judged here."""
    from stone.ir import List, Map, Struct, Union, Void
    c, _n = strip(t)
    k = v[0]
    if isinstance(c, List) and k in 'lu':
        return any(ambiguous_empty(side, c.data_type, x) for x in v[1])
    if isinstance(c, Map) and k == 'd':
        return any(ambiguous_empty(side, c.value_data_type, b) for _a, b in v[1])
    if isinstance(c, Struct) and k == 'S':
        dt = side.built.ir_by_ref.get(v[1], c)
        fa = {f.name: f for f in public_fields(dt)}
        return any(ambiguous_empty(side, fa[a].data_type, b) for a, b in v[2] if a in fa)
    if isinstance(c, Union) and k == 'U':
        f = public_tag(c, v[2])
        if f is None or isinstance(f.data_type, Void):
            return False
        ft, nul = strip(f.data_type)
        p = v[3]
        if nul and isinstance(ft, Struct) and not ft.has_enumerated_subtypes() and p[0] == 'S':
            names = {g.name for g in public_fields(ft)}
            if not any(a in names and b[0] != 'n' for a, b in p[2]):
                return True
        return ambiguous_empty(side, f.data_type, p)
    return False


def touches(P, v):
    """does the B-value contain an instance of an edited class (statistics only)"""
    k = v[0]
    if k in 'lu':
        return any(touches(P, x) for x in v[1])
    if k == 'd':
        return any(touches(P, b) for _a, b in v[1])
    if k == 'S':
        return v[1] in P.hot_refs or any(touches(P, b) for _a, b in v[2])
    if k == 'U':
        return v[1] in P.hot_refs or touches(P, v[3])
    return False


_MISSING = object()


def lit_matches(side, got, default):
    """does the value read from an attribute equal the declared default literal"""
    from stone.ir.data_types import TagRef as IrTagRef
    if isinstance(default, IrTagRef):
        return getattr(got, '_tag', _MISSING) == default.tag_name and getattr(got, '_value', _MISSING) is None
    if isinstance(default, bool) or isinstance(got, bool):
        return isinstance(default, bool) and isinstance(got, bool) and got == default
    return got == default


def read_check(side, t, obj, exp, path='$'):
    """Reading the decoded object attribute by attribute gives the expected value `exp` (tagged); fields that `exp` leaves
    unset read as None (optional) or as the default the spec declares.  Returns a list of problems."""
    from stone.ir import List, Map, Struct, Union, Void, Nullable
    c, _n = strip(t)
    if exp[0] == 'n':
        return [] if obj is None else ['%s: expected None, got %s' % (path, type(obj).__name__)]
    if isinstance(c, List) and exp[0] in 'lu':
        if not isinstance(obj, list) or len(obj) != len(exp[1]):
            return ['%s: list of %d expected' % (path, len(exp[1]))]
        out = []
        for i, (o, e) in enumerate(zip(obj, exp[1])):
            out += read_check(side, c.data_type, o, e, '%s[%d]' % (path, i))
        return out
    if isinstance(c, Map) and exp[0] == 'd':
        want = {a[1]: b for a, b in exp[1]}
        if not isinstance(obj, dict) or set(obj) != set(want):
            return ['%s: map keys differ' % path]
        out = []
        for key, e in want.items():
            out += read_check(side, c.value_data_type, obj[key], e, '%s[%r]' % (path, key))
        return out
    if isinstance(c, Struct) and exp[0] == 'S':
        cls = side.built.cls_by_ref.get(exp[1])
        if cls is None or type(obj) is not cls:
            return ['%s: instance of %s expected, got %s' % (path, exp[1], type(obj).__name__)]
        dt = side.built.ir_by_ref[exp[1]]
        slots = dict((a, b) for a, b in exp[2])
        out = []
        for f in public_fields(dt):
            try:
                got = getattr(obj, f.name)
            except AttributeError:
                got = _MISSING
            if f.name in slots:
                if got is _MISSING:
                    out.append('%s.%s: unreadable' % (path, f.name))
                else:
                    out += read_check(side, f.data_type, got, slots[f.name], '%s.%s' % (path, f.name))
            elif isinstance(f.data_type, Nullable):
                if got is not None:
                    out.append('%s.%s: unset optional field reads %r' % (path, f.name, got))
            elif f.has_default:
                if got is _MISSING or not lit_matches(side, got, f.default):
                    out.append('%s.%s: unset field does not read as its default' % (path, f.name))
        return out
    if isinstance(c, Union) and exp[0] == 'U':
        cls = side.built.cls_by_ref.get(exp[1])
        if cls is None or not isinstance(obj, cls):
            return ['%s: instance of %s expected, got %s' % (path, exp[1], type(obj).__name__)]
        if obj._tag != exp[2]:
            return ['%s: tag %r expected, got %r' % (path, exp[2], obj._tag)]
        f = public_tag(c, exp[2])
        if f is None or isinstance(f.data_type, Void):
            return [] if obj._value is None else ['%s: payload on a Void tag' % path]
        return read_check(side, f.data_type, obj._value, exp[3], '%s<%s>' % (path, exp[2]))
    got = side.codec.to_tagged(obj)
    if got[0] in 'if' and exp[0] in 'if':
        # a number is a number: 3 and 3.0 are the same value (an integer given for a float position is stored as given by
        # `Union.__init__`, and comes back as a float)
        if side.codec.to_py(got) == side.codec.to_py(exp):
            return []
    if canon(got) != canon(exp):
        return ['%s: %r expected, got %r' % (path, exp, got)]
    return []


def equals_expected(side, obj, exp):
    """real `==` against the object built slot by slot from the expected tagged value; None = not decidable (the
    expected object cannot be read: `==` raised)"""
    try:
        other = side.codec.to_py(exp)
        return bool(obj == other) and bool(other == obj)
    except AttributeError:
        return None


# ==================================================================================================
# the suite
# ==================================================================================================
def reach(api_types):
    """class refs reachable from an IR type (memoised)"""
    from stone.ir import List, Map, Struct, Union
    memo = {}

    def of_class(dt):
        ref = irdump.ref_of(dt)
        if ref in memo:
            return memo[ref]
        memo[ref] = acc = {ref}
        if isinstance(dt, Struct):
            for f in public_fields(dt):
                acc |= of_type(f.data_type)
            if dt.has_enumerated_subtypes():
                for f in dt.get_enumerated_subtypes():
                    acc |= of_class(f.data_type)
        else:
            for f in dt.all_fields:
                acc |= of_type(f.data_type)
        return acc

    def of_type(t):
        c, _ = strip(t)
        if isinstance(c, List):
            return of_type(c.data_type)
        if isinstance(c, Map):
            return of_type(c.value_data_type)
        if isinstance(c, (Struct, Union)):
            return of_class(c)
        return set()
    return of_type


def hot_refs_of(P, hot, touched):
    """refs (in B) of the classes that contain an edited site, directly or by inheritance"""
    from stone.ir import Struct, Union
    out = set()
    for ref, dt in P.B.built.ir_by_ref.items():
        if isinstance(dt, Struct):
            if any(f.name in hot.get('fields', ()) for f in public_fields(dt)) or \
                    (dt.namespace.name, dt.name) in hot.get('leaves', ()):
                out.add(ref)
            if dt.has_enumerated_subtypes() and any((f.data_type.namespace.name, f.data_type.name) in hot.get('leaves', ())
                                                    for f in dt.get_enumerated_subtypes()):
                out.add(ref)
        elif isinstance(dt, Union):
            for f in dt.all_fields:
                if f.name in hot.get('tags', ()) or any((c.namespace.name, c.name, f.name) in hot.get('typed', ())
                                                        for c in irdump.chain(dt)):
                    out.add(ref)
    for k in touched:
        out.add('%s.%s' % k)
    return out


def _driver(ck, requests):
    """ck.driver, retried while the executable is being relinked by a concurrent build"""
    import time
    for attempt in range(8):
        try:
            return ck.driver(requests)
        except (RuntimeError, OSError) as e:
            if attempt == 7 or not ('missing' in str(e) or 'Text file busy' in str(e) or isinstance(e, OSError)):
                raise
            time.sleep(4)


def run_pair(ck, P, n_types, n_values, label_filter=None):
    """all comparisons for one pair"""
    rng = ck.rng
    tps = P.type_pairs()
    reachB = reach(P.B.types)
    hotty = [tp for tp in tps if reachB(tp[3]) & P.hot_refs]
    cold = [tp for tp in tps if tp not in hotty]
    rng.shuffle(hotty)
    rng.shuffle(cold)
    chosen = hotty[:n_types] + cold[:max(1, n_types // 4)]
    if label_filter:
        chosen = [tp for tp in tps if tp[0] == label_filter]
    ck.hist('compat.types_reaching_edits', min(len(hotty), 9))

    work = []      # dicts: dir, la, lb, irA, irB, value (tagged, stored), obj, doc
    for la, lb, irA, irB in chosen:
        for direction, src, lab, ir in (('B->A', P.B, lb, irB), ('A->B', P.A, la, irA)):
            n = n_values if direction == 'B->A' else max(2, n_values // 2)
            seen = set()
            for _ in range(n):
                tv = src.gen.valid(ir)
                if tv is None:
                    ck.stat('compat.no_value_drawn')
                    continue
                key = json.dumps(tv, sort_keys=True)
                if key in seen:
                    continue
                seen.add(key)
                built = outcome(lambda: src.codec.build_checked(tv))
                if built[0] != 'ok':
                    ck.stat('compat.value_refused_by_constructor')
                    continue
                enc = src.encode(lab, built[1])
                if enc[0] != 'ok':
                    ck.stat('compat.value_not_encodable')
                    continue
                work.append(dict(dir=direction, la=la, lb=lb, irA=irA, irB=irB, obj=built[1],
                                 value=src.codec.to_tagged(built[1]), doc=enc[1]))
    # ---- the model, one request for the whole pair
    cases, index = [], []
    tyA = {w['la']: irdump.ir_ty(w['irA']) for w in work}
    tyB = {w['lb']: irdump.ir_ty(w['irB']) for w in work}
    for la, lb, irA, irB in chosen:
        cases.append({'k': 'sub', 'tyA': irdump.ir_ty(irA), 'tyB': irdump.ir_ty(irB)})
        index.append(('sub', la))
    for i, w in enumerate(work):
        ta, tb = tyA[w['la']], tyB[w['lb']]
        if w['dir'] == 'B->A':
            cases += [{'k': 'view', 'tyA': ta, 'v': w['value']},
                      {'k': 'mentions', 'tyA': ta, 'tyB': tb, 'v': w['value']},
                      {'k': 'known', 'tyA': ta, 'doc': w['doc']},
                      {'k': 'dec', 'side': 'A', 'ty': ta, 'doc': w['doc'], 'strict': False},
                      {'k': 'dec', 'side': 'A', 'ty': ta, 'doc': w['doc'], 'strict': True},
                      {'k': 'wire', 'side': 'B', 'ty': tb, 'v': w['value']},
                      {'k': 'thmfwd', 'tyA': ta, 'tyB': tb, 'v': w['value']}]
            index += [('view', i), ('mentions', i), ('known', i), ('decL', i), ('decS', i), ('wire', i), ('thm', i)]
        else:
            cases += [{'k': 'lift', 'tyB': tb, 'v': w['value']},
                      {'k': 'nvr', 'tyA': ta, 'v': w['value']},
                      {'k': 'tight', 'side': 'A', 'ty': ta, 'doc': w['doc']},
                      {'k': 'nvrdoc', 'tyA': ta, 'doc': w['doc']},
                      {'k': 'dec', 'side': 'B', 'ty': tb, 'doc': w['doc'], 'strict': False},
                      {'k': 'dec', 'side': 'B', 'ty': tb, 'doc': w['doc'], 'strict': True},
                      {'k': 'wire', 'side': 'A', 'ty': ta, 'v': w['value']},
                      {'k': 'thmbwd', 'tyA': ta, 'tyB': tb, 'v': w['value']}]
            index += [('lift', i), ('nvr', i), ('tight', i), ('nvrdoc', i), ('decL', i), ('decS', i), ('wire', i), ('thm', i)]
    env_both = {'structs': P.A.env['structs'] + P.B.env['structs'], 'unions': P.A.env['unions'] + P.B.env['unions']}
    ext = values.ext_tables(env_both, [w['value'] for w in work] + [w['doc'] for w in work], P.ts,
                            list(tyA.values()) + list(tyB.values()))
    rep = _driver(ck, [{'op': 'decl.compat.batch', 'envA': P.A.env, 'envB': P.B.env, 'rho': P.rho, 'ext': ext, 'cases': cases}])[0]
    if 'results' not in rep:
        raise RuntimeError('decl.compat.batch refused: %r' % (rep,))
    base = P.case_base()
    ck.case(('pair', json.dumps(P.script, sort_keys=True, default=repr)), nontrivial=True)
    # hypotheses of the theorems on real data: both environments well formed, the edits inside `compatEnv`
    for name in ENV_HYPS:
        if rep.get(name):
            ck.agree('compat.hyp')
        else:
            ck.disagree('compat.hyp', {'hypothesis': name, 'edits': P.script, 'specsA': P.A.specs, 'specsB': P.B.specs},
                        'compatible edits applied by the generator', {'value': rep.get(name), 'badPairs': rep.get('badPairs')})
    # environment-level domain conditions of the wire-form theorems (C04's round trip for the sender).  `envRT` excludes a
    # genuine defect (C04: explicit default on a field whose validator has an implicit one), so it is counted, not asserted.
    for name in ('envRT_A', 'envRT_B', 'dfltsRefl_A', 'dfltsRefl_B'):
        ck.hist('compat.theorem.env.' + name, bool(rep.get(name)))
    model = {('env', None): {k: rep.get(k) for k in ENV_HYPS + ('envRT_A', 'envRT_B', 'dfltsRefl_A', 'dfltsRefl_B')}}
    for (what, i), r in zip(index, rep['results']):
        model[(what, i)] = r
        if what == 'sub':
            if r.get('ok') is True:
                ck.agree('compat.sub')
            else:
                ck.disagree('compat.sub', {'type': i, 'edits': P.script, 'specsA': P.A.specs, 'specsB': P.B.specs},
                            'types of a compatible pair', r)
    # ---- the real code, judged
    for i, w in enumerate(work):
        if w['dir'] == 'B->A':
            judge_forward(ck, P, base, i, w, model)
        else:
            judge_backward(ck, P, base, i, w, model)


ENV_HYPS = ('envWF_A', 'envWF_B', 'envWFX_A', 'envWFU_A', 'envWFU_B', 'fieldFlagsWF_A', 'rhoWF', 'compatEnv')


def theorem_domain(model, i, direction):
    """Is case i inside the domain of C07.forward_compat (direction 'B->A') / C07.backward_compat ('A->B')?  Every
    hypothesis of the theorem except ExtLaws (base64 round trip, irreflexive float <; its third clause is dfltsRefl) as the
    compiled model evaluates it on this pair / type / value.  Returns (inside, reasons-outside)."""
    env, th = model[('env', None)], model[('thm', i)]
    if 'protocol_error' in th:
        return False, ['protocol_error']
    need_env = ['envWF_A', 'envWF_B', 'envWFX_A', 'envWFU_B', 'compatEnv'] + \
        (['envRT_B', 'dfltsRefl_B'] if direction == 'B->A' else ['envRT_A', 'dfltsRefl_A'])
    need_val = ['tySub', 'tyWF_A', 'valid', 'normal', 'valWF'] + (['tyWF_B'] if direction == 'B->A' else ['noVoidToRequired'])
    out = [k for k in need_env if not env.get(k)] + [k for k in need_val if not th.get(k)]
    if th.get('ambiguousEmpty'):
        out.append('ambiguousEmpty')
    return not out, out


def judge_theorem(ck, suite, side, reals, model, i, direction, case):
    """Inside the theorem's domain: the REAL decoder's result on the REAL encoding against the theorem's right-hand side
    (`view rho A tA (canon B tB v)` / `lift rho B tB (canon A tA v)`) as evaluated by the compiled model."""
    inside, why = theorem_domain(model, i, direction)
    ck.hist(suite + '.domain', 'inside' if inside else 'outside:' + ','.join(why))
    if not inside:
        return
    rhs = model[('thm', i)].get('rhs')
    for strict, real in sorted(reals.items()):
        real_t = _tagged(side, real)
        if rhs is not None and real_t[0] == 'ok' and canon(real_t[1]) == canon(rhs):
            ck.agree(suite)
        else:
            ck.disagree(suite, dict(case, strict=strict), list(real_t), rhs)


def _tagged(side, real):
    """('ok', object) -> ('ok', tagged)"""
    if real[0] == 'ok':
        return ('ok', side.codec.to_tagged(real[1]))
    return real


def _same(real_t, mo):
    if real_t[0] != mo[0]:
        return False
    if real_t[0] == 'ok':
        return canon(real_t[1]) == canon(mo[1])
    return True


def judge_forward(ck, P, base, i, w, model):
    A, B = P.A, P.B
    la, v, doc = w['la'], w['value'], w['doc']
    j = tagged_to_json(doc)
    exp = view_py(P, w['irA'], v)
    unknown = msg_unknown(w['irA'], j)
    amb = ambiguous_empty(B, w['irB'], v)
    hot = touches(P, v)
    ck.hist('compat.forward.exercises_edit', hot)
    ck.hist('compat.forward.message_has_unknown', unknown)
    case = dict(base, direction='B->A', typeA=la, typeB=w['lb'], value=v, doc=doc)
    reals = {}
    for strict in (False, True):
        real = reals[strict] = A.decode(la, doc, strict)
        ck.case(('fwd', la, strict, json.dumps(v, sort_keys=True)), nontrivial=hot or unknown)
        ck.hist('compat.forward.outcome', '%s/%s' % ('strict' if strict else 'lenient', real[0]))
        # -- correspondence: model decode of the real encoding; model view; model mentionsUnknown / knownDoc
        mo = model_outcome(model[('decS' if strict else 'decL', i)])
        real_t = _tagged(A, real)
        if _same(real_t, mo):
            ck.agree('compat.dec')
        else:
            ck.disagree('compat.dec', dict(case, strict=strict), list(real_t), list(mo))
        if not strict and real[0] == 'ok' and not amb and not model[('wire', i)].get('normal'):
            ck.stat('compat.view_not_compared.value_not_normalised')
        elif not strict and real[0] == 'ok' and not amb:
            mv = model[('view', i)].get('ok')
            if mv is not None and canon(mv) == canon(real_t[1]):
                ck.agree('compat.view')
            else:
                ck.disagree('compat.view', case, list(real_t), mv)
        if strict and real[0] != 'crash':
            mm = model[('mentions', i)].get('ok')
            mk = model[('known', i)].get('ok')
            if mm == (real[0] == 'verr'):
                ck.agree('compat.mentions')
            else:
                ck.disagree('compat.mentions', case, real[0], mm)
            if mk == (real[0] == 'ok'):
                ck.agree('compat.known')
            else:
                ck.disagree('compat.known', case, real[0], mk)
        # -- direct oracle
        why = None
        if real[0] == 'crash':
            why = ('crash', 'an exception other than the validation error escapes (%s)' % real[1])
        elif not strict:
            if real[0] != 'ok':
                why = ('rejected', 'a message encoded under B is refused by lenient decoding under A')
        else:
            if unknown and real[0] == 'ok':
                why = ('accepts-unknown', 'strict decoding under A accepts a B-message that contains something A does not know')
            elif not unknown and real[0] != 'ok':
                why = ('rejects-known', 'strict decoding under A refuses a B-message that contains nothing A does not know')
        if why is None and real[0] == 'ok':
            if amb:
                ck.stat('compat.not_judged.ambiguous_empty_D7')
            else:
                probs = read_check(A, w['irA'], real[1], exp)
                eq = equals_expected(A, real[1], exp)
                if probs or eq is False:
                    why = ('differs', 'the decoded value is not the A-view of the value: %s' % (probs[:2] or ['== is false'],))
        if why:
            ck.failing_input('C07 B->A (%s): %s' % ('strict' if strict else 'lenient', why[1]),
                             {'kind': 'forward-' + ('strict' if strict else 'lenient'), 'why': why[0]},
                             dict(case, strict=strict, real=[real[0], repr(real[1])[:300]], expected=exp, message_has_unknown=unknown))
    mw = model[('wire', i)]
    if mw.get('valid') and not mw.get('normal'):
        ck.stat('compat.wire_not_compared.value_not_normalised')     # `wire` is specified on normalised values (C05)
    elif mw.get('valid') and mw.get('ok') is not None and canon(mw['ok']) == canon(doc):
        ck.agree('compat.wire')
    else:
        ck.disagree('compat.wire', case, doc, mw)
    # the documented ambiguity, model against the independent reading of json_serializer.rst
    if mw.get('valid'):
        if bool(mw.get('ambiguousEmpty')) == amb:
            ck.agree('compat.ambiguous')
        else:
            ck.disagree('compat.ambiguous', case, amb, mw.get('ambiguousEmpty'))
    # C07.forward_compat: lenient decoding under A of the real encoding under B = view rho A tA (canon B tB v)
    judge_theorem(ck, 'compat.theorem.forward', A, {False: reals[False]}, model, i, 'B->A', case)
    if len(ck.samples) < 5 and hot and unknown:
        ck.sample({'edits': P.script, 'direction': 'B->A', 'type': la, 'message': j, 'A_view': exp})


def judge_backward(ck, P, base, i, w, model):
    A, B = P.A, P.B
    la, lb, v, doc = w['la'], w['lb'], w['value'], w['doc']
    exp = lift_py(P, w['irB'], v)
    vtr = void_to_required(P, w['irA'], v)
    amb = ambiguous_empty(A, w['irA'], v)
    ck.hist('compat.backward.void_to_required', vtr)
    case = dict(base, direction='A->B', typeA=la, typeB=lb, value=v, doc=doc)
    mn = model[('nvr', i)].get('ok')
    if mn == (not vtr):
        ck.agree('compat.nvr')
    else:
        ck.disagree('compat.nvr', case, not vtr, mn)
    # what C07.wire_tight / wire_nvr say, on the REAL encoding: encoder form; nvrDoc = noVoidToRequired of the value
    mt = model[('tight', i)].get('ok')
    if mt is True:
        ck.agree('compat.tight')
    else:
        ck.disagree('compat.tight', case, 'a message written by the encoder', mt)
    md = model[('nvrdoc', i)].get('ok')
    if md == (not vtr):
        ck.agree('compat.nvrdoc')
    else:
        ck.disagree('compat.nvrdoc', case, not vtr, md)
    reals = {}
    for strict in (False, True):
        real = reals[strict] = B.decode(lb, doc, strict)
        ck.case(('bwd', la, strict, json.dumps(v, sort_keys=True)), nontrivial=v[0] in 'SUld')
        ck.hist('compat.backward.outcome', '%s/%s' % ('strict' if strict else 'lenient', real[0]))
        mo = model_outcome(model[('decS' if strict else 'decL', i)])
        real_t = _tagged(B, real)
        if _same(real_t, mo):
            ck.agree('compat.dec')
        else:
            ck.disagree('compat.dec', dict(case, strict=strict), list(real_t), list(mo))
        if real[0] == 'ok' and not vtr and not amb and not model[('wire', i)].get('normal'):
            ck.stat('compat.lift_not_compared.value_not_normalised')
        elif real[0] == 'ok' and not vtr and not amb:
            ml = model[('lift', i)].get('ok')
            if ml is not None and canon(ml) == canon(real_t[1]):
                ck.agree('compat.lift')
            else:
                ck.disagree('compat.lift', case, list(real_t), ml)
        why = None
        if real[0] == 'crash':
            why = ('crash', 'an exception other than the validation error escapes (%s)' % real[1])
        elif vtr:
            ck.stat('compat.not_judged.void_to_required')
        elif real[0] != 'ok':
            why = ('rejected', 'a message encoded under A is refused by decoding under B')
        elif amb:
            ck.stat('compat.not_judged.ambiguous_empty_D7')
        else:
            probs = read_check(B, w['irB'], real[1], exp)
            eq = equals_expected(B, real[1], exp)
            if probs or eq is False:
                why = ('differs', 'the decoded value is not the same value with the new fields at their defaults: %s'
                       % (probs[:2] or ['== is false'],))
        if why:
            ck.failing_input('C07 A->B (%s): %s' % ('strict' if strict else 'lenient', why[1]),
                             {'kind': 'backward', 'why': why[0]},
                             dict(case, strict=strict, real=[real[0], repr(real[1])[:300]], expected=exp))
    mw = model[('wire', i)]
    if mw.get('valid') and not mw.get('normal'):
        ck.stat('compat.wire_not_compared.value_not_normalised')     # `wire` is specified on normalised values (C05)
    elif mw.get('valid') and mw.get('ok') is not None and canon(mw['ok']) == canon(doc):
        ck.agree('compat.wire')
    else:
        ck.disagree('compat.wire', case, doc, mw)
    if mw.get('valid'):
        if bool(mw.get('ambiguousEmpty')) == amb:
            ck.agree('compat.ambiguous')
        else:
            ck.disagree('compat.ambiguous', case, amb, mw.get('ambiguousEmpty'))
    # C07.backward_compat: decoding under B (both modes) of the real encoding under A = lift rho B tB (canon A tA v)
    judge_theorem(ck, 'compat.theorem.backward', B, reals, model, i, 'A->B', case)


def build_pair(ck, specsA, specsB, renames, hot, script, touched=()):
    try:
        P = Pair(ck, specsA, specsB, renames, hot, script)
    except Exception as e:  # noqa: BLE001 - a pair the real toolchain cannot build is dropped and counted
        ck.stat('compat.pair_not_buildable')
        ck.hist('compat.not_buildable', '%s: %s' % (type(e).__name__, str(e)[:60]))
        return None
    P.hot_refs = hot_refs_of(P, hot, touched)
    return P


def suite_pairs(ck, n_pairs, n_types, n_values):
    P = build_pair(ck, [('ca.stone', HAND_A)], [('ca.stone', HAND_B)], HAND_RENAMES, HAND_HOT,
                   [{'edit': 'hand-written pair: every edit kind'}])
    if P is None:
        raise RuntimeError('the hand-written pair does not build')
    run_pair(ck, P, 20, max(n_values, 20))
    done = 0
    attempts = 0
    while done < n_pairs and attempts < n_pairs * 3:
        attempts += 1
        A, B, ed = gen_pair(ck.rng)
        if not ed.script:
            ck.stat('compat.no_edit_applicable')
            continue
        hot = dict(fields=ed.hot_fields, tags=ed.hot_tags, typed=ed.hot_typed, leaves=ed.hot_leaves)
        P = build_pair(ck, specgen.render(A, None), specgen.render(B, None), ed.renames, hot, ed.script, ed.touched)
        if P is None:
            continue
        done += 1
        for e in ed.script:
            ck.hist('compat.edit', e['edit'])
            for r in e.get('roles', ()):
                ck.hist('compat.edit_site_role', r)
        ck.hist('compat.edits_per_pair', len(ed.script))
        run_pair(ck, P, n_types, n_values)
    ck.hist('compat.pairs', done)


RULE = ('pairs (A, B): A a generated spec (preset rt, no examples / docs), B = A + 1-4 edits drawn from {add optional or defaulted '
        'field, add tag to an open union, give a Void tag a type, add a subtype under a catch-all root, add a route, rename a '
        'type, introduce / inline an alias}, sites weighted towards structs / unions reached through nesting (union member, list '
        'element, map value, parent, subtype); both compiled, generated and imported by the real toolchain; top-level types that '
        'reach an edited class x valid values of B steered into the edited sites (B->A) and valid values of A (A->B) x '
        '{strict, lenient}; plus one hand-written pair with every edit kind')


def replay(ck, path):
    rec = json.load(open(path))
    case = rec.get('case', {})
    print(json.dumps({k: case[k] for k in case if k not in ('specsA', 'specsB')}, indent=1, default=repr)[:4000])
    if 'specsA' not in case:
        print('replay: nothing executable recorded (%s)' % rec.get('what', rec.get('broken')))
        return 0
    ck.build()
    renames = {}
    for a, b in case.get('rho', []):
        if a != b:
            renames[tuple(a.split('.', 1))] = b.split('.', 1)[1]
    P = Pair(ck, [tuple(s) for s in case['specsA']], [tuple(s) for s in case['specsB']], renames, {}, case.get('edits', []))
    P.hot_refs = set()
    strict = case.get('strict', False)
    if case.get('direction') == 'B->A':
        obj = P.B.codec.to_py(case['value'])
        enc = P.B.encode(case['typeB'], obj)
        print('encoded under B  :', enc[0], json.dumps(tagged_to_json(enc[1])) if enc[0] == 'ok' else enc[1])
        if enc[0] == 'ok':
            real = P.A.decode(case['typeA'], enc[1], strict)
            print('decoded under A  :', _tagged(P.A, real), '(strict=%s)' % strict)
            print('A-view expected  :', view_py(P, P.A.types[case['typeA']], case['value']))
            print('message has unknown:', msg_unknown(P.A.types[case['typeA']], tagged_to_json(enc[1])))
    else:
        obj = P.A.codec.to_py(case['value'])
        enc = P.A.encode(case['typeA'], obj)
        print('encoded under A  :', enc[0], json.dumps(tagged_to_json(enc[1])) if enc[0] == 'ok' else enc[1])
        if enc[0] == 'ok':
            real = P.B.decode(case['typeB'], enc[1], strict)
            print('decoded under B  :', _tagged(P.B, real), '(strict=%s)' % strict)
            print('lift expected    :', lift_py(P, P.B.types[case['typeB']], case['value']))
    return 0
