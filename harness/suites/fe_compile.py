"""Suite `comp.compile` (property C02): the Lean model of the core of the IR generator (Model/FeCompile.lean) against
the real `IRGenerator`, plus direct oracles on the real objects.

  correspondence  spec texts (generated models of harness/specgen.py, their one-violation injections of
                  harness/inject.py, hand-written seeds for every modelled error site) are parsed with the REAL parser;
                  the partial ASTs -- what `IRGenerator` is constructed with -- are reduced to the model's input (docs,
                  examples dropped; route attributes kept with their values, and the external calls their value tests may make answered in tables, `attr_tables`) and sent to `comp.compile`; the same texts go through the real `specs_to_ir`; the Api is dumped
                  to the model's output format (types with parent / members / catch-all, aliases, routes with their three
                  types and deprecation, enumerated subtypes; every type expression in full, arguments included).
                  ok-vs-ok: the two dumps must be equal.  error-vs-error: the kind of the real `InvalidSpec` (message
                  template table `TEMPLATES`) must be the model's kind -- only when the real message is one of a
                  modelled site; other messages are counted as not judged.  ok-vs-error either way is a disagreement
                  unless the real error is of an unmodelled rule.
  direct oracles  independent of Lean: (a) `faithful.judge_invariants` (closure, acyclic parents / aliases, ...) on the
                  real Api; (b) `judge_members`: every declared struct / union of the parsed AST has, in the real Api,
                  exactly its declared members in declaration order, each with the declared type expression (read off
                  the real objects), plus only the implicit `other`; the declared parent; aliases their declared target;
                  every route its declared types, deprecation and attribute dictionary (`_attrs_problem`: one entry
                  per field of stone_cfg.Route, the declared value, else the default, else None).

Specs with features outside the model's input (patches, a type passed by keyword, mixed literal / type positional
arguments) are counted (`comp.skipped.*`) and skipped.
"""
import json
import os
import re

from harness import core
from harness.suites import faithful, layout

SPEC_DIR = os.path.join(core.VERIF, 'harness', 'specs')


# ------------------------------------------------------------------------------------------------ text -> model input

class Unmodelled(Exception):
    pass


def _parse(files):
    """-> [partial_ast] as `specs_to_ir` hands them to IRGenerator, or None when the parser reports errors"""
    core.ensure_repo_on_path()
    out = []
    for path, text in files:
        pf = layout._SharedFactory()
        parser = pf.get_parser()
        ast = parser.parse(text, path)
        if parser.got_errors_parsing():
            return None
        if ast:
            out.append(ast)
    return out


def _enc_float(x):
    if x != x:
        raise Unmodelled('nan')
    if x in (float('inf'), float('-inf')):
        return {'float': 'inf' if x > 0 else '-inf'}
    n, d = x.as_integer_ratio()
    return {'float': [str(n), str(d)]}


def _lit(v, rx):
    if v is True or v is False:
        return {'bool': v}
    if isinstance(v, int):
        return {'int': str(v)}
    if isinstance(v, float):
        return _enc_float(v)
    if isinstance(v, str):
        try:
            re.compile(v)
            rx[v] = True
        except (re.error, OverflowError, RecursionError):
            rx[v] = False
        return {'str': v}
    return {'null': True}


def _aval(v):
    """the value of a route attribute in the driver's encoding"""
    import struct
    from stone.frontend import ast as A
    if v is None:
        return ['n']
    if v is True or v is False:
        return ['b', v]
    if isinstance(v, int):
        return ['i', str(v)]
    if isinstance(v, float):
        return ['f', str(struct.unpack('<Q', struct.pack('<d', v))[0])]
    if isinstance(v, str):
        return ['s', v]
    if isinstance(v, A.AstTagRef):
        return ['T', v.tag]
    raise Unmodelled('attr-value:' + type(v).__name__)


def attr_tables(jfiles):
    """-> (ext, cext): the external calls `IrCheck.check` may make for the values of the route attributes of `jfiles`,
    answered with the reference libraries (format of `decl.ircheck.*`): `float(n)`, `float(n) == n` for every integer
    value; the whole-pattern match and `strptime` for every string value against every string literal that is an
    argument of a type reference (the patterns and the formats are among them)"""
    import datetime
    import struct
    ints, strs, lits = set(), set(), set()

    def walk(j):
        if isinstance(j, dict):
            if 'name' in j and 'pos' in j and 'kw' in j:
                for a in j['pos']:
                    if isinstance(a, dict) and 'str' in a:
                        lits.add(a['str'])
                for _k, a in j['kw']:
                    if isinstance(a, dict) and 'str' in a:
                        lits.add(a['str'])
            for x in j.values():
                walk(x)
        elif isinstance(j, list):
            for x in j:
                walk(x)
    walk(jfiles)
    for f in jfiles:
        for d in f['decls']:
            for _n, v in d.get('attrs', []) if d['k'] == 'route' else []:
                if v[0] == 'i':
                    ints.add(int(v[1]))
                elif v[0] == 's':
                    strs.add(v[1])
    if not ints and not strs:
        return None, None
    conv, exact = [], []
    for n in sorted(ints):
        try:
            x = float(n)
            conv.append([n, struct.unpack('<Q', struct.pack('<d', x))[0]])
            exact.append([n, x == n])
        except OverflowError:
            conv.append([n, None])
            exact.append([n, False])
    pat, tm = [], []
    for p in sorted(lits):
        try:
            anchored = re.compile(r'\A(?:' + p + r')\Z')
        except (re.error, OverflowError, RecursionError):
            anchored = None
        for t in sorted(strs):
            if anchored is not None:
                pat.append([p, t, bool(anchored.match(t))])
            try:
                datetime.datetime.strptime(t, p)
                tm.append([p, t, True])
            except (ValueError, re.error):
                tm.append([p, t, False])
    return {'fltOfInt': conv, 'pat': pat}, {'intExact': exact, 'strptimeOk': tm}


def _ref(r, rx):
    from stone.frontend.ast import AstTypeRef
    pos, kw = r.args
    jpos = []
    for a in pos:
        jpos.append({'ref': _ref(a, rx)} if isinstance(a, AstTypeRef) else _lit(a, rx))
    jkw = []
    for k, a in kw.items():
        if isinstance(a, AstTypeRef):
            raise Unmodelled('type-by-keyword')
        jkw.append([k, _lit(a, rx)])
    nref = sum(1 for a in jpos if 'ref' in a)
    if nref and (nref != len(jpos) or nref > 2):
        raise Unmodelled('mixed-positional')
    return {'ns': r.ns, 'name': r.name, 'pos': jpos, 'kw': jkw, 'nullable': bool(r.nullable)}


def _annots(node):
    return [[a.ns, a.annotation] for a in (getattr(node, 'annotations', None) or [])]


def _field(f, rx):
    from stone.frontend.ast import AstVoidField
    if isinstance(f, AstVoidField):
        return {'name': f.name, 'ty': None, 'has_default': False, 'annots': _annots(f)}
    return {'name': f.name, 'ty': _ref(f.type_ref, rx), 'has_default': bool(f.has_default), 'annots': _annots(f)}


ANNOT_KINDS = {'Deprecated': 'deprecated', 'Omitted': 'omitted', 'Preview': 'preview', 'RedactedBlot': 'redacted',
               'RedactedHash': 'redacted'}


def to_ast(partial_asts):
    """the model's input for the partial ASTs of the real parser -> (files, rx pairs, flags); raises Unmodelled.
    flag `annot-type-params`: `_create_annotation_type` (not modelled) resolves its parameter types with the same
    `_resolve_type`, during registration: its messages are those of a modelled site raised at an unmodelled one;
    flags `('attr-line', path, lineno)`: where route attributes are set (the messages of `<Type>.check` are those of
    the value of a route attribute only when they point there: defaults of fields raise the same ones)"""
    from stone.frontend import ast as A
    rx = {}
    out = []
    flags = set()
    for desc in partial_asts:
        if not desc or not isinstance(desc[0], A.AstNamespace):
            raise Unmodelled('no-namespace-first')
        decls = []
        for item in desc[1:]:
            if isinstance(item, A.AstNamespace):
                raise Unmodelled('second-namespace')
            if isinstance(item, A.AstStructDef):
                sub = None
                if item.subtypes:
                    tags, catch_all = item.subtypes
                    sub = {'tags': [[t.name, _ref(t.type_ref, rx)] for t in tags], 'catch_all': bool(catch_all)}
                decls.append({'k': 'struct', 'name': item.name,
                              'extends': _ref(item.extends, rx) if item.extends else None,
                              'fields': [_field(f, rx) for f in item.fields], 'subtypes': sub})
            elif isinstance(item, A.AstUnionDef):
                decls.append({'k': 'union', 'name': item.name, 'closed': bool(item.closed),
                              'extends': _ref(item.extends, rx) if item.extends else None,
                              'fields': [_field(f, rx) for f in item.fields]})
            elif isinstance(item, (A.AstStructPatch, A.AstUnionPatch)):
                is_struct = isinstance(item, A.AstStructPatch)
                decls.append({'k': 'patch', 'name': item.name, 'struct': is_struct,
                              'closed': False if is_struct else bool(item.closed),
                              'fields': [_field(f, rx) for f in item.fields]})
            elif isinstance(item, A.AstAlias):
                decls.append({'k': 'alias', 'name': item.name, 'ref': _ref(item.type_ref, rx)})
                if _annots(item):
                    decls.append({'k': 'alias_annots', 'name': item.name, 'annots': _annots(item)})
            elif isinstance(item, A.AstRouteDef):
                dep = None
                if item.deprecated:
                    dep = {'by': [item.deprecated[1], item.deprecated[2]] if item.deprecated[1] else None}
                decls.append({'k': 'route', 'name': item.name, 'version': item.version,
                              'arg': _ref(item.arg_type_ref, rx), 'result': _ref(item.result_type_ref, rx),
                              'error': _ref(item.error_type_ref, rx) if item.error_type_ref is not None else None,
                              'deprecated': dep, 'attrs': [[a.name, _aval(a.value)] for a in (item.attrs or [])]})
                for a in (item.attrs or []):
                    flags.add(('attr-line', a.path, a.lineno))
            elif isinstance(item, A.AstImport):
                decls.append({'k': 'import', 'target': item.target})
            elif isinstance(item, A.AstAnnotationDef):
                builtin = item.annotation_type_ns is None and item.annotation_type in ANNOT_KINDS
                decls.append({'k': 'annot', 'name': item.name,
                              'kind': ANNOT_KINDS[item.annotation_type] if builtin else 'custom'})
            elif isinstance(item, A.AstAnnotationTypeDef):
                decls.append({'k': 'annot_type', 'name': item.name})
                if item.params:
                    flags.add('annot-type-params')
            else:
                raise Unmodelled('node:' + type(item).__name__)
        out.append({'ns': desc[0].name, 'decls': decls})
    return out, [[k, v] for k, v in rx.items()], flags


# ------------------------------------------------------------------------------------------------ real Api -> dump

def dump_ty(t):
    from stone.ir import data_types as dt
    from harness.suites import fe_rules
    if isinstance(t, dt.Nullable):
        return {'k': 'Nullable', 'of': dump_ty(t.data_type)}
    if isinstance(t, dt.Alias):
        return {'k': 'alias', 'ref': [t.namespace.name, t.name]}
    if isinstance(t, (dt.Struct, dt.Union)):
        return {'k': 'user', 'ref': [t.namespace.name, t.name]}
    if isinstance(t, dt.List):
        return {'k': 'List', 'elem': dump_ty(t.data_type), 'min': fe_rules._dump_len(t.min_items),
                'max': fe_rules._dump_len(t.max_items)}
    if isinstance(t, dt.Map):
        return {'k': 'Map', 'key': dump_ty(t.key_data_type), 'val': dump_ty(t.value_data_type)}
    return fe_rules.dump_ir_type(t)


def _key(t):
    return None if t is None else [t.namespace.name, t.name]


def dump_api(api, names):
    """the real Api in the canonical form of `canon` (namespaces `names` = those of the spec files)"""
    from stone.ir import data_types as dt
    out = {}
    for n in names:
        ns = api.namespaces[n]
        types = {}
        enums = {}
        for d in ns.data_types:
            is_struct = isinstance(d, dt.Struct)
            types[d.name] = {
                'struct': is_struct, 'closed': bool(getattr(d, 'closed', False)), 'parent': _key(d.parent_type),
                'catch_all': (not is_struct) and d.catch_all_field is not None,
                'fields': [[f.name, dump_ty(f.data_type), bool(getattr(f, 'has_default', False))] for f in d.fields]}
            if is_struct and d.has_enumerated_subtypes():
                enums[d.name] = {'tags': [[f.name, _key(f.data_type)] for f in d.get_enumerated_subtypes()],
                                 'catch_all': bool(d.is_catch_all())}
        routes = {}
        for r in ns.routes:
            dep = None
            if r.deprecated is not None:
                dep = {'by': [r.deprecated.by.name, r.deprecated.by.version] if r.deprecated.by is not None else None}
            routes['%s:%d' % (r.name, r.version)] = {'arg': dump_ty(r.arg_data_type), 'result': dump_ty(r.result_data_type),
                                                     'error': dump_ty(r.error_data_type), 'deprecated': dep}
        out[n] = {'types': types, 'aliases': {a.name: dump_ty(a.data_type) for a in ns.aliases}, 'routes': routes,
                  'enums': enums}
    return out


def canon(api_json):
    """the driver's Api reply in the same canonical form (order of definitions is `normalize`'s subject, not compared)"""
    out = {}
    for n in api_json['nss']:
        out[n['name']] = {
            'types': {k: v for k, v in n['types']},
            'aliases': {k: v for k, v in n['aliases']},
            'routes': {'%s:%d' % (r['name'], r['version']): {'arg': r['arg'], 'result': r['result'], 'error': r['error'],
                                                             'deprecated': r['deprecated']} for r in n['routes']},
            'enums': {k: v for k, v in n['enums']}}
    return out


def first_diff(a, b, path=''):
    if type(a) != type(b):
        return path, a, b
    if isinstance(a, dict):
        for k in sorted(set(a) | set(b)):
            if k not in a or k not in b:
                return '%s/%s' % (path, k), a.get(k, '<absent>'), b.get(k, '<absent>')
            d = first_diff(a[k], b[k], '%s/%s' % (path, k))
            if d:
                return d
        return None
    if isinstance(a, list):
        if len(a) != len(b):
            return path + '/#len', a, b
        for i, (x, y) in enumerate(zip(a, b)):
            d = first_diff(x, y, '%s/%d' % (path, i))
            if d:
                return d
        return None
    return None if a == b else (path, a, b)


# ------------------------------------------------------------------------------------------------ error kinds

Q = r"'.*'"
TEMPLATES = [
    (r"Symbol %s already defined \(" % Q, 'symbolDefined'),
    (r"Route %s at version -?\d+ already defined" % Q, 'routeVersionDefined'),
    (r"Name of .* conflicts with name of", 'nameConflict'),
    (r"Cannot redefine built-in annotation type", 'builtinAnnotation'),
    (r"Patch %s must correspond to a pre-existing data_type\." % Q, 'patchNoTarget'),
    (r"Type mismatch\. Patch %s corresponds to" % Q, 'patchMismatch'),
    (r"Patched field %s overrides pre-existing field" % Q, 'patchFieldClash'),
    (r"Cannot import current namespace\.", 'importSelf'),
    (r"Namespace %s is not defined in any spec\." % Q, 'importUndefined'),
    (r"Circular import of namespaces", 'importCircular'),
    (r"Namespace %s is not imported" % Q, 'nsNotImported'),
    (r"%s is not a namespace\." % Q, 'notNamespace'),
    (r"Symbol %s is undefined\." % Q, 'undefinedSymbol'),
    (r"Void cannot be marked nullable\.", 'voidNullable'),
    (r"A route cannot be referenced here\.", 'routeRef'),
    (r"%s is not a data type\." % Q, 'notDataType'),
    (r"Attributes cannot be specified for instantiated type", 'attrsOnUser'),
    (r"Missing positional argument", 'params.missingPositional'),
    (r"Too many positional arguments for", 'params.tooManyPositional'),
    (r"Unknown argument %s to %s type\." % (Q, Q), 'params.unknownKeyword'),
    (r"Positional argument %s cannot be specified as a keyword argument\." % Q, 'params.positionalAsKeyword'),
    (r"Bad argument to %s type:" % Q, 'params.badArgument'),
    (r"Unresolvable circular reference for type", 'circular'),
    (r"Cannot mark reference to nullable type as nullable\.", 'nullableNullable'),
    (r"A (struct|union) cannot extend an alias\.", 'extendsAlias'),
    (r"A (struct|union) cannot extend a nullable type\.", 'extendsNullable'),
    (r"A struct can only extend another struct", 'extendsNonStruct'),
    (r"A union can only extend another union", 'extendsNonUnion'),
    (r"Struct field %s cannot have a Void type\." % Q, 'voidField'),
    (r"Field %s cannot be a nullable type and have a default specified\." % Q, 'nullableDefault'),
    (r"Union cannot define an 'other' field", 'otherReserved'),
    (r"Union member %s cannot have Void type explicit" % Q, 'voidExplicit'),
    (r"Union cannot be closed since parent type", 'closedExtendsOpen'),
    (r"Field %s already defined on line" % Q, 'dupField'),
    (r"Field %s already defined in parent %s on line" % (Q, Q), 'parentField'),
    (r"Alias %s is part of a cycle\." % Q, 'aliasCycle'),
    (r"Field %s cannot have a default: only fields of" % Q, 'defaultNotAllowed'),
    (r"Undefined type %s\." % Q, 'undefinedSubtype'),
    (r"Enumerated subtype %s must be a struct\." % Q, 'subtypeNotStruct'),
    (r"%s enumerates subtypes so it cannot extend another struct\." % Q, 'enumExtends'),
    (r"Subtype %s can only be specified once\." % Q, 'subtypeTwice'),
    (r"%s is not a subtype of %s\." % (Q, Q), 'notSubtype'),
    (r"%s does not enumerate all subtypes, missing" % Q, 'missingSubtype'),
    (r"Subtype %s cannot be extended\." % Q, 'subtypeExtended'),
    (r"Annotation %s does not exist\." % Q, 'annotNotExist'),
    (r"Annotation .* not recognized for field\.", 'annotNotRecognized'),
    (r"Aliases only support 'Redacted' and custom annotations", 'aliasAnnotUnsupported'),
    (r"Deprecated value already set", 'deprecatedTwice'),
    (r"Omitted caller already set", 'omittedTwice'),
    (r"Preview value already set", 'previewTwice'),
    (r"Redactor already set as", 'redactorTwice'),
    (r"'Deprecated' and 'Preview' can't both be set\.", 'deprecatedPreview'),
    (r"Redactors can only be applied to alias definitions", 'redactorOnAliasRef'),
    (r"A redactor has already been defined for", 'redactorAlready'),
    (r"Redactors can't be applied to user-defined or void types\.", 'redactorOnUser'),
    (r"Route %s must specify three data types" % Q, 'routeTwoTypes'),
    (r"Undefined route %s at version" % Q, 'undefinedRoute'),
    (r"%s must be a route\." % Q, 'notRoute'),
    (r"No routes can be defined in the stone_cfg namespace\.", 'cfgRoutes'),
    (r"Only a struct named 'Route' can be defined in the stone_cfg namespace\.", 'cfgNotRoute'),
    (r"Route attribute %s is not defined in 'stone_cfg\.Route'\." % Q, 'attrUnknown'),
    (r"Route does not define attr key %s\." % Q, 'attrMissing'),
    (r"Route attribute %s cannot be set: only attributes of" % Q, 'attrNotSettable'),
]
# the messages of `<Type>.check` / `<Type>.check_attr_repr`: the value of a route attribute, when raised at one
VALUE_TEMPLATES = [
    r"void type can only be null", r".* is not valid bytes", r"boolean is not a valid (integer|real number)",
    r".* is not a valid (integer|real number|boolean|string|union tag)", r"-?\d+ is not within range",
    r"-?\d+ is (less|greater) than -?\d+", r".* is too large for float", r".* cannot be represented as a float exactly",
    r".* values are not supported", r"-?[\d.]+ is (less|greater) than -?[\d.]+", r"'.*' has (more|fewer) than \d+ character",
    r"'.*' did not match pattern", r"timestamp must be specified as a string", r"time data .* does not match format",
    r"unconverted data remains", r"Expected union tag as value\.", r"invalid reference to (non-void option|unknown tag)",
]
_VALUE_TEMPLATES = [re.compile(p, re.S) for p in VALUE_TEMPLATES]
_TEMPLATES = [(re.compile(p, re.S), k) for p, k in TEMPLATES]

# error kinds of the annotation stage (Field/Alias.set_annotations, _resolve_annotation_type, _validate_annotations)
ANNOT_STAGE_KINDS = {'annotNotExist', 'annotNotRecognized', 'aliasAnnotUnsupported', 'deprecatedTwice', 'omittedTwice',
                     'previewTwice', 'redactorTwice', 'deprecatedPreview', 'redactorOnAliasRef', 'redactorAlready',
                     'redactorOnUser'}
# error kinds of the route-attribute stage (_validate_stone_cfg, Struct / StructField.check_attr_repr)
ATTR_STAGE_KINDS = {'cfgRoutes', 'cfgNotRoute', 'attrNotSettable', 'attrValue', 'attrMissing', 'attrUnknown'}

# the model's recursion bounds / impossible states: never a verdict
NO_VERDICT = ('outOfFuel', 'fuelAlias', 'fuelAncestors', 'fuelImports', 'internal')

# one message template for two sites: the tag of an enumerated subtype that repeats a field name / an earlier tag
SAME_MESSAGE = {'tagFieldClash': 'dupField'}

# messages that an unmodelled site raises too (annotations applied to members resolve `ns.Annotation` the same way)
AMBIGUOUS = {'nsNotImported', 'notNamespace'}
# the kinds `_resolve_type` raises: ambiguous when an annotation type has parameters (see `to_ast`)
RESOLVE_KINDS = {'nsNotImported', 'notNamespace', 'undefinedSymbol', 'voidNullable', 'routeRef', 'notDataType', 'attrsOnUser',
                 'params.missingPositional', 'params.tooManyPositional', 'params.unknownKeyword',
                 'params.positionalAsKeyword', 'params.badArgument', 'circular', 'nullableNullable'}


def kind_of_message(msg, st=None, flags=()):
    for rxp, k in _TEMPLATES:
        if rxp.match(msg):
            return k
    if st is not None and len(st) >= 4 and ('attr-line', st[3], st[2]) in flags:
        for rxp in _VALUE_TEMPLATES:
            if rxp.match(msg):
                return 'attrValue'
    return None


def compile_real(files, limit_s=20, fast=True):
    """`faithful.compile_guarded` (the shared fast path of `layout.compile_files`) that also says where an
    `InvalidSpec` points: -> ('ok', api) | ('invalid', msg, lineno, path) | ('crash', exception type name)"""
    import contextlib
    import io
    import signal
    core.ensure_repo_on_path()
    from stone.frontend import frontend
    from stone.frontend.exception import InvalidSpec
    old = signal.signal(signal.SIGALRM, faithful._alarm)
    signal.alarm(limit_s)
    real = frontend.ParserFactory
    if fast:
        frontend.ParserFactory = layout._SharedFactory
    try:
        with contextlib.redirect_stdout(io.StringIO()), contextlib.redirect_stderr(io.StringIO()):
            api = frontend.specs_to_ir([(p, t) for p, t in files])
    except InvalidSpec as e:
        return ('invalid', '%s' % (e.msg,), e.lineno, e.path)
    except faithful._Timeout:
        return ('crash', 'Timeout')
    except RecursionError:
        return ('crash', 'RecursionError')
    except Exception as e:                       # noqa: BLE001 -- C03 judges escapes
        return ('crash', type(e).__name__)
    finally:
        signal.alarm(0)
        signal.signal(signal.SIGALRM, old)
        frontend.ParserFactory = real
    if api is None:
        return ('invalid', 'parse errors', None, None)
    return ('ok', api)


# ------------------------------------------------------------------------------------------------ direct oracle (b)

def _expr_problem(ref, t, ens):
    """does the real type object `t` spell the declared expression `ref` (an AstTypeRef read in namespace `ens`)?
    -> None or a short description"""
    from stone.ir import data_types as dt
    from stone.frontend.ast import AstTypeRef
    if ref.nullable:
        if not isinstance(t, dt.Nullable):
            return 'declared nullable, the Api has %s' % type(t).__name__
        t = t.data_type
    elif isinstance(t, dt.Nullable):
        return 'declared without `?`, the Api has Nullable'
    home = ref.ns or ens
    pos, kw = ref.args
    if isinstance(t, (dt.Struct, dt.Union, dt.Alias)):
        if t.name != ref.name or t.namespace.name != home:
            return 'declared %s.%s, the Api refers to %s.%s' % (home, ref.name, t.namespace.name, t.name)
        return None
    if type(t).__name__ != ref.name:
        return 'declared %s, the Api has %s' % (ref.name, type(t).__name__)
    if isinstance(t, dt.List):
        if len(pos) != 1 or not isinstance(pos[0], AstTypeRef):
            return 'List without an element type'
        for k, attr in (('min_items', t.min_items), ('max_items', t.max_items)):
            if kw.get(k) != attr:
                return 'List %s declared %r, the Api has %r' % (k, kw.get(k), attr)
        return _expr_problem(pos[0], t.data_type, home)
    if isinstance(t, dt.Map):
        if len(pos) != 2 or not all(isinstance(a, AstTypeRef) for a in pos):
            return 'Map without key / value type'
        return _expr_problem(pos[0], t.key_data_type, home) or _expr_problem(pos[1], t.value_data_type, home)
    for k, v in kw.items():
        attr = {'min_value': 'min_value', 'max_value': 'max_value', 'min_length': 'min_length', 'max_length': 'max_length',
                'pattern': 'pattern'}.get(k)
        if attr is None or not hasattr(t, attr):
            return 'argument %s has no place in %s' % (k, type(t).__name__)
        have = getattr(t, attr)
        if have != v and not (isinstance(v, (int, float)) and isinstance(have, (int, float)) and float(v) == float(have)):
            return '%s %s declared %r, the Api has %r' % (type(t).__name__, k, v, have)
    if isinstance(t, dt.Timestamp) and (len(pos) != 1 or pos[0] != t.format):
        return 'Timestamp format declared %r, the Api has %r' % (pos, t.format)
    return None


def _attrs_problem(item, route, schema):
    """`route.attrs` of the real Api against the `attrs` section of the parsed route `item` and the schema
    `stone_cfg.Route`: one entry per field of the schema (inherited ones included); the declared value where one is
    given (a tag reference for a union, the encoded text for Bytes, the parsed time for a Timestamp), otherwise the
    default of the field, otherwise None"""
    import datetime
    from stone.frontend import ast as A
    from stone.ir import data_types as dt
    if schema is None:
        return 'the Api has no route schema'
    fields = list(schema.all_fields)
    names = [f.name for f in fields]
    if sorted(route.attrs) != sorted(names):
        return 'keys %r, the schema has %r' % (sorted(route.attrs), sorted(names))
    given = {a.name: a.value for a in (item.attrs or [])}
    for f in fields:
        have = route.attrs[f.name]
        g = given.get(f.name)
        if g is None:
            want = f.default if f.has_default else None
            if not (have is want or (have == want and type(have) is type(want))):
                return '%s: not set, the Api has %r instead of %r' % (f.name, have, want)
            continue
        t, _n, _a = dt.unwrap(f.data_type)
        if isinstance(g, A.AstTagRef):
            ok = isinstance(have, dt.TagRef) and have.tag_name == g.tag and have.union_data_type is t
        elif isinstance(t, dt.Bytes):
            ok = have == g.encode('utf-8')
        elif isinstance(t, dt.Timestamp):
            ok = have == datetime.datetime.strptime(g, t.format)
        else:
            ok = have == g and type(have) is type(g)
        if not ok:
            return '%s: declared %r, the Api has %r' % (f.name, g, have)
    return None


def judge_members(partial_asts, api):
    """-> [(what, signature, detail)]: declared members / parents / alias targets vs the real objects"""
    from stone.frontend import ast as A
    from stone.ir import data_types as dt
    P = []

    def bad(problem, what, detail, **sig):
        s = {'kind': 'members', 'problem': problem}
        s.update(sig)
        P.append(('C02: ' + what, s, detail))

    def canon(name, ns):
        return name.replace('_', '').replace('/', '').lower() + '/' + ns.replace('_', '').lower()

    patched = {}            # canonical name -> members added by patches, in file / declaration order
    for desc in partial_asts:
        for item in desc[1:]:
            if isinstance(item, (A.AstStructPatch, A.AstUnionPatch)):
                patched.setdefault(canon(item.name, desc[0].name), []).extend(item.fields)
    declared = {}
    for desc in partial_asts:
        nsn = desc[0].name
        for item in desc[1:]:
            if isinstance(item, A.AstTypeDef):
                declared.setdefault(nsn, []).append(item)
            elif isinstance(item, (A.AstAlias, A.AstRouteDef)):
                declared.setdefault(nsn, []).append(item)
    for nsn, items in declared.items():
        if nsn == 'stone_cfg':
            continue            # the route schema: taken out of `api.namespaces` by the route pass
        ns = api.namespaces.get(nsn)
        if ns is None:
            bad('namespace-missing', 'a namespace of the spec files is not in the Api', {'namespace': nsn})
            continue
        want = sorted(i.name for i in items if isinstance(i, A.AstTypeDef))
        have = sorted(d.name for d in ns.data_types)
        if want != have:
            bad('type-set', 'the data types of a namespace are not the declared ones',
                {'namespace': nsn, 'declared': want, 'api': have})
        want = sorted(i.name for i in items if isinstance(i, A.AstAlias))
        have = sorted(a.name for a in ns.aliases)
        if want != have:
            bad('alias-set', 'the aliases of a namespace are not the declared ones',
                {'namespace': nsn, 'declared': want, 'api': have})
        want = sorted((i.name, i.version) for i in items if isinstance(i, A.AstRouteDef))
        have = sorted((r.name, r.version) for r in ns.routes)
        if want != have:
            bad('route-set', 'the routes of a namespace are not the declared ones',
                {'namespace': nsn, 'declared': want, 'api': have})
        for item in items:
            if isinstance(item, A.AstRouteDef):
                r = [x for x in ns.routes if x.name == item.name and x.version == item.version]
                if len(r) != 1:
                    continue
                r = r[0]
                for part, ref, t in (('arg', item.arg_type_ref, r.arg_data_type), ('result', item.result_type_ref, r.result_data_type),
                                     ('error', item.error_type_ref, r.error_data_type)):
                    p = _expr_problem(ref, t, nsn) if ref is not None else None
                    if p:
                        bad('route-type', 'a route does not have its declared %s type' % part,
                            {'route': '%s.%s:%d' % (nsn, item.name, item.version), 'problem': p}, part=part)
                dep = item.deprecated
                want_dep = None if not dep else ('deprecated', dep[1], dep[2])
                have_dep = None if r.deprecated is None else (
                    'deprecated', None if r.deprecated.by is None else r.deprecated.by.name,
                    None if r.deprecated.by is None else r.deprecated.by.version)
                if want_dep != have_dep:
                    bad('route-deprecated', 'the deprecation of a route is not the declared one',
                        {'route': '%s.%s:%d' % (nsn, item.name, item.version), 'declared': want_dep, 'api': have_dep})
                p = _attrs_problem(item, r, api.route_schema)
                if p:
                    bad('route-attrs', 'the attributes of a route are not the declared values, the defaults and null',
                        {'route': '%s.%s:%d' % (nsn, item.name, item.version), 'problem': p})
                continue
            if isinstance(item, A.AstAlias):
                a = ns.alias_by_name.get(item.name)
                if a is None:
                    continue
                p = _expr_problem(item.type_ref, a.data_type, nsn)
                if p:
                    bad('alias-target', 'an alias does not have its declared target',
                        {'alias': '%s.%s' % (nsn, item.name), 'problem': p})
                continue
            d = ns.data_type_by_name.get(item.name)
            if d is None:
                continue
            me = '%s.%s' % (nsn, item.name)
            is_union = isinstance(item, A.AstUnionDef)
            if isinstance(d, dt.Union) != is_union:
                bad('kind', 'a declared struct is a union in the Api or the reverse', {'type': me})
                continue
            # specs_to_ir appended the patch members to item.fields of ITS OWN parse; `partial_asts` is a second parse
            decl_fields = list(item.fields) + patched.get(canon(item.name, nsn), [])
            names = [f.name for f in decl_fields]
            have = [f.name for f in d.fields]
            implicit = []
            if is_union and not item.closed and (d.parent_type is None or d.parent_type.closed):
                implicit = ['other']
            if have != names + implicit:
                bad('member-list', 'the members of a type are not the declared ones in declaration order (plus only '
                    'the implicit `other` of an open union that inherits none)',
                    {'type': me, 'declared': names, 'implicit': implicit, 'api': have}, of='union' if is_union else 'struct')
                continue
            for af, f in zip(decl_fields, d.fields):
                if isinstance(af, A.AstVoidField):
                    if not isinstance(f.data_type, dt.Void):
                        bad('member-type', 'a tag declared without a type is not Void in the Api',
                            {'type': me, 'member': af.name})
                    continue
                p = _expr_problem(af.type_ref, f.data_type, nsn)
                if p:
                    bad('member-type', 'a member does not have its declared type expression',
                        {'type': me, 'member': af.name, 'problem': p})
            if implicit and not (isinstance(d.fields[-1].data_type, dt.Void) and d.catch_all_field is d.fields[-1]):
                bad('catch-all', 'the implicit `other` is not the Void catch-all of its union', {'type': me})
            if isinstance(item, A.AstStructDef):
                want_sub = None
                if item.subtypes:
                    want_sub = ([(t.name, t.type_ref.ns or nsn, t.type_ref.name) for t in item.subtypes[0]], bool(item.subtypes[1]))
                have_sub = None
                if d.has_enumerated_subtypes():
                    have_sub = ([(f.name, f.data_type.namespace.name, f.data_type.name) for f in d.get_enumerated_subtypes()],
                                bool(d.is_catch_all()))
                if want_sub != have_sub:
                    bad('subtypes', 'the enumerated subtypes of a struct are not the declared ones',
                        {'type': me, 'declared': want_sub, 'api': have_sub})
            if item.extends is None:
                if d.parent_type is not None:
                    bad('parent', 'a type declared without `extends` has a parent', {'type': me})
            else:
                p = d.parent_type
                home = item.extends.ns or nsn
                if p is None or p.name != item.extends.name or p.namespace.name != home:
                    bad('parent', 'the parent of a type is not the declared one',
                        {'type': me, 'declared': '%s.%s' % (home, item.extends.name), 'api': None if p is None else faithful._tname(p)})
    return P


# ------------------------------------------------------------------------------------------------ one case

def _files(files):
    return [[p, t] for p, t in files]


def prepare(files):
    """-> ('skip', why) | ('ok', partial_asts, request)"""
    try:
        asts = _parse(files)
    except RecursionError:
        return ('skip', 'parser-recursion')
    except Exception as e:          # noqa: BLE001 -- parser escapes are C03's subject
        return ('skip', 'parser-crash:' + type(e).__name__)
    if asts is None:
        return ('skip', 'parse-error')
    if not asts:
        return ('skip', 'empty')
    try:
        jfiles, rx, flags = to_ast(asts)
    except Unmodelled as e:
        return ('skip', str(e).split(':')[0])
    req = {'op': 'comp.compile', 'files': jfiles, 'rx': rx, 'denote': True}
    ext, cext = attr_tables(jfiles)
    if ext is not None:
        req['ext'], req['cext'] = ext, cext
    return ('ok', asts, req, flags)


def judge_case(ck, files, origin, asts, reply, real=None, flags=()):
    """compare one prepared case; `reply` = the driver's answer"""
    st = real if real is not None else compile_real(files)
    case = {'suite': 'comp.compile', 'origin': origin, 'specs': _files(files)}
    if 'protocol_error' in reply:
        ck.stat('comp.protocol_error')
        ck.disagree('comp.compile', case, st[0], reply)
        return st
    if st[0] == 'crash':
        ck.stat('comp.real_crash(C03)')
        return st
    mk = reply.get('kind')
    if mk in NO_VERDICT:
        # the model's recursion bound / an impossible state: never a verdict, always a defect of the model
        ck.disagree('comp.compile', case, st[0], reply)
        return st
    if mk is not None:
        mk = SAME_MESSAGE.get(mk, mk)
    if st[0] == 'ok':
        api = st[1]
        ck.hist('comp.outcome', 'ok' if reply['out'] == 'ok' else 'real-ok/model-' + str(mk))
        # direct oracles on the real objects
        for what, sig, detail in faithful.judge_invariants(api):
            ck.stat('comp.oracle.invariant.' + sig['inv'])
            ck.failing_input(what, sig, {'suite': 'invariants', 'origin': 'comp:' + origin, 'label': origin,
                                         'specs': _files(files), 'detail': detail})
        for what, sig, detail in judge_members(asts, api):
            ck.stat('comp.oracle.members.' + sig['problem'])
            ck.failing_input(what, sig, {'suite': 'comp.members', 'origin': origin, 'specs': _files(files), 'detail': detail})
        if reply['out'] != 'ok':
            ck.disagree('comp.compile', case, 'ok', reply)
            return st
        # `stone_cfg` (the route schema) is taken out of `api.namespaces` by the route pass: not compared
        names = [f['ns'] for f in _names_of(asts) if f['ns'] != 'stone_cfg']
        real_dump = dump_api(api, names)
        model_dump = canon(reply['api'])
        model_dump.pop('stone_cfg', None)
        d = first_diff(real_dump, model_dump)
        if d is not None:
            ck.disagree('comp.compile', dict(case, path=d[0]), d[1], d[2])
        else:
            ck.agree('comp.compile')
        ck.hist('comp.hyps.closed', str(reply.get('closed')))
        ck.hist('comp.hyps.denote', str(reply.get('denote')))
        if reply.get('closed') is not True or reply.get('denote') != 'equal':
            # the proved conclusions evaluated on the model's own output: a `false` here contradicts a theorem
            ck.disagree('comp.theorem_instances', case, 'closed / denote-equal', {k: reply.get(k) for k in ('closed', 'denote')})
        else:
            ck.agree('comp.theorem_instances')
        return st
    # real: InvalidSpec
    rk = kind_of_message(st[1], st, flags)
    ambiguous = set(AMBIGUOUS)
    if 'annot-type-params' in flags:
        ambiguous |= RESOLVE_KINDS
    if reply['out'] == 'ok':
        if rk is None:
            ck.hist('comp.not_judged.unmodelled_rule', _template_key(st[1]))
        elif rk in ambiguous:
            ck.hist('comp.not_judged.ambiguous_message', rk)
        else:
            ck.hist('comp.outcome', 'real-%s/model-ok' % rk)
            ck.disagree('comp.compile', case, rk, 'ok')
        return st
    if rk is None:
        ck.hist('comp.not_judged.unmodelled_rule', _template_key(st[1]))
        return st
    ck.hist('comp.outcome', 'error')
    ck.hist('comp.error_kind', rk)
    if rk == mk:
        ck.agree('comp.compile')
    elif rk in ambiguous:
        ck.hist('comp.not_judged.ambiguous_message', rk)
    elif ((rk in ANNOT_STAGE_KINDS) != (mk in ANNOT_STAGE_KINDS) and mk not in ATTR_STAGE_KINDS) or \
            (rk in ATTR_STAGE_KINDS and mk not in ATTR_STAGE_KINDS):
        # both refuse. The code applies annotations while it creates each member, the model tests them in one stage
        # after the type passes (the MANIFEST note says so): a spec with an annotation violation AND a type violation
        # gets a different FIRST message. Likewise the code checks the attributes of each route right after its types
        # (before the next route, before it validates redactors), the model in a last stage after the annotations.
        # The verdict (refused) agrees; which of several violations is reported is not judged.
        ck.hist('comp.not_judged.two_violations_other_stage_first', '%s/%s' % (rk, mk))
        ck.agree('comp.compile')
    else:
        ck.disagree('comp.compile', case, rk, mk)
    return st


def _names_of(asts):
    seen, out = set(), []
    for desc in asts:
        n = desc[0].name
        if n not in seen:
            seen.add(n)
            out.append({'ns': n})
    return out


def _template_key(msg):
    return re.sub(r"'[^']*'", "'_'", re.sub(r'\d+', 'N', msg))[:70]


def _driver(ck, reqs):
    """ck.driver, waiting while a concurrent `lake build` of another check is relinking the driver executable"""
    import time
    for attempt in range(40):
        try:
            return ck.driver(reqs)
        except RuntimeError as e:
            if 'driver executable missing' not in str(e) or attempt == 39:
                raise
            time.sleep(5)


def judge_legal(ck, files, origin, hy, st, flags=(), report=False):
    """`Legal` (the order-free rule set of Model/FeCompile.lean, evaluated by the driver) against the REAL compiler's
    accept / refuse.  real accepts => Legal; real refuses with the message of a modelled site => not Legal.  With
    `report` (property C01) a disagreement is the property failing on the real code: failing input."""
    if 'legal' not in hy or st[0] == 'crash':
        return
    legal = hy['legal']
    ck.hist('comp.hyps.legal', str(legal))
    ck.hist('comp.hyps.ns_lexical', str(hy.get('ns_lexical')))
    case = {'suite': 'comp.legal', 'origin': origin, 'specs': _files(files)}
    if st[0] == 'ok':
        if legal:
            ck.agree('comp.legal')
        else:
            ck.disagree('comp.legal', case, 'accepted', {'legal': False, 'why': hy.get('why')})
            if report:
                ck.failing_input('C01: the compiler accepts a set of specs that violates a rule (%s)' % hy.get('why'),
                                 {'kind': 'illegal-accepted', 'rule': str(hy.get('why'))}, case)
        return
    rk = kind_of_message(st[1], st, flags)
    ambiguous = set(AMBIGUOUS)
    if 'annot-type-params' in flags:
        ambiguous |= RESOLVE_KINDS
    if rk is None or rk in ambiguous:
        ck.hist('comp.legal.not_judged', 'unmodelled-rule' if rk is None else 'ambiguous-message')
        return
    if not legal:
        ck.agree('comp.legal')
    else:
        ck.disagree('comp.legal', case, rk, {'legal': True})
        if report:
            ck.failing_input('C01: the compiler refuses a set of specs that violates no rule (%s)' % rk,
                             {'kind': 'legal-refused', 'rule': rk}, case)


def run_batch(ck, batch, legal_report=False):
    """batch: [(files, origin)] -> [real status or None]"""
    prepared = []
    for files, origin in batch:
        files = [tuple(f) for f in files]
        p = prepare(files)
        ck.case(('comp', tuple(t for _p, t in files)), nontrivial=p[0] == 'ok')
        if p[0] == 'skip':
            ck.hist('comp.skipped', p[1])
            prepared.append((files, origin, None, None, ()))
        else:
            prepared.append((files, origin, p[1], p[2], p[3]))
    reqs = [r for _f, _o, _a, r, _fl in prepared if r is not None]
    replies = iter(_driver(ck, reqs))
    # the hypothesis of the theorems (`compile fs = .ok api`) on every case: how often they speak
    hyps = _driver(ck, [dict(r, op='comp.hyps') for r in reqs])
    for hy in hyps:
        ck.hist('comp.hyps.compile_ok', str(hy.get('compile_ok')))
        if hy.get('compile_ok') is False and hy.get('kind') in NO_VERDICT:
            ck.stat('comp.model_' + hy['kind'])
        if 'legal' in hy and hy.get('compile_ok') is not None and hy['legal'] != hy['compile_ok'] and \
                hy.get('kind') not in NO_VERDICT:
            # an instance of compile_ok_iff_legal that fails contradicts the theorem
            ck.disagree('comp.theorem_instances', {'what': 'compile_ok_iff_legal'}, hy.get('compile_ok'), hy)
    hyps = iter(hyps)
    out = []
    for files, origin, asts, req, flags in prepared:
        if req is None:
            out.append(None)
            continue
        reply = next(replies)
        if legal_report:
            # property C01: only the verdict is judged here (the Api comparison and its oracles are C02's)
            st = compile_real(files)
        else:
            st = judge_case(ck, files, origin, asts, reply, flags=flags)
        judge_legal(ck, files, origin, next(hyps), st, flags=flags, report=legal_report)
        out.append(st)
    return out


# ------------------------------------------------------------------------------------------------ hand-written seeds

def _ns(body, name='na'):
    return 'namespace %s\n\n%s' % (name, body)


# one spec per modelled error site (and a few accepted corner cases); (label, files, expected kind or 'ok')
AN = '''annotation Dep = Deprecated()\n\nannotation Pre = Preview()\n\nannotation Omi = Omitted("internal")\n\nannotation Blot = RedactedBlot()\n\nannotation Hash = RedactedHash("x")\n\n'''

CFG = ('cfg.stone', 'namespace stone_cfg\n\nstruct Route\n    auth String = "user"\n    host String?\n    style String\n')

SEEDS = [
    ('symbolDefined', [('a.stone', _ns('struct S\n    x String\n\nunion S\n    a\n'))], 'symbolDefined'),
    ('symbolDefined-builtin', [('a.stone', _ns('alias String = Int32\n'))], 'symbolDefined'),
    ('routeVersionDefined', [('a.stone', _ns('route r(Void, Void, Void)\n\nroute r(Void, Void, Void)\n'))], 'routeVersionDefined'),
    ('nameConflict', [('a.stone', _ns('struct Foo_Bar\n    x String\n\nstruct FooBar\n    y String\n'))], 'nameConflict'),
    ('nameConflict-ns', [('a.stone', _ns('struct Ab\n    x String\n', 'a_b'))], 'nameConflict'),
    ('importSelf', [('a.stone', _ns('import na\n'))], 'importSelf'),
    ('importUndefined', [('a.stone', _ns('import nb\n'))], 'importUndefined'),
    ('importCircular', [('a.stone', _ns('import nb\n')), ('b.stone', _ns('import na\n', 'nb'))], 'importCircular'),
    ('importCircular3', [('a.stone', _ns('import nb\n')), ('b.stone', _ns('import nc\n', 'nb')),
                         ('c.stone', _ns('import na\n', 'nc'))], 'importCircular'),
    ('nsNotImported', [('a.stone', _ns('struct S\n    x nb.T\n')), ('b.stone', _ns('struct T\n    y String\n', 'nb'))], 'nsNotImported'),
    ('notNamespace', [('a.stone', _ns('struct S\n    x T.U\n\nstruct T\n    y String\n'))], 'notNamespace'),
    ('undefinedSymbol', [('a.stone', _ns('struct S\n    x T\n'))], 'undefinedSymbol'),
    ('undefinedSymbol-imported', [('a.stone', _ns('import nb\n\nstruct S\n    x nb.T\n')), ('b.stone', _ns('struct U\n    y String\n', 'nb'))], 'undefinedSymbol'),
    ('voidNullable', [('a.stone', _ns('union U\n    a Void?\n'))], 'voidNullable'),
    ('voidNullable-alias', [('a.stone', _ns('alias V = Void\n\nstruct S\n    x V?\n'))], 'voidNullable'),
    ('voidNullable-alias-late', [('a.stone', _ns('struct S\n    x List(V?)\n\nalias W = List(V?)\n\nalias V = Void\n'))], 'voidNullable'),
    ('routeRef', [('a.stone', _ns('route r(Void, Void, Void)\n\nstruct S\n    x r\n'))], 'routeRef'),
    ('notDataType', [('a.stone', _ns('annotation A = Deprecated()\n\nstruct S\n    x A\n'))], 'notDataType'),
    ('notDataType-ns', [('a.stone', _ns('import nb\n\nstruct S\n    x nb\n')), ('b.stone', _ns('struct T\n    y String\n', 'nb'))], 'notDataType'),
    ('import-shadows-type', [('a.stone', _ns('import nb\n\nstruct nb\n    y String\n\nstruct S\n    x nb\n')), ('b.stone', _ns('struct T\n    y String\n', 'nb'))], 'notDataType'),
    ('attrsOnUser', [('a.stone', _ns('struct T\n    y String\n\nstruct S\n    x T(min_length=1)\n'))], 'attrsOnUser'),
    ('attrsOnUser-alias', [('a.stone', _ns('alias T = String\n\nstruct S\n    x T(String)\n'))], 'attrsOnUser'),
    ('missingPositional', [('a.stone', _ns('struct S\n    x List\n'))], 'params.missingPositional'),
    ('tooManyPositional', [('a.stone', _ns('struct S\n    x Int32(String)\n'))], 'params.tooManyPositional'),
    ('unknownKeyword', [('a.stone', _ns('struct S\n    x Int32(min_length=1)\n'))], 'params.unknownKeyword'),
    ('positionalAsKeyword', [('a.stone', _ns('struct S\n    x Timestamp(format="%Y")\n'))], 'params.missingPositional'),
    ('positionalAsKeyword-2', [('a.stone', _ns('struct S\n    x Timestamp("%Y", fmt="%Y")\n'))], 'params.positionalAsKeyword'),
    ('badArgument', [('a.stone', _ns('struct S\n    x String(min_length=-1)\n'))], 'params.badArgument'),
    ('badArgument-mapkey', [('a.stone', _ns('struct S\n    x Map(Int32, String)\n'))], 'params.badArgument'),
    ('circular', [('a.stone', _ns('struct S extends T\n    x String\n\nstruct T extends S\n    y String\n'))], 'circular'),
    ('circular-self', [('a.stone', _ns('struct S extends S\n    x String\n'))], 'circular'),
    ('nullableNullable', [('a.stone', _ns('alias N = String?\n\nstruct S\n    x N?\n'))], 'nullableNullable'),
    ('nullableNullable-late', [('a.stone', _ns('struct S\n    x N?\n\nalias M = N?\n\nalias N = String?\n'))], 'nullableNullable'),
    ('nullableNullable-2ns', [('a.stone', _ns('import nb\n\nstruct S\n    x nb.N?\n')), ('b.stone', _ns('alias N = String?\n', 'nb'))], 'nullableNullable'),
    ('extendsAlias', [('a.stone', _ns('struct T\n    y String\n\nalias A = T\n\nstruct S extends A\n    x String\n'))], 'extendsAlias'),
    ('extendsAlias-union', [('a.stone', _ns('union T\n    y\n\nalias A = T\n\nunion S extends A\n    x\n'))], 'extendsAlias'),
    ('extendsNonStruct', [('a.stone', _ns('union T\n    y\n\nstruct S extends T\n    x String\n'))], 'extendsNonStruct'),
    ('extendsNonStruct-prim', [('a.stone', _ns('struct S extends String\n    x String\n'))], 'extendsNonStruct'),
    ('extendsNonUnion', [('a.stone', _ns('struct T\n    y String\n\nunion S extends T\n    x\n'))], 'extendsNonUnion'),
    ('voidField', [('a.stone', _ns('struct S\n    x Void\n'))], 'voidField'),
    ('voidField-alias', [('a.stone', _ns('alias V = Void\n\nstruct S\n    x V\n'))], 'voidField'),
    ('voidField-alias-late', [('a.stone', _ns('struct S\n    x V\n\nalias V = W\n\nalias W = Void\n'))], 'voidField'),
    ('nullableDefault', [('a.stone', _ns('struct S\n    x String? = "a"\n'))], 'nullableDefault'),
    ('nullableDefault-alias', [('a.stone', _ns('alias N = String?\n\nstruct S\n    x N = "a"\n'))], 'nullableDefault'),
    ('otherReserved', [('a.stone', _ns('union U\n    other\n'))], 'otherReserved'),
    ('voidExplicit', [('a.stone', _ns('union U\n    a Void\n'))], 'voidExplicit'),
    ('closedExtendsOpen', [('a.stone', _ns('union P\n    a\n\nunion_closed C extends P\n    b\n'))], 'closedExtendsOpen'),
    ('dupField', [('a.stone', _ns('struct S\n    x String\n    x Int32\n'))], 'dupField'),
    ('dupField-union', [('a.stone', _ns('union U\n    a\n    a String\n'))], 'dupField'),
    ('parentField', [('a.stone', _ns('struct P\n    x String\n\nstruct S extends P\n    x Int32\n'))], 'parentField'),
    ('parentField-far', [('a.stone', _ns('struct S extends Q\n    x Int32\n\nstruct Q extends P\n    z String\n\nstruct P\n    x String\n'))], 'parentField'),
    ('parentField-other', [('a.stone', _ns('union P\n    a\n\nunion C extends P\n    b\n'))], 'ok'),
    ('aliasCycle', [('a.stone', _ns('alias A = B\n\nalias B = A\n'))], 'aliasCycle'),
    ('aliasCycle-self', [('a.stone', _ns('alias A = A\n'))], 'aliasCycle'),
    ('aliasCycle-list', [('a.stone', _ns('alias A = List(A)\n'))], 'aliasCycle'),
    ('aliasCycle-map', [('a.stone', _ns('alias A = Map(String, B?)\n\nalias B = List(A)\n'))], 'aliasCycle'),
    ('aliasCycle-2ns', [('a.stone', _ns('import nb\n\nalias A = nb.B\n')), ('b.stone', _ns('alias B = C\n\nalias C = List(B)\n', 'nb'))], 'aliasCycle'),
    ('alias-through-struct-ok', [('a.stone', _ns('alias A = List(S)\n\nstruct S\n    x A?\n'))], 'ok'),
    ('defaultNotAllowed', [('a.stone', _ns('struct T\n    y String\n\nstruct S\n    x T = 1\n'))], 'defaultNotAllowed'),
    ('defaultNotAllowed-list', [('a.stone', _ns('struct S\n    x List(String) = 1\n'))], 'defaultNotAllowed'),
    ('undefinedSubtype', [('a.stone', _ns('struct R\n    union\n        a A\n    x String\n'))], 'undefinedSubtype'),
    ('subtypeNotStruct', [('a.stone', _ns('struct R\n    union\n        a U\n    x String\n\nunion U\n    t\n'))], 'subtypeNotStruct'),
    ('enumExtends', [('a.stone', _ns('struct P\n    p String\n\nstruct R extends P\n    union\n        a A\n    x String\n\nstruct A extends R\n    y String\n'))], 'enumExtends'),
    ('subtypeTwice', [('a.stone', _ns('struct R\n    union\n        a A\n        b A\n    x String\n\nstruct A extends R\n    y String\n'))], 'subtypeTwice'),
    ('notSubtype', [('a.stone', _ns('struct R\n    union\n        a A\n    x String\n\nstruct A\n    y String\n'))], 'notSubtype'),
    ('tagFieldClash', [('a.stone', _ns('struct R\n    union\n        x A\n    x String\n\nstruct A extends R\n    y String\n'))], 'dupField'),
    ('tagTwice', [('a.stone', _ns('struct R\n    union\n        a A\n        a B\n    x String\n\nstruct A extends R\n    y String\n\nstruct B extends R\n    z String\n'))], 'dupField'),
    ('missingSubtype', [('a.stone', _ns('struct R\n    union\n        a A\n    x String\n\nstruct A extends R\n    y String\n\nstruct B extends R\n    z String\n'))], 'missingSubtype'),
    ('subtypeExtended', [('a.stone', _ns('struct R\n    union\n        a A\n    x String\n\nstruct A extends R\n    y String\n\nstruct B extends A\n    z String\n'))], 'subtypeExtended'),
    ('subtypes-ok', [('a.stone', _ns('struct R\n    union_closed\n        a A\n        b B\n    x String\n\nstruct A extends R\n    y String\n\nstruct B extends R\n    z String\n'))], 'ok'),
    ('routeTwoTypes', [('a.stone', _ns('route r(Void, Void)\n'))], 'routeTwoTypes'),
    ('undefinedRoute', [('a.stone', _ns('route r(Void, Void, Void) deprecated by s\n'))], 'undefinedRoute'),
    ('undefinedRoute-version', [('a.stone', _ns('route r(Void, Void, Void) deprecated by s:2\n\nroute s(Void, Void, Void)\n'))], 'undefinedRoute'),
    ('notRoute', [('a.stone', _ns('struct s\n    x String\n\nroute r(Void, Void, Void) deprecated by s\n'))], 'notRoute'),
    ('deprecated-ok', [('a.stone', _ns('route r(Void, Void, Void) deprecated by r:2\n\nroute r:2(Void, Void, Void)\n\nroute q(Void, Void, Void) deprecated\n'))], 'ok'),
    ('forward-parent-2ns', [('a.stone', _ns('import nb\n\nstruct S extends nb.T\n    x String\n\nunion_closed V extends nb.U\n    c\n')),
                            ('b.stone', _ns('struct T extends T0\n    y String\n\nstruct T0\n    z String\n\nunion_closed U\n    a\n    b String\n', 'nb'))], 'ok'),
    ('forward-parent-2ns-same-name', [('a.stone', _ns('import nb\n\nstruct S extends nb.T\n    x X\n\nstruct X\n    a String\n\nunion V extends nb.U\n    c X\n')),
                                      ('b.stone', _ns('struct T\n    f X\n    l List(X?)\n\nstruct X\n    b Int32\n\nunion U\n    u X\n', 'nb'))], 'ok'),
    ('circular-union', [('a.stone', _ns('union A extends B\n    a\n\nunion B extends A\n    b\n'))], 'circular'),
    ('patch-ok', [('a.stone', _ns('struct S\n    x String\n\nunion U\n    a\n\nunion_closed V\n    b\n')),
                  ('a2.stone', _ns('patch struct S\n    y Int32\n\npatch union U\n    c S\n\npatch union_closed V\n    d\n\npatch struct S\n    z S?\n'))], 'ok'),
    ('patch-canonical-ok', [('a.stone', _ns('struct Foo_Bar\n    x String\n\npatch struct FooBar\n    y Int32\n'))], 'ok'),
    ('patch-before-type-ok', [('a0.stone', _ns('patch struct S\n    y T\n')), ('a1.stone', _ns('struct S\n    x String\n\nstruct T extends S\n    w String\n'))], 'ok'),
    ('patchNoTarget', [('a.stone', _ns('patch struct S\n    y Int32\n'))], 'patchNoTarget'),
    ('patchNoTarget-other-ns', [('a.stone', _ns('patch struct S\n    y Int32\n')), ('b.stone', _ns('struct S\n    x String\n', 'nb'))], 'patchNoTarget'),
    ('patchMismatch-kind', [('a.stone', _ns('union S\n    a\n\npatch struct S\n    y Int32\n'))], 'patchMismatch'),
    ('patchMismatch-closed', [('a.stone', _ns('union S\n    a\n\npatch union_closed S\n    y Int32\n'))], 'patchMismatch'),
    ('patchMismatch-alias', [('a.stone', _ns('alias S = String\n\npatch struct S\n    y Int32\n'))], 'patchMismatch'),
    ('patchMismatch-route', [('a.stone', _ns('route s(Void, Void, Void)\n\npatch struct s\n    y Int32\n'))], 'patchMismatch'),
    ('patchMismatch-namespace', [('a.stone', _ns('patch struct na\n    y Int32\n'))], 'patchMismatch'),
    ('patchFieldClash', [('a.stone', _ns('struct S\n    x String\n\npatch struct S\n    x Int32\n'))], 'patchFieldClash'),
    ('patchFieldClash-two-patches', [('a.stone', _ns('struct S\n    x String\n\npatch struct S\n    y Int32\n')), ('a2.stone', _ns('patch struct S\n    y Int64\n'))], 'patchFieldClash'),
    ('patch-member-of-ancestor', [('a.stone', _ns('struct P\n    x String\n\nstruct S extends P\n    y String\n\npatch struct S\n    x Int32\n'))], 'parentField'),
    ('patch-member-twice-in-patch', [('a.stone', _ns('struct S\n    x String\n\npatch struct S\n    y Int32\n    y Int64\n'))], 'dupField'),
    ('patch-undefined-type', [('a.stone', _ns('struct S\n    x String\n\npatch struct S\n    y T\n'))], 'undefinedSymbol'),
    ('annot-ok', [('a.stone', _ns('%sstruct S\n    x String\n        @Dep\n        @Omi\n        @Blot\n    y List(Map(String, Int32?))?\n        @Pre\n        @Hash\n\nunion U\n    a\n        @Dep\n    b String\n        @Blot\n\nalias A = String\n    @Blot\n\nstruct T\n    z List(A)\n' % AN))], 'ok'),
    ('annot-imported-ok', [('a.stone', _ns('import nb\n\nstruct S\n    x String\n        @nb.Dep\n')), ('b.stone', _ns('annotation Dep = Deprecated()\n', 'nb'))], 'ok'),
    ('annotNotExist', [('a.stone', _ns('struct S\n    x String\n        @Nope\n'))], 'annotNotExist'),
    ('annotNotExist-alias', [('a.stone', _ns('alias A = String\n    @Nope\n'))], 'annotNotExist'),
    ('annot-nsNotImported', [('a.stone', _ns('struct S\n    x String\n        @nb.Dep\n')), ('b.stone', _ns('annotation Dep = Deprecated()\n', 'nb'))], 'nsNotImported'),
    ('annotNotRecognized', [('a.stone', _ns('struct T\n    y String\n\nstruct S\n    x String\n        @T\n'))], 'annotNotRecognized'),
    ('annotNotRecognized-builtin', [('a.stone', _ns('struct S\n    x String\n        @String\n'))], 'annotNotRecognized'),
    ('aliasAnnotUnsupported', [('a.stone', _ns('%salias A = String\n    @Dep\n' % AN))], 'aliasAnnotUnsupported'),
    ('deprecatedTwice', [('a.stone', _ns('%sstruct S\n    x String\n        @Dep\n        @Dep\n' % AN))], 'deprecatedTwice'),
    ('omittedTwice', [('a.stone', _ns('%sstruct S\n    x String\n        @Omi\n        @Omi\n' % AN))], 'omittedTwice'),
    ('previewTwice', [('a.stone', _ns('%sunion U\n    a\n        @Pre\n        @Pre\n' % AN))], 'previewTwice'),
    ('redactorTwice', [('a.stone', _ns('%sstruct S\n    x String\n        @Blot\n        @Hash\n' % AN))], 'redactorTwice'),
    ('redactorTwice-alias', [('a.stone', _ns('%salias A = String\n    @Blot\n    @Hash\n' % AN))], 'redactorTwice'),
    ('deprecatedPreview', [('a.stone', _ns('%sstruct S\n    x String\n        @Dep\n        @Pre\n' % AN))], 'deprecatedPreview'),
    ('deprecatedPreview-2', [('a.stone', _ns('%sstruct S\n    x String\n        @Pre\n        @Dep\n' % AN))], 'deprecatedPreview'),
    ('redactorOnAliasRef', [('a.stone', _ns('%salias A = String\n\nstruct S\n    x A\n        @Blot\n' % AN))], 'redactorOnAliasRef'),
    ('redactorAlready', [('a.stone', _ns('%salias A = String\n    @Blot\n\nstruct S\n    x A?\n        @Hash\n' % AN))], 'redactorAlready'),
    ('redactorAlready-alias', [('a.stone', _ns('%salias A = String\n    @Blot\n\nalias B = A\n    @Hash\n' % AN))], 'redactorAlready'),
    ('redactorOnUser', [('a.stone', _ns('%sstruct T\n    y String\n\nstruct S\n    x T\n        @Blot\n' % AN))], 'redactorOnUser'),
    ('redactorOnUser-list', [('a.stone', _ns('%sstruct T\n    y String\n\nstruct S\n    x List(Map(String, T?))\n        @Blot\n' % AN))], 'redactorOnUser'),
    ('redactorOnUser-void-tag', [('a.stone', _ns('%sunion U\n    a\n        @Blot\n' % AN))], 'redactorOnUser'),
    ('redactor-list-of-alias-ok', [('a.stone', _ns('%sstruct T\n    y String\n\nalias A = T\n\nstruct S\n    x List(A)\n        @Blot\n' % AN))], 'ok'),
    ('annot-in-patch', [('a.stone', _ns('%sstruct S\n    x String\n\npatch struct S\n    y String\n        @Dep\n        @Pre\n' % AN))], 'deprecatedPreview'),
    ('qualified-builtin', [('a.stone', _ns('import nb\n\nstruct T\n    y String\n\nstruct S\n    x nb.List(T)\n')),
                           ('b.stone', _ns('struct T\n    z Int32\n', 'nb'))], 'ok'),
    # route attributes and `stone_cfg`
    ('attrs-ok', [CFG, ('a.stone', _ns('route r(Void, Void, Void)\n    attrs\n        style = "rpc"\n        host = null\n'))], 'ok'),
    ('attrs-all', [CFG, ('a.stone', _ns('route r(Void, Void, Void)\n    attrs\n        style = "rpc"\n        host = "h"\n        auth = "app"\n'))], 'ok'),
    ('attrMissing', [CFG, ('a.stone', _ns('route r(Void, Void, Void)\n'))], 'attrMissing'),
    ('attrMissing-other', [CFG, ('a.stone', _ns('route r(Void, Void, Void)\n    attrs\n        host = "h"\n'))], 'attrMissing'),
    ('attrUnknown', [CFG, ('a.stone', _ns('route r(Void, Void, Void)\n    attrs\n        style = "rpc"\n        zzz = 1\n'))], 'attrUnknown'),
    ('attrUnknown-no-cfg', [('a.stone', _ns('route r(Void, Void, Void)\n    attrs\n        style = "rpc"\n'))], 'attrUnknown'),
    ('attrs-no-cfg-none', [('a.stone', _ns('route r(Void, Void, Void)\n'))], 'ok'),
    ('attrs-cfg-no-route', [('cfg.stone', _ns('alias A = String\n', 'stone_cfg')), ('a.stone', _ns('route r(Void, Void, Void)\n'))], 'ok'),
    ('attrUnknown-cfg-no-route', [('cfg.stone', _ns('alias A = String\n', 'stone_cfg')),
                                  ('a.stone', _ns('route r(Void, Void, Void)\n    attrs\n        a = 1\n'))], 'attrUnknown'),
    ('cfgRoutes', [('cfg.stone', _ns('struct Route\n    style String?\n\nroute q(Void, Void, Void)\n', 'stone_cfg'))], 'cfgRoutes'),
    ('cfgNotRoute', [('cfg.stone', _ns('struct Route\n    style String?\n\nstruct Other\n    x String\n', 'stone_cfg'))], 'cfgNotRoute'),
    ('cfgNotRoute-union', [('cfg.stone', _ns('union Route\n    a\n', 'stone_cfg'))], 'cfgNotRoute'),
    ('attrNotSettable-list', [('cfg.stone', _ns('struct Route\n    l List(String)?\n', 'stone_cfg')),
                              ('a.stone', _ns('route r(Void, Void, Void)\n    attrs\n        l = "a"\n'))], 'attrNotSettable'),
    ('attrs-list-null', [('cfg.stone', _ns('struct Route\n    l List(String)?\n', 'stone_cfg')),
                         ('a.stone', _ns('route r(Void, Void, Void)\n    attrs\n        l = null\n'))], 'ok'),
    ('attrNotSettable-struct', [('cfg.stone', _ns('import nb\n\nstruct Route\n    s nb.S?\n', 'stone_cfg')),
                                ('b.stone', _ns('struct S\n    x String\n', 'nb')),
                                ('a.stone', _ns('route r(Void, Void, Void)\n    attrs\n        s = x\n'))], 'attrNotSettable'),
    ('attrs-inherited', [('cfg.stone', _ns('import nb\n\nstruct Route extends nb.Base\n    style String\n', 'stone_cfg')),
                         ('b.stone', _ns('struct Base\n    owner String\n', 'nb')),
                         ('a.stone', _ns('route r(Void, Void, Void)\n    attrs\n        style = "rpc"\n        owner = "me"\n'))], 'ok'),
    ('attrMissing-inherited', [('cfg.stone', _ns('import nb\n\nstruct Route extends nb.Base\n    style String\n', 'stone_cfg')),
                               ('b.stone', _ns('struct Base\n    owner String\n', 'nb')),
                               ('a.stone', _ns('route r(Void, Void, Void)\n    attrs\n        style = "rpc"\n'))], 'attrMissing'),
    ('attrs-alias-nullable', [('cfg.stone', _ns('alias A = String?\n\nstruct Route\n    x A\n', 'stone_cfg')),
                              ('a.stone', _ns('route r(Void, Void, Void)\n\nroute q(Void, Void, Void)\n    attrs\n        x = null\n'))], 'ok'),
    ('attrs-union', [('cfg.stone', _ns('import nb\n\nstruct Route\n    mode nb.Mode\n', 'stone_cfg')),
                     ('b.stone', _ns('union Mode\n    fast\n    slow\n', 'nb')),
                     ('a.stone', _ns('route r(Void, Void, Void)\n    attrs\n        mode = fast\n'))], 'ok'),
    ('attrs-two-namespaces', [CFG, ('a.stone', _ns('route r(Void, Void, Void)\n    attrs\n        style = "rpc"\n')),
                              ('b.stone', _ns('route q(Void, Void, Void)\n', 'nb'))], 'attrMissing'),
    ('attrValue-kind', [CFG, ('a.stone', _ns('route r(Void, Void, Void)\n    attrs\n        style = 1\n'))], 'attrValue'),
    ('attrValue-null', [CFG, ('a.stone', _ns('route r(Void, Void, Void)\n    attrs\n        style = null\n'))], 'attrValue'),
    ('attrValue-tag-for-string', [CFG, ('a.stone', _ns('route r(Void, Void, Void)\n    attrs\n        style = rpc\n'))], 'attrValue'),
    ('attrValue-unknown-tag', [('cfg.stone', _ns('import nb\n\nstruct Route\n    mode nb.Mode\n', 'stone_cfg')),
                               ('b.stone', _ns('union Mode\n    fast\n    slow\n', 'nb')),
                               ('a.stone', _ns('route r(Void, Void, Void)\n    attrs\n        mode = medium\n'))], 'attrValue'),
    ('attrValue-nonvoid-tag', [('cfg.stone', _ns('import nb\n\nstruct Route\n    mode nb.Mode\n', 'stone_cfg')),
                               ('b.stone', _ns('union Mode\n    fast\n    slow String\n', 'nb')),
                               ('a.stone', _ns('route r(Void, Void, Void)\n    attrs\n        mode = slow\n'))], 'attrValue'),
    ('attrValue-string-for-union', [('cfg.stone', _ns('import nb\n\nstruct Route\n    mode nb.Mode\n', 'stone_cfg')),
                                    ('b.stone', _ns('union Mode\n    fast\n    slow\n', 'nb')),
                                    ('a.stone', _ns('route r(Void, Void, Void)\n    attrs\n        mode = "fast"\n'))], 'attrValue'),
    ('attrs-union-other', [('cfg.stone', _ns('import nb\n\nstruct Route\n    mode nb.Mode\n', 'stone_cfg')),
                           ('b.stone', _ns('union Mode\n    fast\n', 'nb')),
                           ('a.stone', _ns('route r(Void, Void, Void)\n    attrs\n        mode = other\n'))], 'ok'),
    ('attrs-union-inherited-tag', [('cfg.stone', _ns('import nb\n\nstruct Route\n    mode nb.Mode\n', 'stone_cfg')),
                                   ('b.stone', _ns('union Base\n    slow\n\nunion Mode extends Base\n    fast\n', 'nb')),
                                   ('a.stone', _ns('route r(Void, Void, Void)\n    attrs\n        mode = slow\n'))], 'ok'),
] + [(lab, [('cfg.stone', _ns('struct Route\n    x %s\n' % ty, 'stone_cfg')),
            ('a.stone', _ns('route r(Void, Void, Void)\n    attrs\n        x = %s\n' % val))], exp)
     for lab, ty, val, exp in [
    ('attrs-int', 'Int32', '5', 'ok'), ('attrValue-int-range', 'Int32', '2147483648', 'attrValue'),
    ('attrValue-uint-negative', 'UInt64', '-1', 'attrValue'),
    ('attrValue-int-min', 'Int32(min_value=3)', '2', 'attrValue'), ('attrs-int-max', 'Int64(max_value=3)', '3', 'ok'),
    ('attrValue-int-bool', 'Int32', 'true', 'attrValue'), ('attrValue-int-float', 'Int32', '1.0', 'attrValue'),
    ('attrs-bool', 'Boolean', 'false', 'ok'), ('attrValue-bool-int', 'Boolean', '1', 'attrValue'),
    ('attrs-float', 'Float64', '1.5', 'ok'), ('attrs-float-int', 'Float64', '3', 'ok'),
    ('attrValue-float-inexact-int', 'Float64', '9007199254740993', 'attrValue'),
    ('attrValue-float32-range', 'Float32', '1e39', 'attrValue'), ('attrValue-float-bool', 'Float64', 'true', 'attrValue'),
    ('attrValue-float-max', 'Float64(max_value=1.5)', '1.75', 'attrValue'), ('attrs-float-min', 'Float64(min_value=1.5)', '1.5', 'ok'),
    ('attrValue-float-min-int', 'Float64(min_value=2)', '1', 'attrValue'),
    ('attrs-string-len', 'String(min_length=2, max_length=3)', '"abc"', 'ok'),
    ('attrValue-string-long', 'String(max_length=3)', '"abcd"', 'attrValue'),
    ('attrValue-string-short', 'String(min_length=2)', '"a"', 'attrValue'),
    ('attrs-pattern', 'String(pattern="[a-z]+")', '"abc"', 'ok'),
    ('attrValue-pattern-prefix', 'String(pattern="[a-z]+")', '"abc1"', 'attrValue'),
    ('attrs-timestamp', 'Timestamp("%Y-%m-%d")', '"2020-01-31"', 'ok'),
    ('attrValue-timestamp', 'Timestamp("%Y-%m-%d")', '"2020-13-31"', 'attrValue'),
    ('attrValue-timestamp-int', 'Timestamp("%Y-%m-%d")', '3', 'attrValue'),
    ('attrs-bytes', 'Bytes', '"abc"', 'ok'), ('attrValue-bytes-int', 'Bytes', '3', 'attrValue'),
    ('attrs-nullable-value', 'Int32?', '7', 'ok'), ('attrValue-nullable-kind', 'Int32?', '"7"', 'attrValue'),
]] + [
    ('attrs-alias-value', [('cfg.stone', _ns('alias A = B?\n\nalias B = Int32(max_value=4)\n\nstruct Route\n    x A\n', 'stone_cfg')),
                           ('a.stone', _ns('route r(Void, Void, Void)\n    attrs\n        x = 4\n'))], 'ok'),
    ('attrValue-alias-value', [('cfg.stone', _ns('alias A = B?\n\nalias B = Int32(max_value=4)\n\nstruct Route\n    x A\n', 'stone_cfg')),
                               ('a.stone', _ns('route r(Void, Void, Void)\n    attrs\n        x = 5\n'))], 'attrValue'),
    ('two-files-one-ns', [('a1.stone', _ns('struct S\n    x T\n    l List(A, min_items=1, max_items=3)?\n')),
                          ('a2.stone', _ns('struct T\n    y Map(String, S?)\n\nalias A = T\n'))], 'ok'),
]


def suite_seeds(ck, legal_report=False):
    batch = [(files, 'seed:' + label) for label, files, _e in SEEDS]
    sts = run_batch(ck, batch, legal_report)
    for (label, files, expect), st in zip(SEEDS, sts):
        if st is None:
            ck.note('comp seed %s was skipped (outside the modelled input)' % label)
            continue
        got = 'ok' if st[0] == 'ok' else (kind_of_message(st[1], st, {('attr-line', st[3], st[2])} if len(st) >= 4 else ())
                                          if st[0] == 'invalid' else 'crash')
        ck.hist('comp.seed', '%s:%s' % (label, got))
        if got != expect:
            # the seed no longer exercises the site it was written for (not a verdict on stone: the comparison above is)
            ck.stat('comp.seed_drifted')
            ck.note('comp seed %s: expected %s, the compiler answers %s' % (label, expect, got))


def gen_model(rng, preset):
    """a specgen model (patches included since the model merges them)"""
    from harness import specgen as sg
    return sg.gen_model(rng, preset)


def suite_generated(ck, n_models, legal_report=False):
    from harness import specgen as sg
    rng = ck.rng
    batch = []
    for preset in ('small', 'default', 'fe', 'routes'):
        for _ in range(n_models):
            m = gen_model(rng, preset)
            batch.append((sg.render(m, None), preset + '/reference'))
            batch.append((sg.render(m, sg.gen_layout(rng, m)), preset + '/layout'))
    run_batch(ck, batch, legal_report)


def suite_injected(ck, n_models, per_rule, legal_report=False):
    """one-violation-per-rule specs of harness/inject.py (C01's injectors, used read-only)"""
    from harness import specgen as sg, inject
    rng = ck.rng
    batch = []
    for _ in range(n_models):
        m = gen_model(rng, rng.choice(['small', 'default', 'fe']))
        for r in inject.RULES:
            try:
                if r.level == 'text':
                    base = inject.base_files(m, rng, False)
                    sites = r.sites(base)
                else:
                    base, sites = None, r.sites(m)
                if not sites:
                    continue
                for site in inject.sample_sites(m, r, sites, per_rule, rng):
                    if r.level == 'text':
                        files = inject.inject_text(base, r, site, rng)
                    else:
                        files = inject.inject(m, r, site, rng, shuffle=rng.random() < 0.5)
                    batch.append(([tuple(f) for f in files], 'inject:' + r.id))
            except Exception:       # noqa: BLE001 -- an injector that does not apply to this model
                ck.stat('comp.injector_error')
    run_batch(ck, batch, legal_report)


def suite_mutants(ck, n_models, n_mut, legal_report=False):
    """accepted / refused outputs of the C03 text mutators"""
    from harness import specgen as sg
    from harness.suites import fe_fuzz
    rng = ck.rng
    rendered = [sg.render(gen_model(rng, rng.choice(['small', 'default', 'fe'])), None) for _ in range(n_models)]
    batch = []
    for files in rendered:
        for _ in range(n_mut):
            f2 = [list(f) for f in files]
            k = rng.randrange(len(f2))
            other = rng.choice(rng.choice(rendered))[1]
            f2[k][1] = fe_fuzz.mutate_text(rng, f2[k][1], other)
            if f2[k][1] != files[k][1]:
                batch.append(([tuple(f) for f in f2], 'mutant'))
    run_batch(ck, batch, legal_report)


def suite_compile(ck, legal_report=False):
    """`legal_report` (property C01): a disagreement between `Legal` and the real compiler's verdict is reported as a
    failing input of the property"""
    suite_seeds(ck, legal_report)
    suite_generated(ck, ck.scale(25, 250), legal_report)
    suite_injected(ck, ck.scale(3, 25), ck.scale(1, 2), legal_report)
    suite_mutants(ck, ck.scale(20, 200), ck.scale(6, 12), legal_report)


# ------------------------------------------------------------------------------------------------ replay

def replay_legal(ck, case):
    """re-evaluate a `comp.legal` failing input: `Legal` of the driver against the real verdict; 1 when they still differ"""
    files = [tuple(x) for x in case['specs']]
    for p, t in files:
        print(' --- %s\n%s' % (p, t.rstrip()))
    pre = prepare(files)
    if pre[0] != 'ok':
        print(' outside the modelled input now: %s' % pre[1])
        return 0
    hy = _driver(ck, [dict(pre[2], op='comp.hyps')])[0]
    st = compile_real(files, fast=False)
    print(' Legal = %s%s ; the compiler answers: %s %s' % (hy.get('legal'), '' if hy.get('legal') else ' (fails: %s)' % hy.get('why'),
                                                           st[0], '' if st[0] == 'ok' else st[1]))
    before = len(ck.violations)
    judge_legal(ck, files, case.get('origin', 'replay'), hy, st, flags=pre[3], report=True)
    still = len(ck.violations) > before or bool(ck.known_hits)
    print(' => the recorded failure %s' % ('still shows' if still else 'no longer shows'))
    return 1 if still else 0


def replay_case(ck, case):
    """re-evaluate a `comp.members` failing input; True when it still shows"""
    files = [tuple(x) for x in case['specs']]
    for p, t in files:
        print(' --- %s\n%s' % (p, t.rstrip()))
    st = faithful.compile_guarded(files, fast=False)
    if st[0] != 'ok':
        print(' the compiler now answers: %s %s' % (st[0], st[1]))
        return False
    asts = _parse(files)
    probs = judge_members(asts, st[1]) if asts else []
    for what, sig, detail in probs:
        print(' FAILS: %s %s %s' % (what, json.dumps(sig, sort_keys=True), json.dumps(detail, sort_keys=True, default=repr)[:600]))
        ck.failing_input(what, sig, dict(case, detail=detail))
    if not probs:
        print(' every declared member is in the Api now')
    return bool(probs)
