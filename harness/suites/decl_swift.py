"""decl.swift / decl.objc suites and direct oracles (C17).

Layers (kept apart on purpose):

* the REAL code: the six backend invocations (`swift_types`, `swift_types --objc`, `swift_client`,
  `swift_client --objc`, `obj_c_types`, `obj_c_client`) run through `stone.compiler.Compiler` on compiled specs,
  and the real formatting helpers (`fmt_type`, `fmt_objc_type`, `fmt_serial_type`, ...);
* the MODEL: Model/DeclSwift.lean behind the `decl.swift.*` / `decl.objc.*` driver ops (correspondence only);
* the DIRECT ORACLE, independent of the model, on the emitted files:
    (a) completion: any exception of a backend run is a failing input (signature = backend + exception type +
        innermost stone/backends frame, never the message);
    (b) lexical scan of EVERY emitted file (Swift: nested block comments, line comments, strings with escapes
        and `\\( )` interpolation, `\"\"\"` strings; Objective-C: `//`, `/* */`, "..." and @"..." strings with escapes,
        character literals, preprocessor lines) -> balanced `{} [] ()`, terminated strings and comments, every
        conditional directive closed by its #endif;
    (c) declaration scan -> exactly-once and coverage against an independent reading of the IR (as the backends
        see it: after `remove_aliases_from_api`), and closure: every user-level type name that occurs in code
        (qualified `Ns.Name`, unqualified capitalised identifiers, `DBX...` / `DB<NS>...` names) is declared
        somewhere in the Swift (resp. Objective-C) output of the same spec, or is a name the templates /
        tables / options mention literally;
    (d) Objective-C: header and implementation of a class agree on the selectors of its methods (obj_c_client: both
        directions and equally often; obj_c_types: every declared selector is defined);
    (e) Objective-C, per header: every generated class the header names is declared there (`@class`, `@interface`)
        or in a generated header it imports, transitively (`objc_file_closure`; three (backend, cause) pairs found on
        the unchanged tree are counted, not judged, until decided: FILE_CLOSURE_OPEN);
    (f) swift_client run twice into one folder (user pass, then --auth-type app): over the files of both passes every
        top-level type is declared exactly once (`check_two_passes`).

Not judged: whether the output compiles (no Swift / ObjC compiler here); names that collide under the
backend's own naming scheme (the precondition `nameInjective` of the theorems: the direct oracle counts such
cases and skips the exactly-once verdict for the colliding siblings; swift_client's own refusal of two routes
with one generated name, check_route_name_conflict, is counted the same way); `--documentation` (needs the
caller's `../Format/jazzy.json`); order of declarations.

Measuring: under coverage.py (tools/cov.py) or with C17_POOL=0 the cases are evaluated in this process instead of
the worker pool, so that the statements of /repo they execute are seen. C17_ONLY=seed,grid,gen restricts the
families (development only).
"""
import ast
import collections
import importlib
import json
import logging
import os
import re
import shutil
import sys
import tempfile
import traceback

from harness import core

RULE = ('generated specs (specgen presets routes / default / fe with a stone_cfg.Route schema host/style/auth/'
        'is_preview/scope and attributes drawn from rpc/upload/download x user/app/team/noauth and auth lists in either '
        'order, route exotic types, defaults, nullable/list/map nesting, inheritance, enumerated subtypes, '
        'cross-namespace refs) + hand seeds harness/specs/c17_*.stone (one per listed finding; families for defaults, '
        'documentation references and degenerate shapes) + a deterministic grid: 87 type shapes (every primitive with and '
        'without constraints, every kind of user type of the own and of another namespace, lists nested up to four deep, '
        'maps, nullable items) each as required / optional / inherited field, field of a route argument struct, tag, '
        'nullable tag, inherited tag, directly as route argument / result / error, and -- in a namespace of its own -- as '
        'field a route argument inherits from another namespace one and two levels up; each spec through the six '
        'invocations under an option grid (swift_client -w none/app/user/team, obj_c_client -w user/app/team/noauth, '
        'obj_c_types with and without -e, three sets of client-args / style-to-request tables with one to three variants '
        'per style); every emitted file is lexed; declarations scanned and compared with the IR and with the Lean model; '
        'header and implementation selectors of every Objective-C class compared; every generated class a header names '
        'declared or imported by that header; the user and app passes of swift_client together declare each type once; 4 x N random type expressions per '
        'mapper against the model. A case is non-trivial when the spec has at least one user type or route.')

# ======================================================================================================
# 0. options of the six invocations
# ======================================================================================================

SW_CLIENT_ARGS = {
    'upload': [['upload', [['input', '.data(input)', 'Data', 'The file to upload, as an Data object.']]],
               ['upload', [['input', '.file(input)', 'URL', 'The file to upload, as an URL object.']]]],
    'download': [['download_file', [['overwrite', 'overwrite', 'Bool = false', 'Overwrite the destination.'],
                                    ['destination', 'destination', 'URL', 'Where to store the download.']]],
                 ['download_memory', []]],
}
SW_STYLE_TO_REQUEST = {'rpc': 'RpcRequest', 'upload': 'UploadRequest', 'download_file': 'DownloadRequestFile',
                       'download_memory': 'DownloadRequestMemory'}
OC_CLIENT_ARGS = {
    'upload': [['upload', ['Data', [['inputData', 'inputData', 'NSData *', 'The file to upload.']]]],
               ['upload', ['Url', [['inputUrl', 'inputUrl', 'NSString *', 'The file to upload.']]]]],
    'download': [['download_url', ['Url', [['overwrite', 'overwrite', 'BOOL', 'Overwrite.'],
                                           ['outputUrl', 'outputUrl', 'NSURL *', 'Destination.']]]],
                 ['download_data', ['Data', []]]],
}
OC_STYLE_TO_REQUEST = {'rpc': 'DBRpcTask', 'upload': 'DBUploadTask', 'download_url': 'DBDownloadUrlTask',
                       'download_data': 'DBDownloadDataTask'}
MODULE, CLASS, TRANSPORT = 'ApiBase', 'ApiClientBase', 'ApiTransportClient'

# a second set of client options: one upload variant, the argument-less download variant first, other request names
SW_CLIENT_ARGS_ALT = {
    'upload': [['upload', [['input', '.stream(input)', 'InputStream', 'The stream to upload.']]]],
    'download': [['download_memory', []],
                 ['download_file', [['destination', 'destination', 'URL', 'Where to store the download.']]]],
}
SW_STYLE_TO_REQUEST_ALT = {'rpc': 'RpcTask', 'upload': 'UpTask', 'download_file': 'DownFileTask',
                           'download_memory': 'DownMemTask'}
OC_CLIENT_ARGS_ALT = {
    'upload': [['upload', ['Stream', [['inputStream', 'inputStream', 'NSInputStream *', 'The stream to upload.']]]]],
    'download': [['download_data', ['Data', []]],
                 ['download_url', ['Url', [['overwrite', 'overwrite', 'BOOL', 'Overwrite.'],
                                           ['outputUrl', 'outputUrl', 'NSURL *', 'Destination.']]]]],
}
OC_STYLE_TO_REQUEST_ALT = {'rpc': 'DBRpcJob', 'upload': 'DBUploadJob', 'download_url': 'DBDownloadUrlJob',
                           'download_data': 'DBDownloadDataJob'}
# a third set: three upload variants and two download variants, every one with extra arguments (also the ones that
# are not last), one variant with two extra arguments
SW_CLIENT_ARGS_MULTI = {
    'upload': [['upload', [['input', '.data(input)', 'Data', 'The data to upload.']]],
               ['upload', [['input', '.file(input)', 'URL', 'The file to upload.']]],
               ['upload', [['length', 'length', 'UInt64', 'The length.'],
                           ['input', '.stream(input)', 'InputStream', 'The stream to upload.']]]],
    'download': [['download_file', [['overwrite', 'overwrite', 'Bool = false', 'Overwrite the destination.'],
                                    ['destination', 'destination', 'URL', 'Where to store the download.']]],
                 ['download_memory', [['limit', 'limit', 'Int', 'Upper bound of the size.']]]],
}
OC_CLIENT_ARGS_MULTI = {
    'upload': [['upload', ['Data', [['inputData', 'inputData', 'NSData *', 'The data to upload.']]]],
               ['upload', ['Url', [['inputUrl', 'inputUrl', 'NSString *', 'The file to upload.']]]],
               ['upload', ['Stream', [['length', 'length', 'NSNumber *', 'The length.'],
                                      ['inputStream', 'inputStream', 'NSInputStream *', 'The stream to upload.']]]]],
    'download': [['download_url', ['Url', [['overwrite', 'overwrite', 'BOOL', 'Overwrite.'],
                                           ['outputUrl', 'outputUrl', 'NSURL *', 'Destination.']]]],
                 ['download_data', ['Data', [['limit', 'limit', 'NSNumber *', 'Upper bound of the size.']]]]],
}
CLIENT_TABLES = {
    'std': dict(sw_args=SW_CLIENT_ARGS, sw_req=SW_STYLE_TO_REQUEST, oc_args=OC_CLIENT_ARGS, oc_req=OC_STYLE_TO_REQUEST),
    'alt': dict(sw_args=SW_CLIENT_ARGS_ALT, sw_req=SW_STYLE_TO_REQUEST_ALT, oc_args=OC_CLIENT_ARGS_ALT,
                oc_req=OC_STYLE_TO_REQUEST_ALT),
    'multi': dict(sw_args=SW_CLIENT_ARGS_MULTI, sw_req=SW_STYLE_TO_REQUEST, oc_args=OC_CLIENT_ARGS_MULTI,
                  oc_req=OC_STYLE_TO_REQUEST),
}


def client_tables(opts):
    return CLIENT_TABLES[(opts or {}).get('client_args') or 'std']


def runs_for(sw_auth=None, oc_auth='user', opts=None):
    """[(key, backend module, args)] -- the six invocations of the property (+ companions, see below). `opts`:
    client_args ('std' | 'alt' | 'multi': which client tables), oc_e (obj_c_types --exclude-from-analysis)"""
    T = client_tables(opts)
    sw = ['-m', MODULE, '-c', CLASS, '-t', TRANSPORT, '-y', json.dumps(T['sw_args']), '-z',
          json.dumps(T['sw_req'])] + (['-w', sw_auth] if sw_auth else [])
    oc = ['-m', MODULE, '-c', CLASS, '-t', TRANSPORT, '-y', json.dumps(T['oc_args']), '-z',
          json.dumps(T['oc_req']), '-w', oc_auth]
    runs = [('swift_types', 'swift_types', []),
            ('swift_types_objc', 'swift_types', ['--objc']),
            ('swift_client', 'swift_client', sw),
            ('swift_client_objc', 'swift_client', sw + ['--objc']),
            ('obj_c_types', 'obj_c_types', ['-e'] if (opts or {}).get('oc_e') else []),
            ('obj_c_client', 'obj_c_client', oc)]
    if sw_auth == 'app':
        # the app-auth client refers to request wrappers that the user-auth run of the same backend declares
        # ("do not redefine DBXRequests defined by the user auth client"): companions for the closure universe
        runs.append(('swift_client_user', 'swift_client', sw[:-2]))
        runs.append(('swift_client_objc_user', 'swift_client', sw[:-2] + ['--objc']))
    return runs


SWIFT_KEYS = ('swift_types', 'swift_types_objc', 'swift_client', 'swift_client_objc')
COMPANION_KEYS = ('swift_client_user', 'swift_client_objc_user')
OBJC_KEYS = ('obj_c_types', 'obj_c_client')

# ======================================================================================================
# 1. lexers
# ======================================================================================================

Tok = collections.namedtuple('Tok', 'kind text line col')     # kind: id num punct str chr pp at
OPEN = {'(': ')', '[': ']', '{': '}'}
CLOSE = {')': '(', ']': '[', '}': '{'}
_ID_START = re.compile(r'[A-Za-z_$]')
_ID = re.compile(r'[A-Za-z_$][A-Za-z0-9_$]*')
_NUM = re.compile(r'[0-9][A-Za-z0-9_.]*')


class LexError(Exception):
    def __init__(self, what, line, col):
        Exception.__init__(self, what)
        self.what, self.line, self.col = what, line, col


def _pos(text, i, line_starts):
    import bisect
    ln = bisect.bisect_right(line_starts, i) - 1
    return ln + 1, i - line_starts[ln] + 1


def _line_starts(text):
    out = [0]
    for m in re.finditer('\n', text):
        out.append(m.end())
    return out


def _balance(tokens):
    """first bracket problem of a token list or None"""
    stack = []
    for t in tokens:
        if t.kind != 'punct':
            continue
        if t.text in OPEN:
            stack.append(t)
        elif t.text in CLOSE:
            if not stack:
                return ('unbalanced-close', t.text, t.line, t.col)
            o = stack.pop()
            if OPEN[o.text] != t.text:
                return ('mismatched-bracket', o.text + t.text, t.line, t.col)
    if stack:
        o = stack[-1]
        return ('unclosed-bracket', o.text, o.line, o.col)
    return None


def lex_swift(text):
    """-> (tokens, problems). problems: [(what, detail, line, col)]"""
    ls = _line_starts(text)
    toks = []
    problems = []
    n = len(text)

    def string_at(i, hashes):
        """i is at the opening quote; returns index after the closing delimiter or raises LexError"""
        start = i
        triple = text.startswith('"""', i)
        i += 3 if triple else 1
        close = ('"""' if triple else '"') + '#' * hashes
        esc = '\\' + '#' * hashes
        while i < n:
            if text.startswith(close, i):
                return i + len(close)
            c = text[i]
            if c == '\n' and not triple:
                raise LexError('unterminated-string', *_pos(text, start, ls))
            if text.startswith(esc, i):
                j = i + len(esc)
                if j < n and text[j] == '(':
                    depth = 1
                    j += 1
                    while j < n and depth:
                        cj = text[j]
                        if cj == '"':
                            j = string_at(j, 0)
                            continue
                        if cj == '\n' and not triple:
                            raise LexError('unterminated-string', *_pos(text, start, ls))
                        if cj == '(':
                            depth += 1
                        elif cj == ')':
                            depth -= 1
                        j += 1
                    if depth:
                        raise LexError('unterminated-interpolation', *_pos(text, start, ls))
                    i = j
                    continue
                if j < n and text[j] == '\n' and not triple:
                    raise LexError('unterminated-string', *_pos(text, start, ls))
                i = j + 1
                continue
            i += 1
        raise LexError('unterminated-string', *_pos(text, start, ls))

    i = 0
    try:
        while i < n:
            c = text[i]
            if c in ' \t\r\n':
                i += 1
            elif text.startswith('//', i):
                j = text.find('\n', i)
                i = n if j < 0 else j
            elif text.startswith('/*', i):
                start = i
                depth = 1
                i += 2
                while i < n and depth:
                    if text.startswith('/*', i):
                        depth += 1
                        i += 2
                    elif text.startswith('*/', i):
                        depth -= 1
                        i += 2
                    else:
                        i += 1
                if depth:
                    raise LexError('unterminated-comment', *_pos(text, start, ls))
            elif c == '"' or (c == '#' and re.match(r'#+"', text[i:i + 8])):
                hashes = 0
                start = i
                while text[i] == '#':
                    hashes += 1
                    i += 1
                j = string_at(i, hashes)
                toks.append(Tok('str', text[start:j], *_pos(text, start, ls)))
                i = j
            elif _ID_START.match(c):
                m = _ID.match(text, i)
                toks.append(Tok('id', m.group(), *_pos(text, i, ls)))
                i = m.end()
            elif c == '`':
                j = text.find('`', i + 1)
                if j < 0:
                    raise LexError('unterminated-backtick', *_pos(text, i, ls))
                toks.append(Tok('id', text[i + 1:j], *_pos(text, i, ls)))
                i = j + 1
            elif c.isdigit():
                m = _NUM.match(text, i)
                toks.append(Tok('num', m.group(), *_pos(text, i, ls)))
                i = m.end()
            elif text.startswith('->', i):
                toks.append(Tok('punct', '->', *_pos(text, i, ls)))
                i += 2
            else:
                toks.append(Tok('punct', c, *_pos(text, i, ls)))
                i += 1
    except LexError as e:
        problems.append((e.what, '', e.line, e.col))
        return toks, problems
    b = _balance(toks)
    if b:
        problems.append(b)
    return toks, problems


def lex_objc(text):
    ls = _line_starts(text)
    toks = []
    problems = []
    n = len(text)
    i = 0
    at_line_start = True
    try:
        while i < n:
            c = text[i]
            if c == '\n':
                at_line_start = True
                i += 1
                continue
            if c in ' \t\r':
                i += 1
                continue
            if c == '\\' and i + 1 < n and text[i + 1] == '\n':
                i += 2
                continue
            if text.startswith('//', i):
                j = text.find('\n', i)
                i = n if j < 0 else j
                continue
            if text.startswith('/*', i):
                j = text.find('*/', i + 2)
                if j < 0:
                    raise LexError('unterminated-comment', *_pos(text, i, ls))
                i = j + 2
                continue
            if c == '#' and at_line_start:
                m = re.match(r'#[ \t]*([A-Za-z_]+)', text[i:])
                word = m.group(1) if m else ''
                toks.append(Tok('pp', '#' + word, *_pos(text, i, ls)))
                i += len(m.group()) if m else 1
                if word in ('pragma', 'error', 'warning'):
                    j = text.find('\n', i)
                    i = n if j < 0 else j
                elif word in ('import', 'include'):
                    m2 = re.match(r'[ \t]*<[^>\n]*>', text[i:])
                    if m2:
                        toks.append(Tok('str', m2.group().strip(), *_pos(text, i, ls)))
                        i += len(m2.group())
                at_line_start = False
                continue
            at_line_start = False
            if c == '"' or (c == '@' and i + 1 < n and text[i + 1] == '"'):
                start = i
                i += 2 if c == '@' else 1
                while True:
                    if i >= n or text[i] == '\n':
                        raise LexError('unterminated-string', *_pos(text, start, ls))
                    if text[i] == '\\':
                        if i + 1 < n and text[i + 1] == '\n':
                            raise LexError('unterminated-string', *_pos(text, start, ls))
                        i += 2
                        continue
                    if text[i] == '"':
                        i += 1
                        break
                    i += 1
                toks.append(Tok('str', text[start:i], *_pos(text, start, ls)))
            elif c == "'":
                start = i
                i += 1
                while True:
                    if i >= n or text[i] == '\n':
                        raise LexError('unterminated-char-literal', *_pos(text, start, ls))
                    if text[i] == '\\':
                        i += 2
                        continue
                    if text[i] == "'":
                        i += 1
                        break
                    i += 1
                toks.append(Tok('chr', text[start:i], *_pos(text, start, ls)))
            elif c == '@' and i + 1 < n and _ID_START.match(text[i + 1]):
                m = _ID.match(text, i + 1)
                toks.append(Tok('at', '@' + m.group(), *_pos(text, i, ls)))
                i = m.end()
            elif _ID_START.match(c):
                m = _ID.match(text, i)
                toks.append(Tok('id', m.group(), *_pos(text, i, ls)))
                i = m.end()
            elif c.isdigit():
                m = _NUM.match(text, i)
                toks.append(Tok('num', m.group(), *_pos(text, i, ls)))
                i = m.end()
            else:
                toks.append(Tok('punct', c, *_pos(text, i, ls)))
                i += 1
    except LexError as e:
        problems.append((e.what, '', e.line, e.col))
        return toks, problems
    b = _balance(toks)
    if b:
        problems.append(b)
    # conditional directives open and close a region like a comment does: every #if / #ifdef / #ifndef has its #endif
    cond = []
    for t in toks:
        if t.kind != 'pp':
            continue
        if t.text in ('#if', '#ifdef', '#ifndef'):
            cond.append(t)
        elif t.text in ('#else', '#elif') and not cond:
            problems.append(('unbalanced-conditional', t.text, t.line, t.col))
            break
        elif t.text == '#endif':
            if not cond:
                problems.append(('unbalanced-conditional', t.text, t.line, t.col))
                break
            cond.pop()
    else:
        if cond:
            problems.append(('unterminated-conditional', cond[-1].text, cond[-1].line, cond[-1].col))
    return toks, problems


def lex_file(path, text):
    if path.endswith('.swift'):
        return lex_swift(text)
    if path.endswith('.h') or path.endswith('.m'):
        return lex_objc(text)
    return None, []


# ======================================================================================================
# 2. declaration scanners
# ======================================================================================================
# A scanned declaration: dict(kind, scope (list of enclosing declared names), name, line, lo, hi (token extent),
# head (lo, hi of the head tokens)).  Kinds -- Swift: class enum struct extension protocol func init var let case
# static_let; Objective-C: interface implementation property method enum enum_const static_var class_fwd.

SWIFT_MODIFIERS = {'public', 'open', 'final', 'private', 'fileprivate', 'internal', 'static', 'override', 'required',
                   'convenience', 'lazy', 'mutating', 'indirect', 'weak', 'unowned', 'dynamic'}
SWIFT_TYPE_KW = {'class', 'struct', 'enum', 'extension', 'protocol'}


def _swift_statements(toks):
    """Split a token list into statements. A statement ends before a `{` that opens a body, at `;`, at `}`, and at
    a line break when no ( or [ opened inside the statement is pending. Yields (lo, hi, opener) where opener is the
    index of the `{` that follows the statement or None."""
    # not used directly: the scanner below walks tokens with an explicit context stack


def scan_swift(toks):
    """-> list of declarations (see above), in source order"""
    decls = []
    ctx = []            # stack of dict(kind, name, decl or None) for every open `{`
    n = len(toks)
    i = 0
    stmt_lo = 0         # start of the current statement
    par = 0             # ( [ depth inside the current statement

    def type_scope():
        return [c['name'] for c in ctx if c['kind'] in SWIFT_TYPE_KW]

    def in_type_ctx():
        return not ctx or ctx[-1]['kind'] in SWIFT_TYPE_KW

    def classify(lo, hi):
        """head tokens [lo, hi) -> (kind, name, name_index) or None"""
        j = lo
        while j < hi:
            t = toks[j]
            if t.kind == 'punct' and t.text == '@':          # attribute @objc / @available(...)
                j += 2
                if j < hi and toks[j].text == '(' and toks[j - 1].kind == 'id':
                    d = 1
                    j += 1
                    while j < hi and d:
                        d += toks[j].text == '('
                        d -= toks[j].text == ')'
                        j += 1
                continue
            if t.kind == 'id' and t.text in SWIFT_MODIFIERS:
                j += 1
                if j < hi and toks[j].text == '(':              # private(set)
                    while j < hi and toks[j].text != ')':
                        j += 1
                    j += 1
                continue
            if t.kind == 'id' and t.text == 'class' and j + 1 < hi and toks[j + 1].text in ('func', 'var', 'let'):
                j += 1
                continue
            break
        if j >= hi or toks[j].kind != 'id':
            return None
        kw = toks[j].text
        static = any(toks[k].text in ('static',) for k in range(lo, j))
        if kw in SWIFT_TYPE_KW and j + 1 < hi and toks[j + 1].kind == 'id':
            return (kw, toks[j + 1].text, j + 1)
        if kw == 'func' and j + 1 < hi:
            return ('func', toks[j + 1].text, j + 1)
        if kw == 'init':
            return ('init', 'init', j)
        if kw in ('var', 'let') and j + 1 < hi and toks[j + 1].kind == 'id':
            return (('static_' + kw) if static else kw, toks[j + 1].text, j + 1)
        if kw == 'case':
            return ('case', None, j)
        if kw in ('switch', 'if', 'guard', 'for', 'while', 'do', 'catch', 'else', 'default', 'return'):
            return (kw, None, j)
        return None

    def close_statement(lo, hi, opener):
        """statement tokens [lo, hi); opener = index of the `{` starting its body, or None"""
        if lo >= hi:
            return None
        c = classify(lo, hi)
        if c is None:
            return None
        kind, name, _ = c
        if not in_type_ctx():
            return c
        scope = type_scope()
        if kind == 'case':
            if ctx and ctx[-1]['kind'] == 'enum':
                # case a(T), b
                j = c[2] + 1
                while j < hi:
                    if toks[j].kind == 'id':
                        k = j + 1
                        if k < hi and toks[k].text == '(':
                            d = 1
                            k += 1
                            while k < hi and d:
                                d += toks[k].text == '('
                                d -= toks[k].text == ')'
                                k += 1
                        decls.append(dict(kind='case', scope=scope, name=toks[j].text, line=toks[j].line,
                                          lo=j, hi=k, head=(j, k)))
                        j = k
                        if j < hi and toks[j].text == ',':
                            j += 1
                            continue
                        break
                    j += 1
            return c
        if kind in SWIFT_TYPE_KW or kind in ('func', 'init', 'var', 'let', 'static_var', 'static_let'):
            d = dict(kind=kind, scope=scope, name=name, line=toks[lo].line, lo=lo, hi=hi, head=(lo, hi))
            decls.append(d)
            return (kind, name, d)
        return c

    while i < n:
        t = toks[i]
        if t.kind == 'punct' and t.text in '([':
            par += 1
        elif t.kind == 'punct' and t.text in ')]':
            par = max(0, par - 1)
        elif t.kind == 'punct' and t.text == '{':
            if par > 0:
                # closure / block inside an expression: an anonymous context
                ctx.append(dict(kind='expr', name=None, decl=None, par=par, stmt_lo=stmt_lo))
                par = 0
                stmt_lo = i + 1
            else:
                c = close_statement(stmt_lo, i, i)
                kind = c[0] if c else 'other'
                dd = c[2] if c and isinstance(c[2], dict) else None
                ctx.append(dict(kind=kind if kind in SWIFT_TYPE_KW else (kind or 'other'),
                                name=c[1] if c else None, decl=dd, par=0, stmt_lo=None))
                stmt_lo = i + 1
        elif t.kind == 'punct' and t.text == '}':
            if par == 0:
                close_statement(stmt_lo, i, None)
            if ctx:
                top = ctx.pop()
                if top['decl'] is not None:
                    top['decl']['hi'] = i + 1
                if top['kind'] == 'expr':
                    par = top['par']
                    stmt_lo = top['stmt_lo']
                    i += 1
                    continue
            par = 0
            stmt_lo = i + 1
        elif t.kind == 'punct' and t.text == ';' and par == 0:
            close_statement(stmt_lo, i, None)
            stmt_lo = i + 1
        elif par == 0 and i > stmt_lo and t.line > toks[i - 1].line:
            prev = toks[i - 1]
            cont = (t.kind == 'punct' and t.text in ('->', '.', '?', ':', ',', '=', '&', '|', '+', '-', '*', '/')) or \
                   (prev.kind == 'punct' and prev.text in ('->', '.', ':', ',', '=', '&', '|', '+', '-', '*', '/', '@')) or \
                   (prev.kind == 'id' and prev.text in SWIFT_MODIFIERS) or \
                   (prev.kind == 'id' and i - 2 >= stmt_lo and toks[i - 2].text == '@') or \
                   (prev.kind == 'punct' and prev.text == ')' and _attr_close(toks, stmt_lo, i - 1))
            if not cont:
                close_statement(stmt_lo, i, None)
                stmt_lo = i
        i += 1
    if stmt_lo < n and par == 0:
        close_statement(stmt_lo, n, None)
    return decls


def _attr_close(toks, lo, k):
    """is toks[k] == ')' the end of an attribute such as @available(...) that starts the statement?"""
    d = 0
    j = k
    while j >= lo:
        if toks[j].text == ')':
            d += 1
        elif toks[j].text == '(':
            d -= 1
            if d == 0:
                return j - 2 >= lo and toks[j - 2].text == '@' and j - 2 == lo or \
                    (j - 2 >= lo and toks[j - 2].text == '@' and all(
                        toks[x].text == '@' or toks[x - 1].text == '@' for x in range(lo, j - 2) if toks[x].kind != 'punct'))
        j -= 1
    return False


def scan_objc(toks):
    decls = []
    n = len(toks)
    i = 0
    cur = None          # current @interface / @implementation decl
    depth = 0           # { } depth
    par = 0
    while i < n:
        t = toks[i]
        if t.kind == 'punct' and t.text == '{':
            depth += 1
        elif t.kind == 'punct' and t.text == '}':
            depth = max(0, depth - 1)
        elif t.kind == 'punct' and t.text in '([':
            par += 1
        elif t.kind == 'punct' and t.text in ')]':
            par = max(0, par - 1)
        elif t.kind == 'at' and t.text in ('@interface', '@implementation') and i + 1 < n:
            kind = t.text[1:]
            cur = dict(kind=kind, scope=[], name=toks[i + 1].text, line=t.line, lo=i, hi=n, head=(i, i + 2))
            # head: up to the end of the line / protocol list
            j = i + 2
            while j < n and toks[j].line == t.line:
                j += 1
            cur['head'] = (i, j)
            decls.append(cur)
            depth = 0
            par = 0
            if j > i + 2 and toks[j - 1].text == '{':      # ivar block opens on the interface line
                depth = 1
            i = j
            continue
        elif t.kind == 'at' and t.text == '@end':
            if cur is not None:
                cur['hi'] = i + 1
            cur = None
        elif t.kind == 'at' and t.text == '@class' and cur is None:
            j = i + 1
            while j < n and toks[j].text != ';':
                if toks[j].kind == 'id':
                    decls.append(dict(kind='class_fwd', scope=[], name=toks[j].text, line=t.line, lo=i, hi=j + 1,
                                      head=(i, j + 1)))
                j += 1
            i = j
        elif t.kind == 'at' and t.text == '@property' and cur is not None and depth == 0:
            j = i
            while j < n and not (toks[j].text == ';' and toks[j].kind == 'punct'):
                j += 1
            name = toks[j - 1].text if j - 1 > i else None
            decls.append(dict(kind='property', scope=[cur['name']], name=name, line=t.line, lo=i, hi=j + 1,
                              head=(i, j + 1)))
            i = j
        elif t.kind == 'id' and t.text == 'typedef' and depth == 0 and par == 0 and i + 1 < n and \
                toks[i + 1].text in ('NS_CLOSED_ENUM', 'NS_ENUM', 'NS_OPTIONS'):
            # typedef NS_CLOSED_ENUM(NSInteger, Name) { A, B, };
            j = i + 2
            name = None
            while j < n and toks[j].text != ')':
                if toks[j].kind == 'id':
                    name = toks[j].text
                j += 1
            scope = [cur['name']] if cur else []
            d = dict(kind='enum', scope=scope, name=name, line=t.line, lo=i, hi=j, head=(i, j + 1))
            decls.append(d)
            j += 1
            if j < n and toks[j].text == '{':
                j += 1
                expect = True
                while j < n and toks[j].text != '}':
                    if toks[j].kind == 'id' and expect:
                        decls.append(dict(kind='enum_const', scope=scope + [name], name=toks[j].text,
                                          line=toks[j].line, lo=j, hi=j + 1, head=(j, j + 1)))
                        expect = False
                    elif toks[j].text == ',':
                        expect = True
                    j += 1
                d['hi'] = j + 1
            i = j
        elif t.kind == 'punct' and t.text in '+-' and depth == 0 and par == 0 and cur is not None and \
                i + 1 < n and toks[i + 1].text == '(' and (i == 0 or toks[i - 1].line < t.line):
            # method head: - (ret)part:(type)arg part2:(type)arg2 ... ;|{
            j = i + 1
            d = 0
            while j < n:
                d += toks[j].text == '('
                d -= toks[j].text == ')'
                j += 1
                if d == 0:
                    break
            sel = []
            pd = 0
            k = j
            while k < n and not (pd == 0 and toks[k].kind == 'punct' and toks[k].text in ';{'):
                tk = toks[k]
                if tk.text in '([':
                    pd += 1
                elif tk.text in ')]':
                    pd -= 1
                elif pd == 0 and tk.kind == 'id':
                    if k + 1 < n and toks[k + 1].text == ':':
                        sel.append(tk.text + ':')
                    elif not sel and (k + 1 >= n or toks[k + 1].text in (';', '{') or toks[k + 1].kind == 'id'):
                        sel.append(tk.text)            # no-argument selector (possibly followed by a macro)
                        k2 = k + 1
                        while k2 < n and toks[k2].text not in (';', '{'):
                            k2 += 1
                        k = k2
                        break
                k += 1
            decls.append(dict(kind='method', scope=[cur['name']], name=''.join(sel), cls=(t.text == '+'),
                              line=t.line, lo=i, hi=k + 1, head=(i, k),
                              unavailable=any(toks[x].kind == 'id' and toks[x].text == 'NS_UNAVAILABLE'
                                              for x in range(j, min(k, n)))))
            if k < n and toks[k].text == '{':
                # skip the body
                dd = 1
                k += 1
                while k < n and dd:
                    dd += toks[k].text == '{' and toks[k].kind == 'punct'
                    dd -= toks[k].text == '}' and toks[k].kind == 'punct'
                    k += 1
                decls[-1]['hi'] = k
                i = k
                continue
            i = k
        elif t.kind == 'id' and t.text == 'static' and depth == 0 and par == 0:
            j = i
            while j < n and toks[j].text not in (';', '=', '{'):
                j += 1
            if j < n and toks[j].text in (';', '=') and j - 1 > i and toks[j - 1].kind == 'id':
                decls.append(dict(kind='static_var', scope=[cur['name']] if cur else [], name=toks[j - 1].text,
                                  line=t.line, lo=i, hi=j + 1, head=(i, j + 1)))
        i += 1
    return decls


# ======================================================================================================
# 3. independent reading of the IR (as the backends see it: after remove_aliases_from_api)
# ======================================================================================================

def ty_json(t):
    from stone.ir import (Alias, List, Map, Nullable, Struct, Timestamp, Union)
    if isinstance(t, Nullable):
        return ['nullable', ty_json(t.data_type)]
    if isinstance(t, Alias):
        return ['alias', t.namespace.name, t.name]
    if isinstance(t, List):
        return ['list', ty_json(t.data_type)]
    if isinstance(t, Map):
        return ['map', ty_json(t.key_data_type), ty_json(t.value_data_type)]
    if isinstance(t, Struct):
        return ['user', t.namespace.name, t.name]
    if isinstance(t, Union):
        return ['user', t.namespace.name, t.name]
    if isinstance(t, Timestamp):
        return ['ts', t.format]
    return ['prim', t.name]


def _default_json(f):
    from stone.ir.data_types import TagRef
    if not getattr(f, 'has_default', False):
        return None
    v = f.default
    if isinstance(v, TagRef):
        return ['tag', v.union_data_type.namespace.name, v.union_data_type.name, v.tag_name]
    if isinstance(v, str):
        return ['lit', 'str', v]
    return ['lit', type(v).__name__]


def api_json(api):
    """[(ns name, {...})] in api order; struct: own fields, parent, direct enumerated subtypes; union: own tags,
    parent, closed; route: name, version, arg/result/error, deprecated, style, auth."""
    from stone.ir import Struct
    out = []
    for ns in api.namespaces.values():
        types = []
        for dt in ns.linearize_data_types():
            par = [dt.parent_type.namespace.name, dt.parent_type.name] if dt.parent_type else None
            fields = [{'name': f.name, 'ty': ty_json(f.data_type), 'has_default': bool(getattr(f, 'has_default', False)),
                       'default': _default_json(f)} for f in dt.fields]
            if isinstance(dt, Struct):
                subs = None
                if dt.has_enumerated_subtypes():
                    subs = [[f.name, [f.data_type.namespace.name, f.data_type.name]]
                            for f in dt.get_enumerated_subtypes()]
                types.append({'kind': 'struct', 'name': dt.name, 'parent': par, 'fields': fields, 'subtypes': subs,
                              'catch_all': bool(subs is not None and dt.is_catch_all())})
            else:
                types.append({'kind': 'union', 'name': dt.name, 'parent': par, 'fields': fields,
                              'closed': bool(dt.closed)})
        routes = []
        for r in ns.routes:
            routes.append({'name': r.name, 'version': r.version, 'arg': ty_json(r.arg_data_type),
                           'result': ty_json(r.result_data_type), 'error': ty_json(r.error_data_type),
                           'deprecated': r.deprecated is not None,
                           'style': r.attrs.get('style'), 'auth': r.attrs.get('auth')})
        out.append({'name': ns.name, 'types': types, 'routes': routes})
    return out


class Ir:
    """lookups over api_json"""

    def __init__(self, aj):
        self.nss = aj
        self.types = {}
        for ns in aj:
            for t in ns['types']:
                self.types[(ns['name'], t['name'])] = t

    def chain(self, ns, t):
        out = [(ns, t)]
        seen = 0
        while out[0][1]['parent'] and seen < 64:
            seen += 1
            p = tuple(out[0][1]['parent'])
            out.insert(0, (p[0], self.types[p]))
        return out

    def all_fields(self, ns, t):
        ch = self.chain(ns, t)
        if t['kind'] == 'union':
            return [f for _n, c in ch for f in c['fields']]
        fs = [f for _n, c in ch for f in c['fields']]
        opt = [f for f in fs if f['has_default'] or f['ty'][0] == 'nullable']
        req = [f for f in fs if not (f['has_default'] or f['ty'][0] == 'nullable')]
        return req + opt

    def all_subtypes(self, ns, t):
        out = []
        queue = [tuple(q) for _tag, q in (t.get('subtypes') or [])]
        while queue:
            q = queue.pop(0)
            out.append(q)
            for _tag, q2 in (self.types[q].get('subtypes') or []):
                queue.append(tuple(q2))
        return out


def user_types_of(ty):
    k = ty[0]
    if k == 'user':
        return [(ty[1], ty[2])]
    if k in ('nullable', 'list'):
        return user_types_of(ty[1])
    if k == 'map':
        return user_types_of(ty[1]) + user_types_of(ty[2])
    return []


def aliases_of(ty):
    k = ty[0]
    if k == 'alias':
        return [(ty[1], ty[2])]
    if k in ('nullable', 'list'):
        return aliases_of(ty[1])
    if k == 'map':
        return aliases_of(ty[1]) + aliases_of(ty[2])
    return []


# ======================================================================================================
# 4. reference naming (a port of the naming schemes, used ONLY to decide whether two IR names are meant to collide)
# ======================================================================================================

_CAP_RE = re.compile('^[a-z0-9]+|[A-Z][a-z0-9]+|[A-Z]+(?=[A-Z][a-z0-9])|[A-Z]+$')


def ref_split_words(name):
    out = []
    for w in re.split('[-_/]+', name):
        vals = _CAP_RE.findall(w)
        out.extend(vals if vals else [w])
    return out


def ref_swift_camel(name, lower_first, reserved):
    words = [w.capitalize() for w in ref_split_words(name)]
    if lower_first:
        words[0] = words[0].lower()
    ret = ''.join(words)
    if ret.lower() in reserved:
        ret += '_'
    return ret


def ref_objc_camel(name, upper_first, reserved, prefixes=('copy', 'new')):
    words = [w.capitalize() for w in ref_split_words(str(name))]
    if not upper_first:
        words[0] = words[0].lower()
    ret = ''.join(words)
    if ret.lower() in reserved:
        ret += '_'
    for p in prefixes:
        if ret.lower().startswith(p):
            ret = ('D' if upper_first else 'd') + ret[0].upper() + ret[1:]
    return ret


class Names:
    """real naming functions of the tree under test + the reference port"""

    def __init__(self):
        from stone.backends import swift_helpers as sh, obj_c_helpers as oh
        self.sh, self.oh = sh, oh
        self.sw_reserved = set(sh._reserved_words)
        self.oc_reserved = set(oh._reserved_words)

    # Swift (real)
    def s_class(self, n):
        return self.sh.fmt_class(n)

    def s_var(self, n):
        return self.sh.fmt_var(n)

    def s_func(self, n, v):
        return self.sh.fmt_func(n, v)

    # ObjC (real)
    def o_upper(self, n):
        return self.oh.fmt_camel_upper(n)

    def o_var(self, n):
        return self.oh.fmt_var(n)

    def o_caps(self, n):
        return self.oh.fmt_class_caps(n)

    # reference
    def rs_class(self, n):
        return ref_swift_camel(n, False, self.sw_reserved)

    def rs_var(self, n):
        return ref_swift_camel(n, True, self.sw_reserved)

    def rs_func(self, n, v):
        return ref_swift_camel('%s_v%d' % (n, v) if v > 1 else n, True, self.sw_reserved)

    def ro_upper(self, n):
        return ref_objc_camel(n, True, self.oc_reserved)

    def ro_var(self, n):
        return ref_objc_camel(n, False, self.oc_reserved)

    def ro_caps(self, n):
        return ref_objc_camel(n, True, self.oc_reserved).upper()


# ======================================================================================================
# 5. expected declarations per invocation (independent reading; real naming for the name, reference naming for
#    the collision pre-check)
# ======================================================================================================
# item = dict(unit ('' | 'h' | 'm'), kind, scope (tuple), name, ref (same shape with reference naming), count,
#             what (IR item description))

def _sw_valid(route, auth):
    a = route['auth']
    if auth == 'app':
        return a == 'app' or ('app' in a)
    return a != 'app'


def _oc_should(route, auth):
    parts = [x.strip() for x in route['auth'].split(',')]
    return auth in parts or ('noauth' in parts and auth == 'user')


def _struct_has_defaults(ir, ty):
    if ty[0] != 'user':
        return False
    t = ir.types.get((ty[1], ty[2]))
    if not t or t['kind'] != 'struct':
        return False
    return any(f['has_default'] or f['ty'][0] == 'nullable' for f in ir.all_fields(ty[1], t))


def expected_items(key, ir, nm, opts):
    E = []

    def add(unit, kind, scope, name, rscope, rname, what, count=1):
        E.append(dict(unit=unit, kind=kind, scope=tuple(scope), name=name, rkey=(unit, kind, tuple(rscope), rname),
                      what=what, count=count))

    sw_auth, oc_auth = opts.get('sw_auth'), opts.get('oc_auth', 'user')
    T = client_tables(opts)
    for ns in ir.nss:
        nsn = ns['name']
        N, RN = nm.s_class(nsn), nm.rs_class(nsn)
        if key == 'swift_types':
            add('', 'class', [], N, [], RN, 'namespace %s' % nsn)
            for t in ns['types']:
                T, RT = nm.s_class(t['name']), nm.rs_class(t['name'])
                w = '%s %s.%s' % (t['kind'], nsn, t['name'])
                add('', 'class' if t['kind'] == 'struct' else 'enum', [N], T, [RN], RT, w)
                add('', 'class', [N], T + 'Serializer', [RN], RT + 'Serializer', 'serializer of ' + w)
                fields = t['fields'] if t['kind'] == 'struct' else ir.all_fields(nsn, t)
                for f in fields:
                    add('', 'let' if t['kind'] == 'struct' else 'case', [N, T], nm.s_var(f['name']), [RN, RT],
                        nm.rs_var(f['name']), '%s %s of %s' % ('field' if t['kind'] == 'struct' else 'tag', f['name'], w))
            for r in ns['routes']:
                add('', 'static_let', [N], nm.s_func(r['name'], r['version']), [RN],
                    nm.rs_func(r['name'], r['version']), 'route %s.%s:%d' % (nsn, r['name'], r['version']))
        elif key == 'swift_types_objc':
            for t in ns['types']:
                T, RT = nm.s_class(t['name']), nm.rs_class(t['name'])
                C, RC = 'DBX' + N + T, 'DBX' + RN + RT
                w = '%s %s.%s' % (t['kind'], nsn, t['name'])
                add('', 'class', [], C, [], RC, w)
                if t['kind'] == 'struct':
                    for f in t['fields']:
                        add('', 'var', [C], nm.s_var(f['name']), [RC], nm.rs_var(f['name']),
                            'field %s of %s' % (f['name'], w))
                else:
                    for f in ir.all_fields(nsn, t):
                        F, RF = nm.s_class(f['name']), nm.rs_class(f['name'])
                        add('', 'class', [], C + F, [], RC + RF, 'tag %s of %s' % (f['name'], w))
                        add('', 'var', [C], 'as' + F, [RC], 'as' + RF, 'tag accessor %s of %s' % (f['name'], w))
        elif key in ('swift_client', 'swift_client_objc'):
            objc = key.endswith('objc')
            valid = [r for r in ns['routes'] if _sw_valid(r, sw_auth)]
            if not ns['routes'] or not valid:
                continue
            cn = nsn + ('AppAuth' if sw_auth == 'app' else '')
            if not objc:
                C, RC = nm.s_class(cn) + 'Routes', nm.rs_class(cn) + 'Routes'
            else:
                C, RC = 'DBX' + nm.s_class(cn) + 'Routes', 'DBX' + nm.rs_class(cn) + 'Routes'
            add('', 'class', [], C, [], RC, 'routes of namespace %s' % nsn)
            for r in valid:
                w = 'route %s.%s:%d' % (nsn, r['name'], r['version'])
                variants = T['sw_args'].get(r['style'], [None])
                if not objc:
                    add('', 'func', [C], nm.s_func(r['name'], r['version']), [RC], nm.rs_func(r['name'], r['version']),
                        w, count=len(variants))
                else:
                    if not r['deprecated']:
                        per = collections.Counter()
                        for ad in variants:
                            suffix = ad[1][-1][-2] if (ad and ad[1]) else ''
                            per[suffix] += 1 + (1 if _struct_has_defaults(ir, r['arg']) else 0)
                        for suffix, cnt in per.items():
                            add('', 'func', [C], nm.s_func(r['name'], r['version']) + suffix, [RC],
                                nm.rs_func(r['name'], r['version']) + suffix, w, count=cnt)
                    if not (sw_auth == 'app' and r['auth'] != 'app'):
                        seen = set()
                        for ad in variants:
                            req = T['sw_req'][ad[0] if ad else r['style']]
                            ver = ('V%d' % r['version']) if r['version'] > 1 else ''
                            nme = 'DBX' + N + nm.s_class(r['name']) + req + ver
                            rnme = 'DBX' + RN + nm.rs_class(r['name']) + req + ver
                            if (nme, rnme) in seen:
                                continue
                            seen.add((nme, rnme))
                            add('', 'class', [], nme, [], rnme,
                                'request wrapper of ' + w)
        elif key == 'obj_c_types':
            NS, RNS = nm.o_caps(nsn), nm.ro_caps(nsn)
            for t in ns['types']:
                C, RC = 'DB' + NS + nm.o_upper(t['name']), 'DB' + RNS + nm.ro_upper(t['name'])
                w = '%s %s.%s' % (t['kind'], nsn, t['name'])
                for unit, kind in (('h', 'interface'), ('m', 'implementation')):
                    add(unit, kind, [], C, [], RC, w)
                    add(unit, kind, [], C + 'Serializer', [], RC + 'Serializer', 'serializer of ' + w)
                if t['kind'] == 'struct':
                    for f in t['fields']:
                        add('h', 'property', [C], nm.o_var(f['name']), [RC], nm.ro_var(f['name']),
                            'field %s of %s' % (f['name'], w))
                else:
                    TG, RTG = C + nm.o_upper('tag'), RC + nm.ro_upper('tag')
                    add('h', 'enum', [C], TG, [RC], RTG, 'tag enum of ' + w)
                    for f in ir.all_fields(nsn, t):
                        add('h', 'enum_const', [C, TG], C + nm.o_upper(f['name']), [RC, RTG],
                            RC + nm.ro_upper(f['name']), 'tag %s of %s' % (f['name'], w))
                        if f['ty'] != ['prim', 'Void']:
                            add('h', 'property', [C], nm.o_var(f['name']), [RC], nm.ro_var(f['name']),
                                'tag value %s of %s' % (f['name'], w))
            if ns['routes']:
                C, RC = 'DB' + NS + 'RouteObjects', 'DB' + RNS + 'RouteObjects'
                add('h', 'interface', [], C, [], RC, 'route objects of %s' % nsn)
                add('m', 'implementation', [], C, [], RC, 'route objects of %s' % nsn)
                for r in ns['routes']:
                    ver = ('V%d' % r['version']) if r['version'] != 1 else ''
                    V, RV = 'DB' + NS + nm.o_upper(r['name']) + ver, 'DB' + RNS + nm.ro_upper(r['name']) + ver
                    w = 'route %s.%s:%d' % (nsn, r['name'], r['version'])
                    add('h', 'method', [C], V, [RC], RV, w)
                    add('m', 'method', [C], V, [RC], RV, w)
                    add('m', 'static_var', [C], V, [RC], RV, w)
        elif key == 'obj_c_client':
            NS, RNS = nm.o_caps(nsn), nm.ro_caps(nsn)
            gen = [r for r in ns['routes'] if _oc_should(r, oc_auth)]
            if not gen:
                continue
            au = 'user' if oc_auth == 'noauth' else oc_auth
            C, RC = 'DB%s%sAuthRoutes' % (NS, nm.o_upper(au)), 'DB%s%sAuthRoutes' % (RNS, nm.ro_upper(au))
            add('h', 'interface', [], C, [], RC, 'routes of namespace %s' % nsn)
            add('m', 'implementation', [], C, [], RC, 'routes of namespace %s' % nsn)
            per = collections.Counter()
            whatof = {}
            for r in gen:
                ver = ('V%d' % r['version']) if r['version'] != 1 else ''
                base, rbase = nm.o_var(r['name']) + ver, nm.ro_var(r['name']) + ver
                mult = 2 if _struct_has_defaults(ir, r['arg']) else 1
                for ad in T['oc_args'].get(r['style'], [None]):
                    suffix = ad[1][0] if ad else ''
                    per[(base + suffix, rbase + suffix)] += mult
                    whatof[(base + suffix, rbase + suffix)] = 'route %s.%s:%d' % (nsn, r['name'], r['version'])
            for (n1, r1), cnt in per.items():
                add('h', 'method1', [C], n1, [RC], r1, whatof[(n1, r1)], count=cnt)
                add('m', 'method1', [C], n1, [RC], r1, whatof[(n1, r1)], count=cnt)
    # client containers
    if key in ('swift_client', 'swift_client_objc'):
        objc = key.endswith('objc')
        C = ('DBX' if objc else '') + CLASS
        add('', 'class', [], C, [], C, 'client class')
        bg = []
        for ns in ir.nss:
            valid = [r for r in ns['routes'] if _sw_valid(r, sw_auth)]
            if valid:
                add('', 'var', [C], nm.s_var(ns['name']), [C], nm.rs_var(ns['name']),
                    'client member for namespace %s' % ns['name'])
            bg += [(ns, r) for r in valid if r['style'] in T['sw_args']]
        if bg:
            B = CLASS + 'RequestBox'
            add('', 'extension' if objc else 'enum', [], B, [], B, 'request box')
            if not objc:
                for ns, r in bg:
                    add('', 'case', [B], '%s_%s' % (ns['name'], nm.s_func(r['name'], r['version'])), [B],
                        '%s_%s' % (ns['name'], nm.rs_func(r['name'], r['version'])),
                        'request box case of route %s.%s:%d' % (ns['name'], r['name'], r['version']))
    if key == 'obj_c_client':
        add('h', 'interface', [], CLASS, [], CLASS, 'client class')
        add('m', 'implementation', [], CLASS, [], CLASS, 'client class')
        for ns in ir.nss:
            if [r for r in ns['routes'] if _oc_should(r, oc_auth)]:
                add('h', 'property', [CLASS], nm.o_var(ns['name']) + 'Routes', [CLASS], nm.ro_var(ns['name']) + 'Routes',
                    'client member for namespace %s' % ns['name'])
    return E


# ======================================================================================================
# 6. names the generators mention literally (templates, string constants, tables, options)
# ======================================================================================================

_builtin_cache = {}


def _py_string_constants(path):
    """string constants of a Python source file, docstrings excluded"""
    src = open(path, encoding='utf-8').read()
    tree = ast.parse(src)
    doc_ids = set()
    for node in ast.walk(tree):
        if isinstance(node, (ast.Module, ast.ClassDef, ast.FunctionDef, ast.AsyncFunctionDef)) and node.body:
            b0 = node.body[0]
            if isinstance(b0, ast.Expr) and isinstance(b0.value, ast.Constant) and isinstance(b0.value.value, str):
                doc_ids.add(id(b0.value))
    out = []
    for node in ast.walk(tree):
        if isinstance(node, ast.Constant) and isinstance(node.value, str) and id(node) not in doc_ids:
            out.append(node.value)
    return out


def builtin_names(lang):
    """identifiers that occur literally in the generator sources of `lang` ('swift' | 'objc')"""
    if lang in _builtin_cache:
        return _builtin_cache[lang]
    bdir = os.path.join(core.REPO, 'stone', 'backends')
    names = set()
    if lang == 'swift':
        rs = os.path.join(bdir, 'swift_rsrc')
        for f in sorted(os.listdir(rs)):
            if f.endswith('.jinja'):
                t = open(os.path.join(rs, f), encoding='utf-8').read()
                t = re.sub(r'\{#.*?#\}', ' ', t, flags=re.S)
                t = re.sub(r'\{%.*?%\}', ' ', t, flags=re.S)
                t = re.sub(r'\{\{.*?\}\}', ' \x00 ', t, flags=re.S)
                # identifiers glued to an expression hole are prefixes / suffixes of generated names, not names
                for m in re.finditer(r'[A-Za-z_][A-Za-z0-9_]*', t):
                    if (m.start() >= 2 and t[m.start() - 2:m.start()] == '\x00 ' and False):
                        continue
                    names.add(m.group())
        for f in ('swift.py', 'swift_helpers.py', 'swift_types.py', 'swift_client.py'):
            for s in _py_string_constants(os.path.join(bdir, f)):
                names.update(re.findall(r'[A-Za-z_][A-Za-z0-9_]*', s))
        for d in (SW_CLIENT_ARGS, SW_CLIENT_ARGS_ALT, SW_CLIENT_ARGS_MULTI):
            for variants in d.values():
                for v in variants:
                    for a in v[1]:
                        for s in a[:3]:
                            names.update(re.findall(r'[A-Za-z_][A-Za-z0-9_]*', s))
        names.update(SW_STYLE_TO_REQUEST.values())
        names.update(SW_STYLE_TO_REQUEST_ALT.values())
        names.update([TRANSPORT, 'DBX' + TRANSPORT])
    else:
        for f in ('obj_c.py', 'obj_c_helpers.py', 'obj_c_types.py', 'obj_c_client.py'):
            for s in _py_string_constants(os.path.join(bdir, f)):
                names.update(re.findall(r'[A-Za-z_][A-Za-z0-9_]*', s))
        for variants in list(OC_CLIENT_ARGS.values()) + list(OC_CLIENT_ARGS_ALT.values()) + \
                list(OC_CLIENT_ARGS_MULTI.values()):
            for v in variants:
                for a in v[1][1]:
                    for s in a[:3]:
                        names.update(re.findall(r'[A-Za-z_][A-Za-z0-9_]*', s))
        names.update(OC_STYLE_TO_REQUEST.values())
        names.update(OC_STYLE_TO_REQUEST_ALT.values())
        names.update([TRANSPORT, TRANSPORT + 'Protocol', MODULE])
    _builtin_cache[lang] = names
    return names


# ======================================================================================================
# 7. the direct oracle on one compiled spec
# ======================================================================================================

def _site_of(tb_text):
    """innermost frame inside stone/backends (file:function) of a formatted traceback"""
    site = None
    for m in re.finditer(r'File "([^"]+)", line \d+, in (\S+)', tb_text):
        f = m.group(1).replace('\\', '/')
        if '/stone/backends/' in f:
            site = '%s:%s' % (f.split('/stone/backends/')[1], m.group(2))
        elif '/stone/' in f and site is None:
            site = '%s:%s' % (f.split('/stone/')[1], m.group(2))
    return site or '?'


def run_backend(api, backend, args, out):
    """-> None or dict(exc, site, last)"""
    from stone.compiler import Compiler, BackendException
    mod = importlib.import_module('stone.backends.' + backend)
    try:
        Compiler(api, mod, list(args), out).build()
    except BackendException as e:
        tb = e.traceback
        last = tb.strip().splitlines()[-1]
        return {'exc': last.split(':')[0].split('.')[-1].strip(), 'site': _site_of(tb), 'last': last[:300]}
    except SystemExit as e:
        return {'exc': 'SystemExit', 'site': 'argparse', 'last': str(e)[:200]}
    except Exception as e:                                     # noqa: BLE001 - anything else is a failure too
        return {'exc': type(e).__name__, 'site': _site_of(traceback.format_exc()), 'last': repr(e)[:300]}
    return None


def read_tree(root):
    out = {}
    for r, _ds, fs in os.walk(root):
        for f in fs:
            p = os.path.join(r, f)
            rel = os.path.relpath(p, root)
            try:
                out[rel] = open(p, encoding='utf-8').read()
            except UnicodeDecodeError:
                out[rel] = open(p, encoding='latin-1').read()
    return out


_HAZ = re.compile(r'["\\\n]')


def text_hazards(api):
    """spec-supplied texts of the API that need escaping where they are printed inside a string literal"""
    from stone.ir import List, Map, Nullable, String, Timestamp
    haz = {'default': [], 'pattern': [], 'format': [], 'attr': []}

    def walk(t):
        if isinstance(t, Nullable) or isinstance(t, List):
            walk(t.data_type)
        elif isinstance(t, Map):
            walk(t.key_data_type)
            walk(t.value_data_type)
        elif isinstance(t, String) and t.pattern and _HAZ.search(t.pattern):
            haz['pattern'].append(t.pattern)
        elif isinstance(t, Timestamp) and _HAZ.search(t.format):
            haz['format'].append(t.format)
        elif hasattr(t, 'data_type') and not hasattr(t, 'fields'):
            walk(t.data_type)                                  # alias
    for ns in api.namespaces.values():
        for dt in ns.data_types:
            for f in dt.fields:
                walk(f.data_type)
                v = getattr(f, 'default', None) if getattr(f, 'has_default', False) else None
                if isinstance(v, str) and _HAZ.search(v):
                    haz['default'].append(v)
        for r in ns.routes:
            for part in (r.arg_data_type, r.result_data_type, r.error_data_type):
                walk(part)
            for v in r.attrs.values():
                if isinstance(v, str) and _HAZ.search(v):
                    haz['attr'].append(v)
    return haz


def lexical_cause(what, text_line, api):
    """attribute a lexical problem to the printing SITE of a spec-supplied text (so that a different malformed output
    keeps cause 'unknown' and the sites do not mask each other): Timestamp format, route attribute, String pattern,
    default value -- in this order, by the marker of the site on the offending line"""
    haz = text_hazards(api) if api is not None else {'default': [], 'pattern': [], 'format': [], 'attr': []}
    if haz['format'] and ('NSDateSerializer(' in text_line or 'dateFormat:@' in text_line):
        return 'timestamp-format-unescaped'
    if any(v in text_line for v in haz['attr']) and \
            (re.search(r'@"\w+": @"', text_line) or re.search(r'(^\s*|RouteAttributes\()\w+: \[?\.', text_line)):
        return 'route-attr-unescaped'
    if 'pattern:' in text_line:
        if haz['pattern'] or not any(v in text_line for v in haz['default']):
            return 'string-pattern-escaping'
    if any(v in text_line for v in haz['default']):
        return 'string-default-unescaped'
    if what == 'mismatched-bracket' and re.search(r'\(arg( \})+\)', text_line):
        return 'objc-union-arg-nested-list'
    return 'unknown'


def is_resource(key, rel):
    return rel.startswith('Resources' + os.sep) or rel in ('StoneBase.swift', 'StoneSerializers.swift',
                                                            'StoneValidators.swift')


def scan_output(key, files):
    """files: {rel: text} -> (lex problems, decls with unit/file, tokens by file)"""
    problems = []
    decls = []
    tokens = {}
    for rel in sorted(files):
        toks, probs = lex_file(rel, files[rel])
        if toks is None:
            continue
        for p in probs:
            problems.append({'file': rel, 'what': p[0], 'detail': p[1], 'line': p[2], 'col': p[3]})
        if is_resource(key, rel):
            continue
        tokens[rel] = toks
        if probs:
            continue
        ds = scan_swift(toks) if rel.endswith('.swift') else scan_objc(toks)
        unit = '' if rel.endswith('.swift') else rel[-1]
        for d in ds:
            d['file'] = rel
            d['unit'] = unit
            decls.append(d)
    return problems, decls, tokens


def _match_key(d):
    kind = d['kind']
    return (d['unit'], kind, tuple(d['scope']), d['name'])


def check_decls(key, E, decls):
    """exactly-once + coverage. -> list of (what, sig, detail)"""
    out = []
    obs = collections.Counter()
    for d in decls:
        obs[_match_key(d)] += 1
        if d['kind'] == 'method':
            first = d['name'].split(':')[0]
            obs[(d['unit'], 'method1', tuple(d['scope']), first)] += 1
    # collisions under the reference naming: not judged
    rcount = collections.Counter(e['rkey'] for e in E)
    groups = collections.OrderedDict()
    for e in E:
        groups.setdefault((e['unit'], e['kind'], e['scope'], e['name']), []).append(e)
    for k, es in groups.items():
        e = es[0]
        if any(rcount[x['rkey']] > 1 for x in es):
            out.append(('collision', None, {'item': e['what'], 'name': e['name']}))
            continue
        got = obs.get(k, 0)
        if len({x['rkey'] for x in es}) > 1:
            # distinct items (distinct names under the documented scheme) were given ONE name by the code
            out.append(('duplicate-declaration', {'oracle': 'exactly-once', 'backend': key, 'kind': e['kind']},
                        {'items': [x['what'] for x in es], 'name': e['name'], 'scope': list(e['scope']),
                         'unit': e['unit'], 'found': got,
                         'why': 'items with different names under the naming scheme share one generated name'}))
            continue
        want = sum(x['count'] for x in es)
        if got < want:
            out.append(('missing-declaration', {'oracle': 'coverage', 'backend': key, 'kind': e['kind']},
                        {'item': e['what'], 'expected_name': e['name'], 'scope': list(e['scope']), 'unit': e['unit'],
                         'expected_count': want, 'found': got}))
        elif got > want:
            out.append(('duplicate-declaration', {'oracle': 'exactly-once', 'backend': key, 'kind': e['kind']},
                        {'item': e['what'], 'name': e['name'], 'scope': list(e['scope']), 'unit': e['unit'],
                         'expected_count': want, 'found': got}))
    return out


def check_two_passes(key, first_decls, second_decls):
    """swift_client is run twice into one output folder (user client, then --auth-type app; the app pass leaves out
    what "the user auth client" already defined). Over the folder after both runs every top-level class / enum /
    struct / protocol is declared exactly once. -> (what, sig, detail)"""
    out = []
    rewritten = {d['file'] for d in second_decls}
    where = collections.OrderedDict()
    for which, decls in (('user', first_decls), ('app', second_decls)):
        for d in decls:
            if d['scope'] or d['kind'] not in ('class', 'enum', 'struct', 'protocol'):
                continue
            if which == 'user' and d['file'] in rewritten:
                continue
            where.setdefault(d['name'], []).append('%s (%s pass)' % (d['file'], which))
    for name, files in where.items():
        if len(files) > 1:
            out.append(('duplicate-declaration', {'oracle': 'exactly-once', 'backend': key, 'kind': 'type-across-passes'},
                        {'name': name, 'declared_in': files, 'backend': key,
                         'why': 'the user pass and the --auth-type app pass into one folder both declare it'}))
    return out


def check_selectors(key, decls):
    """Objective-C: header and implementation of one class agree on its methods. obj_c_client: every selector the
    header of a routes / client class declares is defined in the implementation, equally often, and the other way round
    (a route method is the same declaration in both units). obj_c_types: every selector a header declares is defined
    (implementations also override NSObject / protocol methods the header does not repeat). -> (what, sig, detail)"""
    out = []
    by = collections.OrderedDict()
    for d in decls:
        if d['kind'] == 'method' and d['unit'] in ('h', 'm') and d['scope'] and not d.get('unavailable'):
            hm = by.setdefault(d['scope'][0], {'h': collections.Counter(), 'm': collections.Counter(), 'line': {}})
            sel = ('+' if d.get('cls') else '-') + d['name']
            hm[d['unit']][sel] += 1
            hm['line'].setdefault((d['unit'], sel), (d['file'], d['line']))
    both = key == 'obj_c_client'
    for cls, hm in by.items():
        for sel in sorted(set(hm['h']) | set(hm['m'])):
            h, m = hm['h'].get(sel, 0), hm['m'].get(sel, 0)
            if h == m or (not both and h <= m):
                continue
            if h > m:
                what, where = 'declared-not-defined', hm['line'][('h', sel)]
            else:
                what, where = 'defined-not-declared', hm['line'][('m', sel)]
            # the nearest selector of the other unit with the same first part: what the two units disagree on
            other = 'm' if h > m else 'h'
            first = sel.split(':')[0]
            near = sorted(x for x in hm[other] if x.split(':')[0] == first and hm['h'].get(x, 0) != hm['m'].get(x, 0))
            out.append(('selector-mismatch', {'oracle': 'exactly-once', 'backend': key, 'kind': 'selector-h-m',
                                              'what': what},
                        {'class': cls, 'selector': sel, 'in_header': h, 'in_implementation': m,
                         'file': where[0], 'line': where[1], 'other_unit_has': near[:4]}))
    return out


_CAP = re.compile(r'^[A-Z]')
IR_BUILTIN_NAMES = ('Boolean', 'Bytes', 'Float32', 'Float64', 'Int32', 'Int64', 'UInt32', 'UInt64', 'String', 'Timestamp',
                    'Void', 'List', 'Map', 'Nullable')


def leak_causes(ir, alias_names, style):
    """{generated name: cause} for alias names that survive in the IR the backends see"""
    below, dflt = set(), set()
    for ns in ir.nss:
        for t in ns['types']:
            for f in t['fields']:
                below.update(a[1] for a in aliases_of(f['ty']))
                d = f.get('default')
                if d and d[0] == 'tag' and (d[1], d[2]) not in ir.types:
                    dflt.add(d[2])
        for r in ns['routes']:
            for part in ('arg', 'result', 'error'):
                below.update(a[1] for a in aliases_of(r[part]))
    out = {}
    for n in dflt:
        out[style(n)] = 'alias-in-tag-default'
    for n in below:
        out[style(n)] = 'alias-below-map'
    for _ns, n in alias_names:
        out.setdefault(style(n), 'alias-name')
    return out


def _cause(causes, name):
    for suf in ('', 'Serializer'):
        if name.endswith(suf) and name[:len(name) - len(suf)] in causes:
            return causes[name[:len(name) - len(suf)]]
    return 'unknown'


def swift_closure(ir, nm, outputs, decls_by_key, alias_names=()):
    """outputs: {key: tokens by file}. -> list of (what, sig, detail)"""
    out = []
    causes = leak_causes(ir, alias_names, nm.s_class)
    # `swift_client._get_route_args`: a union argument is printed with the namespace of the ROUTE
    foreign_union = set()
    for ns in ir.nss:
        for r in ns['routes']:
            a = r['arg']
            if a[0] == 'user' and a[1] != ns['name'] and ir.types.get((a[1], a[2]), {}).get('kind') == 'union':
                foreign_union.add(nm.s_class(ns['name']) + '.' + nm.s_class(a[2]))
    builtin = builtin_names('swift')
    top = set()
    inside = collections.defaultdict(set)          # top-level class -> names declared anywhere inside
    direct = collections.defaultdict(lambda: collections.defaultdict(set))   # top-level class -> kind -> names
    cases = collections.defaultdict(set)           # (top, enum) -> case names
    members = collections.defaultdict(set)         # (top, nested type) -> names declared in it
    for key, decls in decls_by_key.items():
        for d in decls:
            if not d['scope']:
                top.add(d['name'])
            else:
                inside[d['scope'][0]].add(d['name'])
                if len(d['scope']) == 1:
                    direct[d['scope'][0]][d['kind']].add(d['name'])
                if d['kind'] == 'case' and len(d['scope']) == 2:
                    cases[(d['scope'][0], d['scope'][1])].add(d['name'])
                if len(d['scope']) == 2:
                    members[(d['scope'][0], d['scope'][1])].add(d['name'])
    ns_classes = {nm.s_class(ns['name']) for ns in ir.nss} & top
    member_vocab = set()
    for ns in ir.nss:
        member_vocab.add(nm.s_var(ns['name']))
        for t in ns['types']:
            for f in t['fields']:
                member_vocab.add(nm.s_var(f['name']))
            member_vocab.add(nm.s_var(t['name']))
            for tag, _q in (t.get('subtypes') or []):
                member_vocab.add(nm.s_var(tag))
    for pname in IR_BUILTIN_NAMES:
        member_vocab.add(nm.s_class(pname))
    reported = set()
    for key, tokens in outputs.items():
        dl = sorted((d for d in decls_by_key[key] if not d['scope']), key=lambda d: (d['file'], d['lo']))
        for rel, toks in tokens.items():
            tops = [d for d in dl if d['file'] == rel]
            n = len(toks)
            for i, t in enumerate(toks):
                if t.kind != 'id':
                    continue
                prev = toks[i - 1] if i else None
                nxt = toks[i + 1] if i + 1 < n else None
                cur_top = None
                for d in tops:
                    if d['lo'] <= i < d['hi']:
                        cur_top = d['name']
                        break
                if prev is not None and prev.kind == 'punct' and prev.text == '.':
                    # qualified by a namespace class? (not when the enclosing namespace class declares a type of that
                    # very name -- `enum TeamLog` in namespace auth beside a namespace team_log: inside `Auth` the
                    # nested type shadows the top-level class, `TeamLog.x` is one of its cases)
                    if i >= 2 and toks[i - 2].kind == 'id' and toks[i - 2].text in ns_classes and \
                            not (i >= 3 and toks[i - 3].text == '.') and \
                            not (cur_top is not None and t.text in members[(cur_top, toks[i - 2].text)]):
                        A = toks[i - 2].text
                        if _CAP.match(t.text):
                            ok = t.text in direct[A]['class'] or t.text in direct[A]['enum'] or t.text in direct[A]['struct']
                            what = 'undeclared-type'
                        elif t.text in ('self', 'init'):
                            ok = True
                        else:
                            ok = t.text in direct[A]['static_let'] or t.text in direct[A]['static_var'] or \
                                t.text in direct[A]['func']
                            what = 'undeclared-route-object'
                        if not ok and (A, t.text) not in reported:
                            reported.add((A, t.text))
                            out.append((what, {'oracle': 'closure', 'lang': 'swift', 'backend': key, 'kind': what,
                                               'cause': 'route-arg-union-of-other-namespace'
                                               if (A + '.' + t.text) in foreign_union else _cause(causes, t.text)},
                                        {'name': A + '.' + t.text, 'file': rel, 'line': t.line, 'col': t.col}))
                    continue
                if not _CAP.match(t.text):
                    continue
                if nxt is not None and nxt.text == ':' and prev is not None and prev.text in ('(', ','):
                    continue                                  # argument label
                name = t.text
                ok = name in builtin or name in top or (cur_top is not None and name in inside[cur_top]) or \
                    name in member_vocab
                if not ok and (cur_top, name) not in reported:
                    reported.add((cur_top, name))
                    out.append(('undeclared-name', {'oracle': 'closure', 'lang': 'swift', 'backend': key,
                                                    'kind': 'undeclared-name', 'cause': _cause(causes, name)},
                                {'name': name, 'inside': cur_top, 'file': rel, 'line': t.line, 'col': t.col}))
    return out


def objc_closure(ir, nm, outputs, decls_by_key, alias_names=()):
    out = []
    causes = leak_causes(ir, alias_names, nm.o_upper)
    for ns in ir.nss:
        for k, v in list(causes.items()):
            causes['DB' + nm.o_caps(ns['name']) + k] = v
    builtin = builtin_names('objc')
    declared = set()
    for key, decls in decls_by_key.items():
        for d in decls:
            if d['kind'] == 'class_fwd':
                continue
            if d['kind'] == 'method':
                declared.update(p for p in d['name'].split(':') if p)
            else:
                declared.add(d['name'])
    vocab = set()
    for ns in ir.nss:
        vocab.update([nm.o_var(ns['name']), nm.o_upper(ns['name']), nm.o_caps(ns['name'])])
        for t in ns['types']:
            for f in t['fields']:
                vocab.update([nm.o_var(f['name']), nm.o_upper(f['name'])])
        for r in ns['routes']:
            vocab.update([nm.o_var(r['name']), nm.o_upper(r['name'])])
            if r['style']:
                vocab.add(nm.o_upper(r['style']))
    # the class name of a built-in IR type printed through fmt_class (`[Void_ serialize:...]`): wrong, but not a
    # user-type name -- outside the letter of the property, not judged
    for pname in IR_BUILTIN_NAMES:
        vocab.add(nm.o_upper(pname))
    reported = set()
    for key, tokens in outputs.items():
        for rel, toks in tokens.items():
            n = len(toks)
            for i, t in enumerate(toks):
                if t.kind != 'id' or not _CAP.match(t.text):
                    continue
                name = t.text
                if name in reported:
                    continue
                if name.startswith('DB') and len(name) > 2 and name[2].isupper():
                    ok = name in declared or name in builtin
                    what = 'undeclared-type'
                else:
                    nxt = toks[i + 1] if i + 1 < n else None
                    prev = toks[i - 1] if i else None
                    ok = name in builtin or name in declared or name in vocab or \
                        (nxt is not None and nxt.text == ':') or (prev is not None and prev.text in (')', '.', '_')) or \
                        any(name == p + v for v in vocab for p in ('initWith', 'is', 'isEqualTo', 'a', 'an', 'request')) or \
                        re.match(r'^V\d+$', name) is not None
                    what = 'undeclared-name'
                if not ok:
                    reported.add(name)
                    out.append((what, {'oracle': 'closure', 'lang': 'objc', 'backend': key, 'kind': what,
                                       'cause': _cause(causes, name)},
                                {'name': name, 'file': rel, 'line': t.line, 'col': t.col}))
    return out


def objc_file_closure(outputs, decls_by_key, units=('h',)):
    """Objective-C, per FILE: every generated class a file names is declared in that file (`@class`, `@interface`) or in
    a generated header it imports (transitively). `objc_closure` above asks only whether a name is declared anywhere
    in the output; a header that uses `DBXCursor *` in a method signature without `@class DBXCursor;` or an import of
    its header passes there and does not compile. Judged: names of classes the output itself declares with
    `@interface` (types and client output together: the client imports the headers of the types backend by base name,
    as the SDK's include path resolves them); names of the SDK (`DBTasks.h`...) are not ours to find."""
    out = []
    classes = set()
    here = {}                                                  # base name -> names declared by that file
    for key, decls in decls_by_key.items():
        for d in decls:
            if d['kind'] == 'interface' and d['unit'] == 'h':
                classes.add(d['name'])
            if d['kind'] in ('interface', 'class_fwd'):
                here.setdefault(os.path.basename(d['file']), set()).add(d['name'])
    imports = {}
    for key, tokens in outputs.items():
        for rel, toks in tokens.items():
            imp = imports.setdefault(os.path.basename(rel), set())
            for i, t in enumerate(toks[:-1]):
                if t.kind == 'pp' and t.text in ('#import', '#include') and toks[i + 1].kind == 'str':
                    imp.add(os.path.basename(toks[i + 1].text.strip('@"<>')))

    def visible(base, seen):
        if base in seen:
            return set()
        seen.add(base)
        names = set(here.get(base, ()))
        for b in imports.get(base, ()):
            if b in imports:
                names |= visible(b, seen)
        return names
    for key, tokens in outputs.items():
        for rel in sorted(tokens):
            if rel[-1] not in units or not rel.endswith(('.h', '.m')):
                continue
            toks = tokens[rel]
            used = collections.OrderedDict()
            for i, t in enumerate(toks):
                if t.kind == 'id' and t.text in classes:
                    used.setdefault(t.text, []).append(i)
            if not used:
                continue
            vis = visible(os.path.basename(rel), set())
            by_cause = collections.OrderedDict()
            for n in used:
                if n not in vis:
                    # the least exotic use decides: a bare `DBXItem *` needs the declaration whatever else there is
                    ranks = [_FILE_CAUSES.index(_generic_context(toks, i)) for i in used[n]]
                    by_cause.setdefault(_FILE_CAUSES[min(ranks)], []).append(n)
            for cause, missing in by_cause.items():
                t = toks[used[missing[0]][0]]
                out.append(('used-not-declared-in-file',
                            {'oracle': 'closure', 'lang': 'objc', 'backend': key, 'kind': 'class-not-declared-in-file',
                             'unit': rel[-1], 'cause': cause},
                            {'file': rel, 'names': sorted(missing)[:8], 'line': t.line, 'col': t.col,
                             'why': 'the file names a generated class without @class / @interface for it and '
                                    'without importing a generated header that declares it'}))
    return out


_FILE_CAUSES = ('direct', 'below-list', 'below-map')
# Found on the unchanged /repo when this oracle was written (2026-09-24), reported to the coordinator, not yet decided
# (fix or listed finding): the import collectors of obj_c.py do not look below a Map, nor below a nullable that is the
# element of a List / value of a Map -- `NSDictionary<NSString *, DBXItem *>` / `NSArray<DBXItem *>` (for List(Item?))
# are printed without `@class DBXItem;`. Until decided these three (backend, cause) pairs are COUNTED
# (`not_judged.file_closure.*`), not judged; C17_FILE_CLOSURE_ALL=1 judges them too. Everything else -- every class named
# directly, every class below a list in the routes headers -- is judged.
FILE_CLOSURE_OPEN = set()    # the three pairs found on the unchanged tree are judged and listed in KNOWN_FINDINGS.jsonl


def _generic_context(toks, i):
    """how token i (a class name) stands in its type expression: `direct` (`DBXItem *`), `below-list` (inside
    `NSArray<...>` only), `below-map` (inside an `NSDictionary<...>`)"""
    depth, j, line, ctx = 0, i - 1, toks[i].line, 'direct'
    while j >= 0 and toks[j].line == line:
        t = toks[j]
        if t.kind == 'punct' and t.text and set(t.text) == {'>'}:
            depth += len(t.text)
        elif t.kind == 'punct' and t.text and set(t.text) == {'<'}:
            for _ in t.text:
                if depth:
                    depth -= 1
                else:
                    head = toks[j - 1].text if j else ''
                    if head == 'NSDictionary':
                        return 'below-map'
                    if head == 'NSArray':
                        ctx = 'below-list'
        elif t.kind == 'punct' and t.text in ('(', ';', '{', '}') and depth == 0:
            break
        j -= 1
    return ctx


# ======================================================================================================
# 8. compact declaration lists for the correspondence with the model
# ======================================================================================================
# [unit, kind, scope, name, sorted refs] for the declaration kinds the model covers.

COMPARED = {
    'swift_types': {'class', 'enum', 'let', 'case', 'static_let'},
    'swift_types_objc': {'class', 'var'},
    'swift_client': {'class', 'enum', 'func', 'var', 'case'},
    'swift_client_objc': {'class', 'extension', 'func', 'var'},
    'obj_c_types': {'interface', 'implementation', 'property', 'enum', 'enum_const', 'method', 'static_var'},
    'obj_c_client': {'interface', 'implementation', 'property', 'method'},
}
IGNORED_NAMES = {
    'swift_types': set(),
    'swift_types_objc': {'description'},
    'swift_client': {'description', 'client', 'rebuildRequest'},
    'swift_client_objc': {'description', 'client', 'swift', 'objc', 'response', 'progress', 'clientPersistedString',
                          'earliestBeginDate', 'persistingString', 'settingEarliestBeginDate', 'cancel'},
    'obj_c_types': {'lockObj', 'initialize'},
    'obj_c_client': set(),
}


def swift_refs(toks, lo, hi, ns_classes, routes_classes, builtin, drop=None, shadow=None):
    """`shadow`: {type declared inside the enclosing top-level class: its members} -- a nested type named like a
    namespace class shadows it there (`TeamLog.x` inside `Auth` that declares `enum TeamLog` with a case x)"""
    out = set()
    for i in range(lo, min(hi, len(toks))):
        t = toks[i]
        if t.kind != 'id':
            continue
        prev = toks[i - 1] if i > 0 else None
        if prev is not None and prev.text == '.' and prev.kind == 'punct':
            if i >= 2 and toks[i - 2].kind == 'id' and toks[i - 2].text in ns_classes and \
                    t.text not in (shadow or {}).get(toks[i - 2].text, ()) and \
                    not (i >= 3 and toks[i - 3].text == '.') and t.text not in ('self', 'init'):
                out.add(toks[i - 2].text + '.' + t.text)
            continue
        if t.text.startswith('DBX') and t.text not in builtin:
            out.add(t.text)
        elif t.text in routes_classes:
            out.add(t.text)
    if drop:
        out.discard(drop)
    return sorted(out)


def objc_refs(toks, lo, hi, builtin, drop=None):
    out = set()
    for i in range(lo, min(hi, len(toks))):
        t = toks[i]
        if t.kind == 'id' and t.text.startswith('DB') and len(t.text) > 2 and t.text[2].isupper() and \
                t.text not in builtin:
            out.add(t.text)
    if drop:
        out.discard(drop)
    return sorted(out)


def compact(key, decls, tokens, ir, nm, opts):
    swift = key in SWIFT_KEYS
    builtin = builtin_names('swift' if swift else 'objc')
    ns_classes = {nm.s_class(ns['name']) for ns in ir.nss}
    suffix = 'AppAuth' if opts.get('sw_auth') == 'app' else ''
    routes_classes = set()
    for ns in ir.nss:
        routes_classes.add(nm.s_class(ns['name'] + suffix) + 'Routes')
    out = []
    nested = collections.defaultdict(lambda: collections.defaultdict(set))     # top -> nested type -> members
    for d in decls:
        if len(d['scope']) == 2:
            nested[d['scope'][0]][d['scope'][1]].add(d['name'])
    for d in decls:
        if d['kind'] not in COMPARED[key] or d['name'] in IGNORED_NAMES[key]:
            continue
        if key == 'obj_c_types' and d['unit'] == 'm' and d['kind'] == 'method' and \
                not d['scope'][0].endswith('RouteObjects'):
            continue
        if key == 'obj_c_client' and d['unit'] == 'm' and d['kind'] == 'method':
            continue
        toks = tokens[d['file']]
        if swift:
            top = d['scope'][0] if d['scope'] else d['name']
            refs = swift_refs(toks, d['lo'], d['hi'], ns_classes, routes_classes, builtin,
                              drop=d['name'] if not d['scope'] else None, shadow=nested[top])
            if d['kind'] == 'class' and not d['scope'] and d['name'] in ns_classes and key == 'swift_types':
                refs = []                               # the namespace container: everything is inside
        else:
            if d['kind'] == 'implementation':
                refs = []                               # bodies of .m files are not modelled
            else:
                refs = objc_refs(toks, d['lo'], d['hi'], builtin, drop=d['name'])
        out.append([d['unit'], d['kind'], list(d['scope']), d['name'], refs])
    out.sort(key=lambda x: json.dumps(x))
    return out


# ======================================================================================================
# 9. specs
# ======================================================================================================

STYLES = ('rpc', 'rpc', 'upload', 'download')
AUTHS = ('user', 'user', 'app', 'team', 'noauth', 'app, user', 'user, team', 'user, app', 'team, app', 'app, user, team')


def add_route_schema(model, rng):
    """append `namespace stone_cfg` with the Route schema these backends read (host/style/auth/is_preview/scope) and
    give every route attributes from it"""
    from harness import specgen as sg
    ns = sg.Namespace('stone_cfg')
    r = sg.Struct('Route')
    r.fields = [sg.Field('host', sg.TypeRef('String'), default='api'),
                sg.Field('style', sg.TypeRef('String'), default='rpc'),
                sg.Field('auth', sg.TypeRef('String'), default='user'),
                sg.Field('is_preview', sg.TypeRef('Boolean'), default=False),
                sg.Field('scope', sg.TypeRef('String', nullable=True))]
    ns.defs = [r]
    ns.files = [[0]]
    model.namespaces.append(ns)
    for n in model.namespaces:
        for d in n.defs:
            if d.kind == 'route':
                d.attrs = {}
                if rng.random() < 0.75:
                    d.attrs['style'] = rng.choice(STYLES)
                if rng.random() < 0.75:
                    d.attrs['auth'] = rng.choice(AUTHS)
                if rng.random() < 0.4:
                    d.attrs['host'] = rng.choice(('api', 'content', 'notify'))
                if rng.random() < 0.3:
                    d.attrs['scope'] = rng.choice(('files.content.read', 'account_info.write', 'sharing.read'))
                if rng.random() < 0.2:
                    d.attrs['is_preview'] = True


FAMILIES = {
    # 'clean': stays away from the inputs on which the unchanged backends are known to stop (reported by the
    # 'full' family and the hand seeds), so that the scanners see complete outputs
    'clean': dict(base='routes', p_stone_cfg=0.0, p_route_exotic=0.0, p_doc_ref=0.0, n_defs=(6, 14), p_container=0.3,
                  p_subtypes=0.25, p_weird_name=0.05),
    'clean_types': dict(base='default', p_stone_cfg=0.0, p_route_exotic=0.0, p_doc_ref=0.0, n_defs=(6, 14),
                        p_subtypes=0.3, p_container=0.35, p_nullable=0.3, p_default=0.4, p_route_path=0.1,
                        w_kind=dict(struct=5.0, union=3.0, alias=1.5, route=2.5, annotation=0.3, annotation_type=0.1)),
    # 'text': clean + characters that need escaping in every spec-supplied text (patterns, docs); 'text_findings'
    # additionally Timestamp formats and string route attributes, which the unchanged backends print verbatim
    'text': dict(base='routes', p_stone_cfg=0.0, p_route_exotic=0.0, p_doc_ref=0.0, n_defs=(5, 11), p_container=0.3,
                 p_subtypes=0.2, p_weird_name=0.0, p_doc=0.5),
    'text_findings': dict(base='routes', p_stone_cfg=0.0, p_route_exotic=0.0, p_doc_ref=0.0, n_defs=(5, 11),
                          p_container=0.3, p_subtypes=0.2, p_weird_name=0.0, p_doc=0.5),
    'full': dict(base='routes', p_stone_cfg=0.0, n_defs=(6, 14), p_route_exotic=0.15, p_doc=0.5, p_doc_ref=0.6,
                 p_weird_name=0.15, p_route_path=0.1, p_subtypes=0.3, p_container=0.4),
}


def _walk_typerefs(t):
    from harness import specgen as sg
    if isinstance(t, sg.TypeRef):
        yield t
        for a in t.args:
            for x in _walk_typerefs(a):
                yield x


def steer_clean(model):
    """drop the features on which the unchanged backends stop (each is reported separately): defaults on
    Timestamp / Bytes fields, string defaults that need escaping, aliases below Map"""
    from harness import specgen as sg
    alias = {}
    for ns in model.namespaces:
        for d in ns.defs:
            if d.kind == 'alias':
                alias[(ns.name, d.name)] = d

    def base_name(ns, t, depth=0):
        if t is None or depth > 20:
            return None
        a = alias.get((t.ns or ns, t.name))
        if a is not None:
            return base_name(t.ns or ns, a.type, depth + 1)
        return t.name

    for ns in model.namespaces:
        for d in ns.defs:
            fields = []
            if d.kind in ('struct', 'struct_patch'):
                fields = d.fields
            for f in fields:
                if f.default is None or isinstance(f.default, sg.TagRef):
                    continue
                b = base_name(ns.name, f.type)
                if b in ('Timestamp', 'Bytes'):
                    f.default = None
                    f.type.nullable = True           # stays optional, so examples that omit it remain legal
                elif isinstance(f.default, str) and re.search(r'["\\\n\r\t]', f.default):
                    if 'pattern' in f.type.kwargs or alias.get((f.type.ns or ns.name, f.type.name)):
                        f.default = None
                        f.type.nullable = True
                    else:
                        f.default = re.sub(r'["\\\n\r\t]', '_', f.default)
    return model


HAZ_PATTERNS = ('[^"/]+', '"[a-z]+"', '\\d{2}"\\d', 'a\\\\b"?', '[^"]*', 'x"y', '"?[a-z]+', '(\\w+\\.)*"', '\\\\+"')
HAZ_FORMATS = ('%Y"%m', '%H:%M\\', '%d "%b" %Y"', '\\"%Y')
HAZ_ATTRS = ('files"read', 'up\\', 'a "b', 'x\\"y"')
HAZ_DOCS = ('ends */ here', '/* opens', '"quoted"', 'one " quote', 'back\\slash', 'trailing \\', '*/ "*/ \\"',
            'line one\nline two */', '\\')


def spice_text(model, rng, findings=True):
    """put characters that need escaping into every kind of spec-supplied text the six invocations print: String
    patterns (new nullable fields / union tags, plain and below List / Map), documentation of every item, and -- known
    findings -- Timestamp formats and string route attributes"""
    from harness import specgen as sg
    n = [0]

    def fresh(prefix):
        n[0] += 1
        return '%s%d' % (prefix, n[0])

    def pat():
        return sg.TypeRef('String', kwargs={'pattern': rng.choice(HAZ_PATTERNS)})

    def add_doc(d):
        extra = rng.choice(HAZ_DOCS)
        return (d + ' ' + extra) if d else ('Text ' + extra)
    for ns in model.namespaces:
        if ns.name == 'stone_cfg':
            continue
        if rng.random() < 0.5:
            ns.doc = add_doc(ns.doc)
        for d in ns.defs:
            if d.kind in ('struct', 'union', 'route') and rng.random() < 0.5:
                d.doc = add_doc(d.doc)
            if d.kind == 'struct':
                for f in d.fields:
                    if rng.random() < 0.3:
                        f.doc = add_doc(f.doc)
                if rng.random() < 0.6:
                    k = rng.random()
                    t = pat()
                    if k < 0.25:
                        t = sg.TypeRef('List', args=[t])
                    elif k < 0.4:
                        t = sg.TypeRef('Map', args=[sg.TypeRef('String'), t])
                    t.nullable = True
                    d.fields.append(sg.Field(fresh('spice_p'), t, doc=add_doc(None) if rng.random() < 0.5 else None))
                if findings and rng.random() < 0.12:
                    d.fields.append(sg.Field(fresh('spice_ts'), sg.TypeRef('Timestamp', args=[rng.choice(HAZ_FORMATS)],
                                                                           nullable=True)))
            elif d.kind == 'union':
                for f in d.tags:
                    if rng.random() < 0.3:
                        f.doc = add_doc(f.doc)
                if rng.random() < 0.5:
                    d.tags.append(sg.Field(fresh('spice_t'), pat(), doc=add_doc(None) if rng.random() < 0.5 else None))
            elif d.kind == 'route':
                if findings and rng.random() < 0.1:
                    d.attrs[rng.choice(('scope', 'host'))] = rng.choice(HAZ_ATTRS)
    return model


def gen_case(seed, family):
    import random
    from harness import specgen as sg
    rng = random.Random('c17/%s/%s' % (family, seed))
    model = sg.gen_model(rng, FAMILIES[family])
    add_route_schema(model, rng)
    if family.startswith('clean') or family.startswith('text'):
        steer_clean(model)
    if family.startswith('text'):
        spice_text(model, rng, findings=(family == 'text_findings'))
    specs = sg.render(model, None)
    opts = {'sw_auth': 'app' if rng.random() < 0.2 else None, 'oc_auth': rng.choice(('user', 'user', 'app', 'team'))}
    # further options (drawn after the others, so that the specs and the two options above stay what they were)
    r = rng.random()
    if opts['sw_auth'] is None and r < 0.3:
        opts['sw_auth'] = 'user' if r < 0.15 else 'team'
    if rng.random() < 0.12:
        opts['oc_auth'] = 'noauth'
    if rng.random() < 0.3:
        opts['oc_e'] = True
    r = rng.random()
    if r < 0.35:
        opts['client_args'] = 'alt' if r < 0.15 else 'multi'
    return {'suite': 'decl.swift.spec', 'origin': 'gen:%s:%s' % (family, seed), 'specs': [list(x) for x in specs],
            'opts': opts}


STONE_CFG = """namespace stone_cfg

struct Route
    host String = "api"
    style String = "rpc"
    auth String = "user"
    is_preview Boolean = false
    scope String?
"""


def seed_cases():
    d = os.path.join(core.VERIF, 'harness', 'specs')
    out = []
    for f in sorted(os.listdir(d)):
        if f.startswith('c17_') and f.endswith('.stone'):
            text = open(os.path.join(d, f), encoding='utf-8').read()
            # one file may hold several spec files separated by lines `# ---- file: name.stone`
            parts = re.split(r'(?m)^# ---- file: (\S+)[ \t]*$', text)
            specs = []
            if len(parts) == 1:
                specs.append([f, parts[0]])
            for i in range(1, len(parts), 2):
                specs.append([parts[i], parts[i + 1]])
            specs.append(['stone_cfg.stone', STONE_CFG])
            optss = [{'sw_auth': None, 'oc_auth': 'user'}, {'sw_auth': 'app', 'oc_auth': 'team'}]
            if f.startswith('c17_grid_') or f == 'c17_basic.stone':
                # the clean families also under the other option sets
                optss += [{'sw_auth': 'team', 'oc_auth': 'noauth', 'oc_e': True, 'client_args': 'multi'},
                          {'sw_auth': 'user', 'oc_auth': 'app', 'client_args': 'alt'}]
            for opts in optss:
                out.append({'suite': 'decl.swift.spec', 'origin': 'seed:%s' % f, 'specs': specs, 'opts': opts})
    return out


# ======================================================================================================
# 9b. the grid: every type shape x every position it can occur in (deterministic, no random draws)
# ======================================================================================================
# The random families reach a type-directed branch of the backends only when a draw happens to put the right shape
# into the right position. The grid does it on every run: one block of definitions per SHAPE that puts the shape
# into every POSITION the six invocations format it in --
#   required / optional struct field, field inherited by a child (initialiser arguments of the child), field of a
#   route's argument struct (client signatures, with and without the optional arguments), union tag, nullable union
#   tag, inherited union tag, and directly as route argument / result / error (user-defined shapes in the same
#   block, the others in `exotic` specs of their own: obj_c_client and, for errors, swift_client --objc are known to
#   stop there, the remaining invocations go on).
# Shapes known to stop a backend (listed findings) are `solo`: a block of their own, so that they do not hide the
# neighbours. Both namespaces declare an `Item` (one name, two namespaces).

GRID_OTHER = """namespace other

struct Thing
    label String

struct Item
    "Same name as g.Item."
    code Int64

union Pick
    first
    second Thing

struct Root
    union_closed
        twig Twig
    rid String

struct Twig extends Root
    tw Int32
"""

GRID_HELPERS = """namespace g

import other

struct Item
    id String

struct Child extends Item
    extra Int32 = 7

struct Grand extends Child
    "Two levels below Item."
    g3 List(Item)?

struct Base
    union
        leaf1 Leaf1
        leaf2 Leaf2
    bid String

struct Leaf1 extends Base
    l1 Int32

struct Leaf2 extends Base
    l2 String?

union Choice
    a
    b String

union ChoiceExt extends Choice
    c Item

union_closed Sealed
    on
    off

struct Empty
    "No fields."

struct AllOpt
    "Only optional fields."
    x String?
    y Int32 = 3
    z Sealed = on

"""

# (type expression, flags): u = user-defined (may be a route type without being exotic), s = solo (a listed finding
# stops one of the invocations on it). Void is the `plain` tag of every block (an explicit Void tag is not accepted).
GRID_SHAPES = [
    ('Boolean', ''), ('Bytes', ''), ('Float32', ''), ('Float64', ''), ('Int32', ''), ('Int64', ''), ('UInt32', ''),
    ('UInt64', ''), ('String', ''), ('Timestamp("%Y-%m-%d")', ''),
    ('String(min_length=1, max_length=9, pattern="[a-z]+")', ''), ('Int64(min_value=-5, max_value=5)', ''),
    ('Float64(min_value=0.5)', ''), ('UInt32(max_value=10)', ''),
    ('Item', 'u'), ('Child', 'u'), ('Base', 'u'), ('Leaf1', 'u'), ('Leaf2', 'u'), ('Grand', 'u'), ('Choice', 'u'),
    ('ChoiceExt', 'u'), ('Sealed', 'u'), ('Empty', 'u'), ('AllOpt', 'u'),
    ('other.Thing', 'u'), ('other.Item', 'u'), ('other.Pick', 'u'), ('other.Root', 'u'), ('other.Twig', 'u'),
    ('List(String)', ''), ('List(Bytes)', ''), ('List(Timestamp("%a, %d %b %Y"))', ''), ('List(Boolean)', ''),
    ('List(Int32)', ''), ('List(Int64)', ''), ('List(UInt32)', ''), ('List(UInt64)', ''), ('List(Float32)', ''),
    ('List(Float64)', ''), ('List(Item)', ''), ('List(Child)', ''), ('List(Base)', ''), ('List(Leaf2)', ''),
    ('List(Choice)', ''), ('List(other.Thing)', ''), ('List(other.Pick)', ''), ('List(other.Root)', ''),
    ('List(String?)', ''), ('List(Int32?)', ''), ('List(Boolean?)', ''), ('List(Item?)', ''), ('List(Choice?)', ''),
    ('List(String, min_items=1, max_items=3)', ''), ('List(Int64(min_value=1), max_items=2)', ''),
    ('List(List(String))', 's'), ('List(List(Int32))', ''), ('List(List(Boolean))', ''), ('List(List(Item))', ''),
    ('List(List(Choice))', ''), ('List(List(Base))', ''), ('List(List(Int64?))', ''), ('List(List(Item)?)', ''),
    ('List(List(List(UInt64)))', ''), ('List(List(List(List(Int32))))', ''), ('List(List(List(List(Item))))', ''),
    ('List(List(List(other.Thing)))', ''), ('List(List(List(Bytes)))', 's'),
    ('List(Map(String, Item))', ''), ('List(Map(String, Int32))', ''), ('List(Map(String, Base))', ''),
    ('Map(String, String)', ''), ('Map(String, Int64)', ''), ('Map(String, Boolean)', ''), ('Map(String, Bytes)', ''),
    ('Map(String, Item)', ''), ('Map(String, Choice)', ''), ('Map(String, other.Thing)', ''),
    ('Map(String, Base)', 's'), ('Map(String, Item?)', ''), ('Map(String, Int32?)', ''),
    ('Map(String, List(String))', ''), ('Map(String, List(Int32))', ''), ('Map(String, List(Item))', ''),
    ('Map(String, Map(String, Item))', ''), ('Map(String, Map(String, Float64))', ''),
    ('Map(String(pattern="[a-z]+"), List(List(Choice)))', ''),
]
GRID_STYLES = ('rpc', 'upload', 'download', 'rpc', 'download', 'upload', 'rpc', None)
# per option set: auth values under which BOTH clients of the case print the route (the grid is about shapes; the
# helper route `skipped` carries an auth value that both clients leave out)
GRID_OPTS = [
    ({'sw_auth': None, 'oc_auth': 'user'}, ('user', 'app, user', 'user, team', 'noauth', 'team, user, app'), 'app'),
    ({'sw_auth': 'app', 'oc_auth': 'app', 'oc_e': True}, ('app', 'app, user', 'team, app', 'user, app'), 'user'),
    ({'sw_auth': 'user', 'oc_auth': 'team'}, ('team', 'user, team', 'app, team', 'team, app'), 'app'),
    ({'sw_auth': None, 'oc_auth': 'noauth', 'oc_e': True}, ('noauth', 'user, noauth', 'noauth, app'), 'app'),
    ({'sw_auth': 'team', 'oc_auth': 'user', 'client_args': 'alt'}, ('user', 'noauth', 'user, app', 'team, user'), 'app'),
    ({'sw_auth': None, 'oc_auth': 'user', 'client_args': 'multi'}, ('user', 'user, app', 'noauth'), 'app'),
    ({'sw_auth': 'app', 'oc_auth': 'team', 'client_args': 'multi', 'oc_e': True}, ('app, team', 'team, app'), 'user'),
]


def _grid_attrs(i, k, indent='    '):
    """attrs of route number i of a spec run with option set k"""
    style = GRID_STYLES[i % len(GRID_STYLES)]
    auths = GRID_OPTS[k % len(GRID_OPTS)][1]
    if style is None and 'user' in auths:
        return ''                                   # no attrs at all: the defaults of the schema (rpc / user)
    out = [indent + 'attrs', indent + '    style = "%s"' % (style or 'rpc'),
           indent + '    auth = "%s"' % auths[i % len(auths)]]
    if i % 3 == 0:
        out.append(indent + '    scope = "grid.read"')
    return '\n'.join(out) + '\n'


def grid_block(i, ty, flags, k):
    """definitions that put shape number i into every position"""
    L = []
    void, user, nul = False, 'u' in flags, ty.endswith('?')
    if not void:
        L.append('struct Req%d\n    "Holds shape %d."\n    f %s\n        "The shape."\n    tail String\n' % (i, i, ty))
        if not nul:
            L.append('struct Opt%d\n    lead String\n    f %s?\n' % (i, ty))
        L.append('struct Kid%d extends Req%d\n    kid Int32 = 1\n' % (i, i))
    L.append('union Tag%d\n    t %s\n        "The shape as a tag."\n    plain\n' % (i, ty))
    if not void and not nul:
        L.append('union Ntag%d\n    t %s?\n' % (i, ty))
    L.append('union Ktag%d extends Tag%d\n    more\n' % (i, i))
    if not void:
        opt = 'Opt%d' % i if not nul else 'Req%d' % i
        L.append('route do_use%d(Req%d, %s, Tag%d)\n    "Uses shape %d."\n%s' % (i, i, opt, i, i, _grid_attrs(i, k)))
        L.append('route do_opt%d:2(%s, Kid%d, Ktag%d)\n%s' % (i, opt, i, i, _grid_attrs(i + 3, k)))
        L.append('route do_kid%d(Kid%d, Void, Void) deprecated\n%s' % (i, i, _grid_attrs(i + 5, k)))
        if user:
            err = ty if i % 2 else 'Tag%d' % i
            L.append('route do_dir%d(%s, %s, %s)\n%s' % (i, ty, ty, err, _grid_attrs(i + 1, k)))
    return '\n'.join(L) + '\n'


def grid_far(members, k):
    """a namespace of its own whose routes take children of g.Req<i> / g.Kid<i>: the shape reaches the client of `far`
    ONLY as an inherited field of a route argument (no own field, result or error of `far` mentions it), one and two
    levels up, across namespaces -- what a routes file of `far` names it has to declare or import by itself"""
    L = ['namespace far\n    "Route arguments that inherit their fields from g."\n\nimport g\n']
    for i, _ty, _flags in members:
        L.append('struct Far%d extends g.Req%d\n    far Int32 = 1\n' % (i, i))
        L.append('struct Farther%d extends g.Kid%d\n    "Two levels below g.Req%d."\n    farther String?\n' % (i, i, i))
        L.append('route go_far%d(Far%d, Void, Void)\n%s' % (i, i, _grid_attrs(i + 4, k)))
        L.append('route go_farther%d(Farther%d, Void, Void)\n%s' % (i, i, _grid_attrs(i + 6, k)))
    return '\n'.join(L) + '\n'


def grid_exotic(which, members, k):
    """routes that take (`arg`) / return (`res`) / fail with (`err`) the shapes directly"""
    L = []
    for i, ty, flags in members:
        # a user-defined shape is exotic only when nullable (the plain one is a route type of its block)
        for j, t in enumerate((ty,) if ty.endswith('?') else ((ty + '?',) if 'u' in flags else (ty, ty + '?'))):
            types = {'arg': (t, 'Void', 'Void'), 'res': ('Void', t, 'Choice' if i % 2 else 'Void'),
                     'err': ('Item', 'Void', t)}[which]
            L.append('route do_%s%d%s(%s, %s, %s)\n%s' % (which, i, 'n' if j else '', types[0], types[1], types[2],
                                                      _grid_attrs(i + 2 * j, k)))
    return '\n'.join(L) + '\n'


def grid_cases(per_spec=6, exotic=True):
    """the grid as cases; `per_spec` shapes share one spec (solo shapes always stand alone)"""
    shapes = [(i, ty, fl) for i, (ty, fl) in enumerate(GRID_SHAPES)]
    groups, cur = [], []
    for sh in shapes:
        if 's' in sh[2]:
            groups.append([sh])
            continue
        cur.append(sh)
        if len(cur) >= per_spec:
            groups.append(cur)
            cur = []
    if cur:
        groups.append(cur)
    out = []

    def case(name, text, k, far=None):
        opts, _auths, excluded = GRID_OPTS[k % len(GRID_OPTS)]
        skipped = 'route skipped(Item, Choice, Void)\n    attrs\n        auth = "%s"\n\n' % excluded
        out.append({'suite': 'decl.swift.spec', 'origin': 'grid:%s' % name,
                    'specs': [['g.stone', GRID_HELPERS + skipped + text], ['other.stone', GRID_OTHER]] +
                             ([['far.stone', far]] if far else []) + [['stone_cfg.stone', STONE_CFG]],
                    'opts': dict(opts)})
    for k, grp in enumerate(groups):
        case('types:%s' % ','.join(str(s[0]) for s in grp), ''.join(grid_block(*(s + (k,))) for s in grp), k,
             far=grid_far(grp, k))
    if exotic:
        for n, which in enumerate(('res', 'arg', 'err')):
            for j, lo in enumerate(range(0, len(shapes), 2 * per_spec)):
                grp = shapes[lo:lo + 2 * per_spec]
                k = j + n + 1
                case('%s:%s' % (which, ','.join(str(s[0]) for s in grp)), grid_exotic(which, grp, k), k)
    return out


# ======================================================================================================
# 10. one case, evaluated in a worker process
# ======================================================================================================

def eval_case(case, keep_files=False):
    """-> result dict (JSON-able). Never raises for a failure of the code under test."""
    logging.disable(logging.CRITICAL)
    core.ensure_repo_on_path()
    from stone.frontend.frontend import specs_to_ir
    from stone.backend import remove_aliases_from_api
    res = {'origin': case.get('origin'), 'runs': {}, 'problems': [], 'stats': collections.Counter()}
    specs = [tuple(x) for x in case['specs']]
    try:
        api = specs_to_ir(specs)
    except Exception as e:                                    # noqa: BLE001
        res['compile_error'] = '%s: %s' % (type(e).__name__, str(e)[:200])
        return res
    opts = case.get('opts') or {}
    nm = Names()
    alias_names = [(ns.name, a.name) for ns in api.namespaces.values() for a in ns.aliases]
    root = tempfile.mkdtemp(prefix='stone-verif-c17-')
    try:
        per = {}
        for key, backend, args in runs_for(opts.get('sw_auth'), opts.get('oc_auth', 'user'), opts):
            out = os.path.join(root, key)
            os.makedirs(out)
            crash = run_backend(api, backend, args, out)
            if crash is not None:
                res['runs'][key] = {'crash': crash}
                res['problems'].append(('backend-exception',
                                        {'oracle': 'completes', 'backend': key, 'exc': crash['exc'], 'site': crash['site']},
                                        {'backend': key, 'args': args, 'last': crash['last']}))
                continue
            files = read_tree(out)
            lexp, decls, tokens = scan_output(key, files)
            per[key] = (files, decls, tokens)
            res['runs'][key] = {'files': len(files), 'bytes': sum(len(v) for v in files.values()),
                                'decls': len(decls), 'lex': lexp}
            if keep_files:
                res['runs'][key]['texts'] = files
            for p in lexp:
                lines = files[p['file']].splitlines()
                line_text = lines[p['line'] - 1] if p['line'] - 1 < len(lines) else ''
                res['problems'].append(('lexically-malformed',
                                        {'oracle': 'lexical', 'backend': key, 'kind': p['what'],
                                         'resource': is_resource(key, p['file']),
                                         'cause': lexical_cause(p['what'], line_text, api)},
                                        {'backend': key, 'file': p['file'], 'line': p['line'], 'col': p['col'],
                                         'what': p['what'], 'detail': p['detail'], 'text': line_text[:200]}))
        # the IR as the backends saw it (aliases removed by the first Compiler run; idempotent)
        remove_aliases_from_api(api)
        aj = api_json(api)
        ir = Ir(aj)
        res['api'] = aj
        res['stats']['types'] = sum(len(ns['types']) for ns in aj)
        res['stats']['routes'] = sum(len(ns['routes']) for ns in aj)
        # swift_client refuses, on purpose, a namespace in which two routes get one name (check_route_name_conflict):
        # names that collide under the naming scheme are outside the property -- when the reference naming confirms
        # the collision the refusal is counted, not judged
        clash = False
        for ns in aj:
            names = [nm.rs_func(r['name'], r['version']) for r in ns['routes']]
            clash = clash or len(set(names)) < len(names)
        if clash:
            kept = []
            for what, sig, detail in res['problems']:
                if sig.get('oracle') == 'completes' and sig.get('exc') == 'RuntimeError' and \
                        str(sig.get('site', '')).endswith(':check_route_name_conflict'):
                    res['stats']['not_judged.route_name_conflict'] += 1
                else:
                    kept.append((what, sig, detail))
            res['problems'] = kept
        for key, (files, decls, tokens) in per.items():
            if res['runs'][key]['lex']:
                continue
            if key in COMPANION_KEYS:
                E = expected_items(key[:-5], ir, nm, dict(opts, sw_auth=None))
            else:
                E = expected_items(key, ir, nm, opts)
            for what, sig, detail in check_decls(key[:-5] if key in COMPANION_KEYS else key, E, decls):
                if what == 'collision':
                    res['stats']['not_judged.name_collision'] += 1
                    continue
                res['problems'].append((what, sig, dict(detail, backend=key)))
            res['stats']['expected_items.' + key] = len(E)
            if key in OBJC_KEYS:
                sel = check_selectors(key, decls)
                res['problems'].extend((w, sg, dict(dt, backend=key)) for w, sg, dt in sel)
                res['stats']['selectors_compared.' + key] = sum(1 for d in decls if d['kind'] == 'method' and d['unit'] == 'h')
            if key not in COMPANION_KEYS:
                res['runs'][key]['compact'] = compact(key, decls, tokens, ir, nm, opts)
        # the two passes of the SDK build (user client, then `--auth-type app`) write into ONE folder: over the files
        # of both -- a file the second pass writes again replaces the first -- every top-level type is declared once
        for app_key, user_key in (('swift_client', 'swift_client_user'), ('swift_client_objc', 'swift_client_objc_user')):
            if opts.get('sw_auth') == 'app' and app_key in per and user_key in per and \
                    not res['runs'][app_key]['lex'] and not res['runs'][user_key]['lex']:
                res['problems'].extend(check_two_passes(app_key, per[user_key][1], per[app_key][1]))
                res['stats']['two_passes.' + app_key] += 1
        sw_keys = SWIFT_KEYS + (COMPANION_KEYS if opts.get('sw_auth') == 'app' else ())
        for lang, keys, fn in (('swift', sw_keys, swift_closure), ('objc', OBJC_KEYS, objc_closure)):
            if all(k in per and not res['runs'][k]['lex'] for k in keys):
                probs = fn(ir, nm, {k: per[k][2] for k in keys}, {k: per[k][1] for k in keys}, alias_names)
                res['problems'].extend(probs)
                res['stats']['closure.' + lang] += 1
                if lang == 'objc':
                    strict = os.environ.get('C17_FILE_CLOSURE_ALL') == '1'
                    for what, sig, detail in objc_file_closure({k: per[k][2] for k in keys}, {k: per[k][1] for k in keys},
                                                               units=tuple(os.environ.get('C17_FILE_UNITS', 'h'))):
                        if (sig['backend'], sig['cause']) in FILE_CLOSURE_OPEN and not strict:
                            res['stats']['not_judged.file_closure.%s.%s' % (sig['backend'], sig['cause'])] += 1
                        else:
                            res['problems'].append((what, sig, detail))
                    res['stats']['closure.objc_files'] += sum(1 for k in keys for r in per[k][2] if r.endswith('.h'))
            else:
                res['stats']['closure_skipped.' + lang] += 1
    finally:
        shutil.rmtree(root, ignore_errors=True)
    res['stats'] = dict(res['stats'])
    return res


def _worker(arg):
    kind, payload = arg
    try:
        case = gen_case(*payload) if kind == 'gen' else payload
        return case, eval_case(case)
    except Exception:                                         # noqa: BLE001
        return (payload if kind != 'gen' else {'origin': 'gen:%s:%s' % (payload[1], payload[0])}), \
            {'harness_error': traceback.format_exc()[-1500:]}


# ======================================================================================================
# 11. correspondence with the Lean model
# ======================================================================================================

def _drive(ck, reqs):
    """ck.driver, or (development) a private driver command given in C17_DRIVER_CMD"""
    cmd = os.environ.get('C17_DRIVER_CMD')
    if not cmd:
        return ck.driver(reqs)
    import subprocess
    data = '\n'.join(json.dumps(r, ensure_ascii=True) for r in reqs) + '\n'
    p = subprocess.run(cmd, shell=True, input=data, capture_output=True, text=True, cwd=core.LEAN_DIR)
    lines = [l for l in p.stdout.splitlines() if l.startswith('{')]
    if len(lines) != len(reqs):
        raise RuntimeError('driver answered %d lines for %d requests: %s' % (len(lines), len(reqs), p.stderr[-800:]))
    return [json.loads(l) for l in lines]


def model_opts(key, opts):
    T = client_tables(opts)
    if key.startswith('swift_client'):
        ca = [[style, [[v[0], '', [a[:3] for a in v[1]]] for v in variants]] for style, variants in T['sw_args'].items()]
        st = [[k, v] for k, v in T['sw_req'].items()]
        auth = opts.get('sw_auth')
    else:
        ca = [[style, [[v[0], v[1][0], [a[:3] for a in v[1][1]]] for v in variants]]
              for style, variants in T['oc_args'].items()]
        st = [[k, v] for k, v in T['oc_req'].items()]
        auth = opts.get('oc_auth', 'user')
    return {'class': CLASS, 'transport': TRANSPORT, 'module': MODULE, 'auth': auth, 'client_args': ca,
            'style_to_request': st}


def canon_model_decls(ds):
    out = [[d[0], d[1], d[2], d[3], sorted(set(d[4]) - ({d[3]} if (not d[2] or d[0] in ('h', 'm')) else set()))]
           for d in ds]
    out.sort(key=lambda x: json.dumps(x))
    return out


def model_requests(res, opts):
    """driver requests for one evaluated case: [(key, request)]"""
    reqs = []
    for key in SWIFT_KEYS + OBJC_KEYS:
        reqs.append((key, {'op': 'decl.swift.decls', 'backend': key, 'api': res['api'], 'opts': model_opts(key, opts)}))
    return reqs


def compare_case(ck, case, res, replies):
    """replies: {key: driver reply}"""
    for key, rep in replies.items():
        run = res['runs'].get(key) or {}
        sname = 'decl.%s' % key
        if 'protocol_error' in rep:
            ck.disagree(sname, {'origin': case['origin']}, 'n/a', rep)
            continue
        crashed = 'crash' in run
        if 'error' in rep:
            ck.hist('c17.model_error', key)
            if crashed:
                ck.agree(sname)
            else:
                ck.disagree(sname, {'origin': case['origin'], 'specs': case['specs'], 'opts': case.get('opts')},
                            'completed', rep['error'])
            continue
        if crashed:
            # the model does not reproduce every crash site (exotic route types, documentation references,
            # default values): not a disagreement of the declaration model, counted
            ck.stat('c17.real_crash_unmodelled')
            continue
        if run.get('lex') or 'compact' not in run:
            continue
        real = run['compact']
        model = canon_model_decls(rep['decls'])
        if real == model:
            ck.agree(sname)
        else:
            rs = {json.dumps(x) for x in real}
            ms = {json.dumps(x) for x in model}
            ck.disagree(sname, {'origin': case['origin'], 'specs': case['specs'], 'opts': case.get('opts')},
                        sorted(rs - ms)[:6], sorted(ms - rs)[:6])


# ---- (d) naming functions and type mappers ---------------------------------------------------------------

NAME_POOL = ['get_metadata', 'list_folder/continue', 'HTTPCode', 'AS', 'snake_type', 'T1', '_Hidden', 'camelCase', 'URLSpec',
             'X', 'IOError2', 'class', 'None', 'self', 'id', 'list', 'Dict_', 'ABCDef', 'file_info_t', '__dunder', 'True_',
             'description', 'hash', 'client', 'copy_reference', 'new_thing', 'newest', 'copyright', 'void', 'int32', 'Int32',
             'nsdata', 'float', 'default', 'delete', 'a', 'aB', 'aBC', 'a1B2', 'x1', 'UPPER', 'Upper', 'lowerUPPERlower',
             'a_b-c/d', 'trailing_', 'double__under', 'v2/get', 'get_v2', 'NSObject', 'ns_object', 'Boolvalue',
             'bool_value', 'intvalue', 'tag', 'Tag', 'other', 'path2', '2fa_status', 'oAuth2Token', 'a/B/c', 'SHA256hash']


def rand_ident(rng):
    r = rng.random()
    if r < 0.5:
        return rng.choice(NAME_POOL)
    parts = []
    for _ in range(rng.randint(1, 4)):
        k = rng.random()
        w = ''.join(rng.choice('abcxyz019') for _ in range(rng.randint(1, 4)))
        if k < 0.3:
            w = w.upper()
        elif k < 0.6:
            w = w.capitalize()
        parts.append(w)
    s = rng.choice(['', '_', '']).join(parts) if rng.random() < 0.5 else rng.choice(['_', '-', '/', '__']).join(parts)
    if rng.random() < 0.1:
        s = '_' + s
    if rng.random() < 0.1:
        s += '_'
    return s


def suite_names(ck):
    from stone.backends import swift_helpers as sh, obj_c_helpers as oh
    from stone.backends.helpers import split_words
    n = ck.scale(1500, 20000)
    items = []
    for i in range(n):
        name = NAME_POOL[i] if i < len(NAME_POOL) else rand_ident(ck.rng)
        v = ck.rng.choice((1, 1, 2, 3, 10))
        for fn in ('sw_class', 'sw_var', 'sw_func', 'oc_upper', 'oc_var', 'oc_caps', 'split_words'):
            items.append([fn, name, v])
    out = _drive(ck, [{'op': 'decl.swift.name', 'items': items}])[0]
    if 'out' not in out:
        ck.disagree('decl.swift.name', {'items': len(items)}, 'n/a', out)
        return
    real_fn = {'sw_class': lambda n, v: sh.fmt_class(n), 'sw_var': lambda n, v: sh.fmt_var(n),
               'sw_func': lambda n, v: sh.fmt_func(n, v), 'oc_upper': lambda n, v: oh.fmt_camel_upper(n),
               'oc_var': lambda n, v: oh.fmt_var(n), 'oc_caps': lambda n, v: oh.fmt_class_caps(n),
               'split_words': lambda n, v: '|'.join(split_words(n))}
    for (fn, name, v), m in zip(items, out['out']):
        try:
            r = real_fn[fn](name, v)
        except Exception as e:                               # noqa: BLE001
            r = 'raises ' + type(e).__name__
        ck.case(('name', fn, name, v), nontrivial=True)
        ck.hist('c17.name.fn', fn)
        if r == m:
            ck.agree('decl.swift.name')
        else:
            ck.disagree('decl.swift.name', {'fn': fn, 'name': name, 'version': v}, r, m)


def _mk_ir_world():
    from stone.ir import ApiNamespace, Struct, Union
    world = {}
    for nsn in ('files', 'common', 'team_log', 'Auth2'):
        ns = ApiNamespace(nsn)
        for tn, kind in (('Metadata', 's'), ('path_root', 's'), ('LookupError', 'u'), ('HTTPCode', 'u'), ('id', 's')):
            world[(nsn, tn)] = Struct(tn, ns, None) if kind == 's' else Union(tn, ns, None, False)
    return world


def rand_ty(rng, world, depth=0):
    r = rng.random()
    if depth >= 4 or r < 0.35:
        p = rng.choice(('Boolean', 'Bytes', 'Float32', 'Float64', 'Int32', 'Int64', 'UInt32', 'UInt64', 'String',
                        'Timestamp', 'Void', 'user', 'user', 'user'))
        if p == 'user':
            k = rng.choice(sorted(world))
            return ['user', k[0], k[1]]
        if p == 'Timestamp':
            return ['ts', rng.choice(('%Y-%m-%dT%H:%M:%SZ', '%Y-%m-%d', '%a, %d %b %Y %H:%M:%S +0000'))]
        return ['prim', p]
    if r < 0.55:
        return ['list', rand_ty(rng, world, depth + 1)]
    if r < 0.7:
        return ['map', ['prim', 'String'], rand_ty(rng, world, depth + 1)]
    if r < 0.9:
        inner = rand_ty(rng, world, depth + 1)
        return inner if inner[0] == 'nullable' else ['nullable', inner]
    k = rng.choice(sorted(world))
    return ['user', k[0], k[1]]


def real_ty(tj, world):
    from stone import ir
    k = tj[0]
    if k == 'prim':
        return getattr(ir, tj[1])()
    if k == 'ts':
        return ir.Timestamp(tj[1])
    if k == 'user':
        return world[(tj[1], tj[2])]
    if k == 'list':
        return ir.List(real_ty(tj[1], world))
    if k == 'map':
        return ir.Map(real_ty(tj[1], world), real_ty(tj[2], world))
    if k == 'nullable':
        return ir.Nullable(real_ty(tj[1], world))
    raise ValueError(tj)


def suite_mappers(ck):
    from stone.backends import swift_helpers as sh, obj_c_helpers as oh, swift as sw
    world = _mk_ir_world()
    real = {
        'sw_type': sh.fmt_type, 'sw_objc_type': sh.fmt_objc_type,
        'sw_objc_type_nn': lambda t: sh.fmt_objc_type(t, False),
        'sw_serial_type': sw.fmt_serial_type, 'sw_serial_obj': sw.fmt_serial_obj,
        'oc_type': oh.fmt_type, 'oc_type_tag': lambda t: oh.fmt_type(t, tag=True),
        'oc_type_tag_default': lambda t: oh.fmt_type(t, tag=True, has_default=True),
        'oc_type_noptr': lambda t: oh.fmt_type(t, no_ptr=True),
        'oc_type_prop': lambda t: oh.fmt_type(t, tag=True, is_prop=True),
        'oc_class_type': oh.fmt_class_type, 'oc_class_type_noptr': lambda t: oh.fmt_class_type(t, suppress_ptr=True),
        'oc_serial_obj': oh.fmt_serial_obj, 'oc_validator': oh.fmt_validator,
    }
    n = ck.scale(600, 8000)
    items = []
    for _ in range(n):
        tj = rand_ty(ck.rng, world)
        for m in real:
            items.append([m, tj])
    out = _drive(ck, [{'op': 'decl.swift.fmt', 'items': items}])[0]
    if 'out' not in out:
        ck.disagree('decl.swift.fmt', {'items': len(items)}, 'n/a', out)
        return
    for (m, tj), (text, refs) in zip(items, out['out']):
        try:
            r = real[m](real_ty(tj, world))
        except Exception as e:                               # noqa: BLE001
            r = 'raises ' + type(e).__name__
        ck.case(('fmt', m, json.dumps(tj)), nontrivial=tj[0] not in ('prim', 'ts'))
        ck.hist('c17.fmt.mapper', m)
        # every user type the text mentions is among the model's references and vice versa (text-level closure)
        ok_refs = all(x in r for x in refs)
        if r == text and ok_refs:
            ck.agree('decl.swift.fmt')
        else:
            ck.disagree('decl.swift.fmt', {'mapper': m, 'ty': tj}, r, [text, refs])


# ======================================================================================================
# 12. the spec suite (direct oracle + correspondence) and replay
# ======================================================================================================

def _pool_size():
    try:
        n = len(os.sched_getaffinity(0))
    except AttributeError:
        n = os.cpu_count() or 2
    return max(2, min(8, n // 2))


def _measured():
    """is this run measured by coverage.py (tools/cov.py), or was in-process evaluation asked for (C17_POOL=0)?"""
    if os.environ.get('C17_POOL') == '0':
        return True
    cov = sys.modules.get('coverage')
    try:
        return cov is not None and cov.Coverage.current() is not None
    except Exception:                                         # noqa: BLE001
        return False


def _features(aj):
    """coarse coverage dimensions of an API description"""
    f = collections.Counter()
    for ns in aj:
        for t in ns['types']:
            f[t['kind']] += 1
            if t['parent']:
                f['inherits'] += 1
            if t.get('subtypes'):
                f['enumerated_subtypes'] += 1
            for fl in t['fields']:
                ty = fl['ty']
                if fl['has_default']:
                    f['default'] += 1
                k = ty[0]
                if k == 'nullable':
                    f['nullable'] += 1
                    k = ty[1][0]
                f['field:' + k] += 1
                for q in user_types_of(ty):
                    if q[0] != ns['name']:
                        f['cross_namespace_ref'] += 1
        for r in ns['routes']:
            f['route'] += 1
            if r['version'] > 1:
                f['route_version>1'] += 1
            if r['deprecated']:
                f['route_deprecated'] += 1
            f['style:%s' % r['style']] += 1
    return f


def suite_specs(ck):
    import multiprocessing
    only = [x for x in os.environ.get('C17_ONLY', '').split(',') if x]      # development: seed, grid, gen
    tasks = [('case', c) for c in seed_cases()] if (not only or 'seed' in only) else []
    if not only or 'grid' in only:
        # quick: six shapes share a spec; thorough: additionally one spec per shape (minimal replays)
        tasks += [('case', c) for c in grid_cases(6)]
        if ck.tier != 'quick':
            tasks += [('case', c) for c in grid_cases(1, exotic=False)]
    # (quick: the grid and the seed families took over what 23 of the former 170 random specs were there for)
    for fam, n in (('clean', ck.scale(50, 1100)), ('clean_types', ck.scale(32, 800)), ('text', ck.scale(30, 600)),
                   ('text_findings', ck.scale(10, 200)), ('full', ck.scale(25, 450))):
        for _ in range(n):
            draw = ck.rng.getrandbits(32)
            if not only or 'gen' in only:
                tasks.append(('gen', (draw, fam)))
    if _measured():
        # tools/cov.py measures in-process runs only: evaluate the cases here (slower, same cases, same verdicts)
        results = [_worker(t) for t in tasks]
    else:
        ctx = multiprocessing.get_context('fork')
        with ctx.Pool(_pool_size()) as pool:
            results = pool.map(_worker, tasks, chunksize=4)
    reqs, where = [], []
    for i, (case, res) in enumerate(results):
        org = case.get('origin') or '?:?'
        fam = ':'.join(org.split(':')[:2]) if org.startswith(('gen:', 'grid:')) else 'seed'
        if 'harness_error' in res:
            ck.broken.append({'kind': 'harness', 'name': 'decl.swift.spec', 'detail': res['harness_error'][-800:]})
            continue
        if 'compile_error' in res:
            ck.stat('c17.spec_not_accepted')            # a generator slip, not a case of the property
            continue
        ck.stat('c17.specs')
        ck.hist('c17.family', fam)
        st = res.get('stats', {})
        nontrivial = (st.get('types', 0) + st.get('routes', 0)) > 0
        for key, run in res['runs'].items():
            ck.case((case['origin'], json.dumps(case.get('opts'), sort_keys=True), key), nontrivial)
            ck.hist('c17.run', key + (':crash' if 'crash' in run else (':lex' if run.get('lex') else ':ok')))
            ck.stat('c17.files_lexed', run.get('files', 0))
            ck.stat('c17.bytes_lexed', run.get('bytes', 0))
            ck.stat('c17.decls_scanned', run.get('decls', 0))
        for k, v in st.items():
            if k.startswith(('expected_items.', 'closure', 'not_judged', 'selectors_compared.')):
                ck.stat('c17.' + k, v)
        if 'api' in res:
            for k, v in _features(res['api']).items():
                ck.hist('c17.features', k, v)
        for what, sig, detail in res['problems']:
            full = {'suite': 'decl.swift.spec', 'origin': case.get('origin'), 'specs': case['specs'],
                    'opts': case.get('opts'), 'detail': detail}
            r = ck.failing_input(what, sig, full)
            ck.hist('c17.problem', '%s/%s' % (what, sig.get('backend')))
            if r == 'new' and len(ck.samples) < 6:
                ck.sample({'what': what, 'signature': sig, 'origin': case.get('origin'), 'detail': detail})
        if 'api' in res:
            for key, req in model_requests(res, case.get('opts') or {}):
                reqs.append(req)
                where.append((i, key))
    if reqs:
        replies = []
        for lo in range(0, len(reqs), 900):                  # bounded stdin size per driver process
            replies.extend(_drive(ck, reqs[lo:lo + 900]))
        per = collections.defaultdict(dict)
        for (i, key), rep in zip(where, replies):
            per[i][key] = rep
        for i, (case, res) in enumerate(results):
            if i in per:
                compare_case(ck, case, res, per[i])
    if len(ck.samples) < 6:
        for case, res in results[:3]:
            if 'api' in res:
                ck.sample({'origin': case.get('origin'), 'runs': {k: {kk: vv for kk, vv in r.items() if kk in
                                                                        ('files', 'bytes', 'decls', 'crash')}
                                                                   for k, r in res['runs'].items()}})


def replay(ck, path):
    rec = json.load(open(path))
    case = rec.get('case', rec)
    sig = rec.get('signature') or {}
    res = eval_case({'origin': case.get('origin'), 'specs': case['specs'], 'opts': case.get('opts')})
    if 'compile_error' in res:
        print('spec not accepted: %s' % res['compile_error'])
        return 2
    hit = [(w, s, d) for w, s, d in res['problems'] if all(s.get(k) == v for k, v in sig.items())]
    for w, s, d in res['problems']:
        print('%s %s %s %s' % ('REPRODUCED' if (w, s, d) in hit else 'also', w, json.dumps(s, sort_keys=True),
                               json.dumps(d, sort_keys=True)[:400]))
    if hit:
        print('VIOLATION property=%s replay=%s' % (ck.prop, path))
        return 1
    print('not reproduced (%d other problems)' % len(res['problems']))
    return 0
