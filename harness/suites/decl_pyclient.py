"""decl.pyclient.* suites (C14): the generated Python client class.

Three layers, all on the REAL generated code (python_types + python_client into one scratch package, imported):

  fmt      the naming helpers (split_words / fmt_underscores / fmt_pascal / fmt_func) real vs compiled model vs an
           independent reference (`ref_*`, no regexes)
  module   correspondence (a): per generated method `inspect.signature` (names, order, evaluated defaults) and the
           generated `__init__` parameter lists vs the model's `Sig` / `structCtorParams`; whether the module loads
  calls    correspondence (b): real calls on a recording subclass vs the model's `callMethod`
  oracle   the property itself, independent of the Lean model (`judge_module`, `judge_call`): computed from the
           pristine IR with own alias unfolding, own field ordering, own method naming

A failing input carries the spec files, the method and the call (tagged values) and is replayable (`replay`).
"""
import glob
import importlib
import inspect
import itertools
import json
import keyword
import os
import sys
import warnings

from harness import core, pygen, values
from harness.irdump import fbits, bits_to_float, ref_of, chain

CLIENT_MODULE = 'c14_client_base'
CLIENT_CLASS = 'C14ClientBase'
_counter = itertools.count()

RULE = ('hand seeds harness/specs/c14_*.stone (every feature of the quantifier, deterministic) + generated specs '
        '(specgen preset routes; route arguments re-drawn among visible structs / unions / aliases of them / '
        'Void, `style` attribute upload / download / rpc through a stone_cfg.Route schema; in three families of five the field and '
        'route names re-spelled in camelCase / PascalCase / UPPER / with digits / trailing and doubled underscores / acronym runs; '
        'hand seed c14_names_* holds every such shape deterministically) x every route version x '
        'random valid argument values (harness.values.ValueGen) in random positional / keyword splits, optional '
        'parameters given or omitted; plus ill-formed calls (unknown / duplicate / missing / surplus arguments) for '
        'the call-binding model')


# ======================================================================================================
# independent reference of the naming (no regexes; names over [A-Za-z0-9_/-] only)
# ======================================================================================================
def _low_dig(c):
    return ('a' <= c <= 'z') or ('0' <= c <= '9')


def _up(c):
    return 'A' <= c <= 'Z'


def ref_words(name):
    pieces, cur, prev_sep = [], '', False
    for ch in name:
        if ch in '-_/':
            if not prev_sep:
                pieces.append(cur)
                cur = ''
            prev_sep = True
        else:
            cur += ch
            prev_sep = False
    pieces.append(cur)
    words = []
    for p in pieces:
        if not p:
            words.append(p)
            continue
        w = p[0]
        for i in range(1, len(p)):
            c = p[i]
            # a new word starts at a capital that follows a small letter / digit, or that starts a capitalised word
            if _up(c) and (_low_dig(p[i - 1]) or (i + 1 < len(p) and _low_dig(p[i + 1]))):
                words.append(w)
                w = c
            else:
                w += c
        words.append(w)
    return words


def ref_underscores(name):
    return '_'.join(w.lower() for w in ref_words(name))


def ref_pascal(name):
    return ''.join(w[:1].upper() + w[1:].lower() for w in ref_words(name))


def ref_method_name(ns, route, version, suffix=''):
    """"named from namespace, route and version": <ns>_<route>[_v<version>], all lower-case words"""
    n = ref_underscores(ns) + '_' + ref_underscores(route + suffix)
    return n + ('_v%d' % version if version > 1 else '')


_NAME_POOL = ['get_metadata', 'GetMetadata', 'getMetadata', 'HTTPCode', 'AS', 'list_folder/continue', 'ListFolder/ContinueV2',
              'a', 'A', 'x1', 'X1', 'V2api', 'v2_API', 'URLSpec', 'IOError2', 'snake_case_name', 'UPPER', 'Mixed_Case-dash',
              '_lead', 'trail_', 'a__b', 'a-/b', '', '_', 'team_log', 'TeamLog', 'ABc1', 'aBCd', 'A1B', 'fooB', 'class', 'for',
              'async', 'pass', 'while', 'break', 'continue', 'fileRequests', 'file_requests', 'get_to_file']


def suite_fmt(ck):
    rng = ck.rng
    names = list(_NAME_POOL)
    alpha = 'abzXYZ019_-/'
    for _ in range(ck.scale(400, 4000)):
        names.append(''.join(rng.choice(alpha) for _ in range(rng.randint(0, 9))))
    odd = [''.join(rng.choice('aB1_. $é') for _ in range(rng.randint(1, 6))) for _ in range(ck.scale(60, 400))]
    from stone.backends.helpers import fmt_underscores, fmt_pascal, split_words
    from stone.backends.python_helpers import fmt_func, fmt_namespace, fmt_var
    for version in (1, 2, 3, 10):
        batch = names + (odd if version == 1 else [])
        rep = ck.driver([{'op': 'decl.pyclient.fmt', 'names': batch, 'version': version}])[0]
        if 'out' not in rep:
            raise RuntimeError('decl.pyclient.fmt refused: %r' % (rep,))
        for n, got in zip(batch, rep['out']):
            real = [fmt_underscores(n), fmt_pascal(n), fmt_func(n, version=version), fmt_namespace(n), fmt_var(n, True),
                    split_words(n)]
            ck.case(('fmt', n, version), nontrivial=bool(n))
            if n.isascii() and real == got:
                ck.agree('decl.pyclient.fmt')
            elif not n.isascii():
                ck.stat('fmt.non_ascii_not_compared')
            else:
                ck.disagree('decl.pyclient.fmt', {'name': n, 'version': version}, real, got)
            if all(c.isalnum() and c.isascii() or c in '-_/' for c in n):
                ref = [ref_underscores(n), ref_pascal(n)]
                if ref != real[:2]:
                    # the reference is the harness's reading of "words"; a difference is a harness problem, not a verdict
                    ck.disagree('decl.pyclient.fmt_reference', {'name': n}, real[:2], ref)
                else:
                    ck.agree('decl.pyclient.fmt_reference')
    # string defaults are printed with repr since the repair of c14-string-default-with-blank (pprint.pformat(width=1) wrapped
    # them at blanks and emit() refused the text); `RouteView.pformat_wraps` still names that cause should it come back
    import pprint
    texts = ['', ' ', 'a', 'a b', 'ab ', ' ab', 'a\n', 'a\nb', 'a\n ', 'a\r\n', 'a\r\nb', 'a\r\n ', '\r\n', '\n\n', 'a\tb', 'a \t', 'é b',
             'two words', "it's\"q\"", 'x\x0by', 'x\x0c', 'x\x1cy', 'x\x1f', 'x\x1fy', 'a\rb', 'a\r']
    for _ in range(ck.scale(300, 3000)):
        texts.append(''.join(rng.choice('ab \t\n\r_é"\'\x0b\x1d') for _ in range(rng.randint(0, 6))))
    for t in texts:
        real = '\n' in pprint.pformat(t, width=1)
        ck.case(('wraps', t))
        if real == RouteView.pformat_wraps(t):
            ck.agree('decl.pyclient.pformat_wraps_reference')
        else:
            ck.disagree('decl.pyclient.pformat_wraps_reference', {'text': t}, real, RouteView.pformat_wraps(t))
    rep = ck.driver([{'op': 'decl.pyclient.keywords'}])[0]
    from stone.backends import python_helpers
    if sorted(rep['python']) == sorted(keyword.kwlist) and sorted(rep['reserved']) == sorted(python_helpers._reserved_keywords):
        ck.agree('decl.pyclient.keywords')
    else:
        ck.disagree('decl.pyclient.keywords', {}, [sorted(keyword.kwlist), sorted(python_helpers._reserved_keywords)],
                    [rep['python'], rep['reserved']])


# ======================================================================================================
# IR -> model input
# ======================================================================================================
def ty_json(t):
    from stone.ir import Alias, List, Map, Nullable, Struct, Union, Void
    if isinstance(t, Nullable):
        return ['nullable', ty_json(t.data_type)]
    if isinstance(t, Alias):
        return ['alias', t.namespace.name, t.name, ty_json(t.data_type)]
    if isinstance(t, List):
        return ['list', ty_json(t.data_type)]
    if isinstance(t, Map):
        return ['map', ty_json(t.key_data_type), ty_json(t.value_data_type)]
    if isinstance(t, Struct):
        return ['struct', t.namespace.name, t.name]
    if isinstance(t, Union):
        return ['union', t.namespace.name, t.name]
    if isinstance(t, Void):
        return ['void']
    return ['p', t.name]


def lit_json(v):
    from stone.ir.data_types import TagRef
    if isinstance(v, TagRef):
        return ['t', ty_json(v.union_data_type), v.tag_name]      # the union, or the alias the field was declared with
    if isinstance(v, bool):
        return ['b', v]
    if isinstance(v, int):
        return ['i', str(v)]
    if isinstance(v, float):
        return ['f', str(fbits(v))]
    if isinstance(v, str):
        return ['s', v]
    raise TypeError('unhandled default %r' % (v,))


def api_json(api):
    from stone.ir import Struct
    nss, structs = [], []
    for ns in api.namespaces.values():
        routes = []
        for r in ns.routes:
            dep = None
            if r.deprecated is not None:
                dep = {'by': [r.deprecated.by.name, r.deprecated.by.version] if r.deprecated.by is not None else None}
            style = r.attrs.get('style') if r.attrs else None
            routes.append({'name': r.name, 'version': r.version, 'arg': ty_json(r.arg_data_type),
                           'result': ty_json(r.result_data_type), 'deprecated': dep,
                           'style': style if isinstance(style, str) else None})
        nss.append({'name': ns.name, 'dataTypes': [dt.name for dt in ns.data_types],
                    'aliases': [[a.name, ty_json(a.data_type)] for a in ns.aliases], 'routes': routes})
        for dt in ns.data_types:
            if isinstance(dt, Struct):
                structs.append({'ns': ns.name, 'name': dt.name,
                                'parent': [dt.parent_type.namespace.name, dt.parent_type.name] if dt.parent_type else None,
                                'fields': [{'name': f.name, 'ty': ty_json(f.data_type),
                                            'dflt': lit_json(f.default) if f.has_default else None} for f in dt.fields]})
    return {'namespaces': nss, 'structs': structs}


# ======================================================================================================
# the specification-level view of a route (own reading of the property text, from the pristine IR)
# ======================================================================================================
def unalias(t):
    from stone.ir import Alias
    while isinstance(t, Alias):
        t = t.data_type
    return t


def spec_nullable(t):
    from stone.ir import Nullable
    return isinstance(unalias(t), Nullable)


class FieldView:
    def __init__(self, f):
        self.name = f.name
        self.ir = f.data_type
        self.nullable = spec_nullable(f.data_type)
        self.has_default = bool(f.has_default)
        self.default = f.default if f.has_default else None
        self.required = not self.nullable and not self.has_default
        self.via_alias = type(f.data_type).__name__ == 'Alias'
        # the spec writes such defaults as text; the IR keeps the text, the runtime wants bytes / datetime
        self.text_default = self.has_default and type(unalias(f.data_type)).__name__ in ('Bytes', 'Timestamp')
        self.alias_of_nullable = self.via_alias and self.nullable


class RouteView:
    """what the property text says about one route version"""

    def __init__(self, ns, r):
        from stone.ir import Struct, Union, Void
        self.ns = ns.name
        self.ns_has_types = bool(ns.data_types)
        self.name = r.name
        self.version = r.version
        self.deprecated = r.deprecated is not None
        self.successor = r.deprecated.by.name if (r.deprecated is not None and r.deprecated.by is not None) else None
        style = r.attrs.get('style') if r.attrs else None
        self.style = style if isinstance(style, str) else None
        self.upload = self.style == 'upload'
        self.download = self.style == 'download'
        arg = unalias(r.arg_data_type)
        self.arg_ir = arg
        self.arg_via_alias = arg is not r.arg_data_type
        self.kind = 'struct' if isinstance(arg, Struct) else 'union' if isinstance(arg, Union) else \
            'void' if isinstance(arg, Void) else 'other'
        self.arg_ref = ref_of(arg) if self.kind in ('struct', 'union') else None
        self.result_void = isinstance(unalias(r.result_data_type), Void)
        self.error_has_fields = isinstance(unalias(r.error_data_type), (Struct, Union, Void))
        self.fields = []
        if self.kind == 'struct':
            for c in chain(arg):
                self.fields.extend(FieldView(f) for f in c.fields)
        self.method = ref_method_name(ns.name, r.name, r.version)
        self.inherited = self.kind == 'struct' and arg.parent_type is not None

    def expected_params(self):
        """[(name, required)] after self: upload body, required fields in declaration order, optional ones"""
        out = [('f', True)] if self.upload else []
        if self.kind == 'struct':
            out += [(f.name, True) for f in self.fields if f.required]
            out += [(f.name, False) for f in self.fields if not f.required]
        elif self.kind == 'union':
            out.append(('arg', True))
        return out

    def label(self):
        return '%s.%s:%d' % (self.ns, self.name, self.version)

    @staticmethod
    def pformat_wraps(text):
        """own reading of pprint: a string is wrapped after whitespace that is followed by something else and at inner
        line breaks (ASCII)"""
        ws, brk = ' \t\n\r\x0b\x0c\x1c\x1d\x1e\x1f', '\n\r\x0b\x0c\x1c\x1d\x1e'
        i, n = 0, len(text)
        while i + 1 < n:
            a, b = text[i], text[i + 1]
            if a == '\r' and b == '\n':
                if i + 2 < n:
                    return True
            elif a in brk or (a in ws and b not in ws):
                return True
            i += 1
        return False

    IMPORT_CAUSES = ('field-named-self', 'upload-route-field-named-f', 'download-route-field-named-download_path',
                     'field-named-like-python-keyword', 'tag-default-declared-through-alias-of-another-namespace')

    def causes(self):
        """independent explanations (from the spec alone) of why this route's method may be broken"""
        from stone.backends.python_helpers import fmt_namespace
        out = []
        names = [f.name for f in self.fields] + (['arg'] if self.kind == 'union' else [])
        if any(isinstance(f.default, str) and not f.nullable and self.pformat_wraps(f.default) for f in self.fields):
            out.append('string-default-with-blank')
        if 'self' in names:
            out.append('field-named-self')
        if self.upload and 'f' in names:
            out.append('upload-route-field-named-f')
        if self.download and 'download_path' in names:
            out.append('download-route-field-named-download_path')
        if [n for n in names if keyword.iskeyword(n)]:
            out.append('field-named-like-python-keyword')
        for f in self.fields:
            d = f.default
            if type(d).__name__ == 'TagRef' and type(d.union_data_type).__name__ == 'Alias':
                al, un = d.union_data_type, unalias(d.union_data_type)
                # python_types binds the class alias as fmt_class(alias name) in the ALIAS's module; the client looks
                # for it in the UNION's module
                if fmt_namespace(al.namespace.name) != fmt_namespace(un.namespace.name):
                    out.append('tag-default-declared-through-alias-of-another-namespace')
                    break
        if not self.ns_has_types:
            out.append('route-namespace-without-data-types')
        hidden = {fmt_namespace(self.ns)}
        if self.kind == 'struct':
            hidden.add(fmt_namespace(self.arg_ref.split('.')[0]))
        if self.deprecated:
            hidden.add('warnings')
        local = set(names) | ({'f'} if self.upload else set()) | {'r'} | (set() if self.kind == 'union' else {'arg'})
        if hidden & local:
            out.append('parameter-hides-module-name')
        if any(f.alias_of_nullable for f in self.fields):
            out.append('field-type-alias-of-nullable')
        return out

    def cause(self, exception=None, omitted=()):
        """the explanation that fits the symptom (exception class of a failing call, parameters the call left out)"""
        cs = self.causes()
        if exception == 'ValidationError':
            if any(f.text_default and f.name in omitted for f in self.fields):
                return 'text-default-of-bytes-or-timestamp-field'
            return 'field-type-alias-of-nullable' if 'field-type-alias-of-nullable' in cs else 'unexplained'
        if exception == 'NameError':
            return 'route-namespace-without-data-types' if 'route-namespace-without-data-types' in cs else 'unexplained'
        if exception in ('AttributeError', 'UnboundLocalError'):
            return 'parameter-hides-module-name' if 'parameter-hides-module-name' in cs else 'unexplained'
        if exception is None and 'field-type-alias-of-nullable' in cs:
            return 'field-type-alias-of-nullable'
        return 'unexplained'


def route_views(api):
    return [RouteView(ns, r) for ns in api.namespaces.values() for r in ns.routes]


# ======================================================================================================
# sessions: compile, generate, import
# ======================================================================================================
class Session:
    def __init__(self, ck, specs, label):
        self.ck = ck
        self.specs = [list(x) for x in specs]
        self.label = label
        self.status = 'ok'              # ok | compile-fails | types-fail | client-gen-fails | client-import-fails
        self.error = None
        self.client = None
        self.built = None
        from stone.frontend.exception import InvalidSpec
        try:
            self.api = pygen.compile_specs(specs)          # pristine: expectations, model input, value generation
            api_gen = pygen.compile_specs(specs)           # python_client strips the aliases out of this one
        except InvalidSpec as e:
            self.status, self.error = 'compile-fails', str(e)[:300]
            return
        self.model_api = api_json(self.api)
        self.views = route_views(self.api)
        self.pkg = 'c14gen%d_%d' % (os.getpid(), next(_counter))
        self.root = core.scratch('stone-verif-c14-')
        self.out = os.path.join(self.root, self.pkg)
        try:
            pygen.generate(api_gen, 'python_types', ['--package', self.pkg], self.out)
        except Exception as e:  # noqa: BLE001 - python_types is C09's subject
            self.status, self.error = 'types-fail', _short(e)
            return
        try:
            pygen.generate(api_gen, 'python_client', ['-m', CLIENT_MODULE, '-c', CLIENT_CLASS, '-t', self.pkg], self.out)
        except Exception as e:  # noqa: BLE001
            self.status, self.error = 'client-gen-fails', _short(e)
            return
        sys.path.insert(0, self.root)
        try:
            importlib.invalidate_caches()
            from stone.backends.python_helpers import fmt_namespace
            try:
                mods = {ns: importlib.import_module(self.pkg + '.' + fmt_namespace(ns)) for ns in self.api.namespaces}
            except Exception as e:  # noqa: BLE001
                self.status, self.error = 'types-fail', 'import: ' + _short(e)
                return
            self.built = pygen.Built(self.specs, self.api, self.pkg, self.root, self.out, mods)
            try:
                self.client = importlib.import_module(self.pkg + '.' + CLIENT_MODULE)
            except Exception as e:  # noqa: BLE001 - judged
                self.status, self.error = 'client-import-fails', '%s: %s' % (type(e).__name__, str(e)[:200])
                self.import_exc = type(e).__name__
                return
        finally:
            sys.path.remove(self.root)
        self.cls = getattr(self.client, CLIENT_CLASS)
        self.ts = values.TsRegistry()
        self.codec = values.Codec(self.built, self.ts)
        self.gen = values.ValueGen(ck.rng, self.api, self.ts)

    def case(self, **kw):
        d = {'specs': self.specs, 'label': self.label}
        d.update(kw)
        return d

    def route_object(self, view):
        """the object python_types defines for this route version, found by what it says about itself"""
        from stone.backends.python_rsrc import stone_base as bb
        found = [(k, v) for k, v in vars(self.built.mods[view.ns]).items()
                 if isinstance(v, bb.Route) and v.name == view.name and v.version == view.version]
        return found[0] if len(found) == 1 else (None, None)

    def model_module(self):
        rep = self.ck.driver([{'op': 'decl.pyclient.module', 'api': self.model_api}])[0]
        if 'protocol_error' in rep:
            raise RuntimeError('decl.pyclient.module refused: %r' % (rep,))
        return rep


def _short(e):
    s = getattr(e, 'traceback', None) or str(e)      # stone.compiler.BackendException keeps the inner traceback text
    last = s.strip().splitlines()[-1] if s.strip() else ''
    return ('%s: %s' % (type(e).__name__, last))[:300]


def gen_error_kind(ses):
    """why python_client refused (from the exception text of the wrapped traceback); '' when unknown"""
    e = ses.error or ''
    if 'Unhandled request type' in e:
        return 'unhandledArgType'
    if 'There is a name conflict' in e:
        return 'nameConflict'
    if 'String to emit cannot contain newline' in e:
        return 'multilineDefault'
    return ''


# ======================================================================================================
# python value <-> model value
# ======================================================================================================
def spec_default_value(ses, fv):
    """the Python value a spec default denotes, converted here (not by stone): literals are themselves, a tag
    reference is the union object with that tag"""
    from stone.ir.data_types import TagRef
    if fv.nullable or not fv.has_default:
        return None
    d = fv.default
    if isinstance(d, TagRef):
        return ses.built.cls_by_ref[ref_of(unalias(d.union_data_type))](d.tag_name)
    return d


def model_dflt_value(ses, d):
    """a model default / value -> the Python object it denotes"""
    if d is None:
        return inspect.Parameter.empty
    k = d[0]
    if k == 'none':
        return None
    if k == 'lit':
        lit = d[1]
        if lit[0] == 'b':
            return lit[1]
        if lit[0] == 'i':
            return int(lit[1])
        if lit[0] == 'f':
            return bits_to_float(int(lit[1]))
        if lit[0] == 's':
            return lit[1]
        raise ValueError(d)
    if k == 'tagobj':
        return getattr(ses.built.cls_by_ref['%s.%s' % (d[1], d[2])], d[3])
    raise ValueError(d)


def same_value(a, b):
    """Python equality, strict on the type for scalars (True == 1 and 1 == 1.0 are not the same default)"""
    if a is inspect.Parameter.empty or b is inspect.Parameter.empty:
        return a is b
    if isinstance(a, (bool, int, float, str)) or isinstance(b, (bool, int, float, str)) or a is None or b is None:
        return type(a) is type(b) and a == b
    # union objects: a tag inherited from a parent union is the parent class's object (`Child.tag is Parent.tag`), which the
    # generated classes treat as the same value (Union.__eq__, Union validator)
    return (isinstance(a, type(b)) or isinstance(b, type(a))) and a == b


# ======================================================================================================
# module level: oracle + correspondence (a)
# ======================================================================================================
def judge_module(ses):
    """[(what, signature, detail)] - the property on the generated module as a whole and on every signature."""
    problems = []
    legal = [v for v in ses.views if v.kind != 'other']
    if ses.status == 'client-gen-fails':
        kind = gen_error_kind(ses)
        if kind == 'unhandledArgType' and len(legal) < len(ses.views):
            return problems                      # a route with another argument kind: the backend refuses, not judged
        if kind == 'nameConflict':
            return problems                      # the backend refuses loudly: not judged
        if "has no attribute 'fields'" in (ses.error or '') and not all(v.error_has_fields for v in ses.views):
            # docstring generation reads `error_data_type.fields`: a route whose ERROR type is a primitive / list / map /
            # nullable crashes the backend. The property and its quantifier say nothing about error types: recorded, not judged.
            ses.ck.stat('module.not_judged.error_type_without_fields_crashes_docstring_generation')
            return problems
        cause = 'unexplained'
        if kind == 'multilineDefault' and any('string-default-with-blank' in v.causes() for v in legal):
            cause = 'string-default-with-blank'
        problems.append(('python_client crashes on a spec whose routes all have struct / union / Void arguments',
                         {'kind': 'client-generation-crash', 'cause': cause},
                         {'error': ses.error, 'routes': [v.label() for v in legal if 'string-default-with-blank' in v.causes()]}))
        return problems
    if ses.status == 'client-import-fails':
        causes = sorted({c for v in legal for c in v.causes() if c in RouteView.IMPORT_CAUSES})
        if len(causes) > 1:
            # several candidates in one spec: keep the ones that fit what the interpreter says (class and named parameter)
            err = ses.error or ''
            fits = {'upload-route-field-named-f': "duplicate argument 'f'" in err,
                    'download-route-field-named-download_path': "duplicate argument 'download_path'" in err,
                    'field-named-self': "duplicate argument 'self'" in err,
                    'field-named-like-python-keyword': ses.import_exc == 'SyntaxError' and 'duplicate argument' not in err,
                    'tag-default-declared-through-alias-of-another-namespace': ses.import_exc == 'AttributeError'}
            causes = [c for c in causes if fits.get(c)] or causes
        problems.append(('the generated client module cannot be imported next to the python_types output',
                         {'kind': 'client-module-import', 'exception': ses.import_exc,
                          'cause': causes[0] if len(causes) == 1 else ('unexplained' if not causes else '+'.join(causes))},
                         {'error': ses.error,
                          'routes': [v.label() for v in legal if set(v.causes()) & set(causes)]}))
        return problems
    if ses.status != 'ok':
        return problems
    # one method per route version, named from namespace, route and version
    by_name = {}
    for v in legal:
        by_name.setdefault(v.method, []).append(v)
    for name, vs in by_name.items():
        if len(vs) > 1:
            problems.append(('two route versions share one method name: the later definition replaces the earlier',
                             {'kind': 'method-name-clash', 'same_namespace': len({v.ns for v in vs}) == 1},
                             {'method': name, 'routes': [v.label() for v in vs]}))
    for v in legal:
        if len(by_name[v.method]) > 1:
            continue
        meth = getattr(ses.cls, v.method, None)
        if meth is None or not inspect.isfunction(meth):
            problems.append(('no method for a route version', {'kind': 'method-missing'},
                             {'route': v.label(), 'expected_name': v.method,
                              'have': sorted(n for n in vars(ses.cls) if not n.startswith('_'))[:40]}))
            continue
        bad = signature_problem(ses, v, meth)
        if bad:
            cause = 'unexplained'
            if bad[0] == 'default-value' and 'tag-default-declared-through-alias-of-another-namespace' in v.causes() and \
                    type(next(f for f in v.fields if f.name == bad[1]['param']).default).__name__ == 'TagRef':
                # `<union's module>.<alias name>.<tag>` happens to name another class of that module
                cause = 'tag-default-declared-through-alias-of-another-namespace'
            problems.append(('the parameters of a route method are not the argument fields (required positional in '
                             'declaration order, optional keyword with the spec defaults)',
                             {'kind': 'signature', 'what': bad[0], 'cause': cause},
                             {'route': v.label(), 'method': v.method, 'detail': bad[1],
                                                                      'signature': str(inspect.signature(meth))}))
    return problems


def signature_problem(ses, v, meth):
    sig = inspect.signature(meth)
    ps = list(sig.parameters.values())
    if not ps or ps[0].name != 'self':
        return ('no-self', str(sig))
    ps = ps[1:]
    exp = v.expected_params()
    if [p.name for p in ps] != [n for n, _ in exp]:
        return ('names-or-order', {'expected': [n for n, _ in exp], 'real': [p.name for p in ps]})
    fv = {f.name: f for f in v.fields}
    for p, (n, required) in zip(ps, exp):
        if p.kind != inspect.Parameter.POSITIONAL_OR_KEYWORD:
            return ('parameter-kind', n)
        if required:
            if p.default is not inspect.Parameter.empty:
                return ('required-has-default', n)
        else:
            if p.default is inspect.Parameter.empty:
                return ('optional-without-default', n)
            want = spec_default_value(ses, fv[n])
            if not same_value(p.default, want):
                return ('default-value', {'param': n, 'expected': repr(want), 'real': repr(p.default)})
    return None


def suite_module(ck, sessions):
    """correspondence (a) + module-level oracle"""
    for ses in sessions:
        ck.hist('session.status', ses.status)
        if ses.status != 'compile-fails':
            by_name = {}
            for v in ses.views:
                if v.arg_ref:
                    by_name.setdefault(v.arg_ref.split('.', 1)[1], set()).add(v.arg_ref.split('.', 1)[0])
            ck.hist('spec.argument_type_names_shared_by_namespaces', min(3, sum(1 for x in by_name.values() if len(x) > 1)))
        if ses.status in ('compile-fails', 'types-fail'):
            ck.stat('module.not_judged.' + ses.status)
            continue
        for what, sig, detail in judge_module(ses):
            ck.failing_input(what, sig, ses.case(suite='module', detail=detail))
        rep = ses.model_module()
        ses.model = rep
        key = ('module', ses.label)
        ck.case(key)
        # generation outcome
        if ses.status == 'client-gen-fails' and "has no attribute 'fields'" in (ses.error or '') and \
                not all(v.error_has_fields for v in ses.views):
            ck.stat('generation.not_compared.error_type_without_fields')
            continue
        if 'gen_error' in rep or ses.status == 'client-gen-fails':
            real = gen_error_kind(ses) if ses.status == 'client-gen-fails' else 'generated'
            model = rep['gen_error'][0] if 'gen_error' in rep else 'generated'
            if real == model:
                ck.agree('decl.pyclient.generation')
            else:
                ck.disagree('decl.pyclient.generation', {'specs': ses.specs}, [real, ses.error], rep.get('gen_error'))
            continue
        ck.agree('decl.pyclient.generation')
        # does the module load
        real_load = 'ok' if ses.status == 'ok' else ses.import_exc
        mload = rep['load']
        model_load = 'ok' if mload is None else {'syntaxError': 'SyntaxError', 'nameError': 'NameError',
                                                   'attributeError': 'AttributeError'}.get(mload[0], mload[0])
        if real_load == model_load:
            ck.agree('decl.pyclient.load')
        else:
            ck.disagree('decl.pyclient.load', {'specs': ses.specs}, [real_load, ses.error], mload)
        if ses.status != 'ok':
            continue
        # the class: same method names, same signatures
        real_methods = {n: f for n, f in vars(ses.cls).items() if inspect.isfunction(f) and n != 'request'}
        model_methods = {}
        for m in rep['methods']:
            model_methods[m['name']] = m          # a later definition replaces an earlier one
        if sorted(real_methods) != sorted(model_methods):
            ck.disagree('decl.pyclient.methods', {'specs': ses.specs}, sorted(real_methods), sorted(model_methods))
        else:
            ck.agree('decl.pyclient.methods')
        for n in sorted(set(real_methods) & set(model_methods)):
            m = model_methods[n]
            ck.case(('sig', ses.label, n))
            ps = list(inspect.signature(real_methods[n]).parameters.values())
            real = [(p.name, p.default) for p in ps[1:]]
            model = [(p[0], model_dflt_value(ses, p[1])) for p in (m['bparams'] or [])]
            ok = ps[0].name == 'self' and len(real) == len(model) and all(
                a[0] == b[0] and same_value(a[1], b[1]) for a, b in zip(real, model))
            if ok:
                ck.agree('decl.pyclient.signature')
            else:
                ck.disagree('decl.pyclient.signature', {'specs': ses.specs, 'method': n}, repr(real), repr(model))
            ck.hist('method.params', min(len(real), 12))
        # the generated __init__ parameter lists (the other site that walks all_fields)
        from stone.backends.python_helpers import fmt_class
        for nsn, name, params, _nna, _dwt in rep['ctors']:
            cls = ses.built.cls_by_ref.get('%s.%s' % (nsn, name))
            if cls is None:
                continue
            ps = list(inspect.signature(cls.__init__).parameters.values())[1:]
            ck.case(('ctor', ses.label, nsn, name))
            if [p.name for p in ps] == params and all(p.default is None for p in ps):
                ck.agree('decl.pyclient.ctor_params')
            else:
                ck.disagree('decl.pyclient.ctor_params', {'specs': ses.specs, 'struct': [nsn, name]}, [p.name for p in ps], params)
        # how often the hypotheses of the theorems hold on what is explored
        for nsn, name, _p, nna, dwt in rep['ctors']:
            ck.hist('hypothesis.noNullableAlias', nna)
            ck.hist('hypothesis.defaultsWellTyped', dwt)
        ck.hist('hypothesis.nsPrefixFree', rep['nsPrefixFree'])
        for m in rep['methods']:
            ck.hist('hypothesis.hygienic', m['hygienic'])


# ======================================================================================================
# calls
# ======================================================================================================
class _Ret:
    def __init__(self, n):
        self.n = n

    def __repr__(self):
        return '<request result %d>' % self.n


def make_recorder(ses):
    r0, r1 = _Ret(0), _Ret(1)
    ret = (r0, r1)

    class Recorder(ses.cls):
        def __init__(self):
            self.requests = []
            self.saved = []

        def request(self, route, namespace, request_arg, request_binary, timeout=None):
            self.requests.append((route, namespace, request_arg, request_binary))
            return ret

        def _save_body_to_file(self, download_path, http_resp, chunksize=2 ** 16):
            self.saved.append((download_path, http_resp))

    return Recorder, ret


def draw_call(ses, v, rng, to_file=False):
    """a random valid call of route view v: {'pos': [tagged], 'kw': [[name, tagged]]} or None"""
    params = []          # (name, tagged value) for every parameter that is passed
    order = ([('download_path', None)] if to_file else []) + v.expected_params()
    fv = {f.name: f for f in v.fields}
    prefix_ok = True
    npos_max = 0
    for n, required in order:
        if n == 'download_path':
            tv = ['s', '/tmp/x.bin']
        elif n == 'f' and v.upload and n not in fv:
            tv = ['y', rng.choice(['', '00ff', '68656c6c6f'])]
        elif n == 'arg' and v.kind == 'union':
            tv = ses.gen.valid(v.arg_ir)
            if tv is None:
                return None
        else:
            f = fv[n]
            if not required and rng.random() < 0.45:
                prefix_ok = False
                continue
            tv = ses.gen.valid(f.ir)
            if tv is None:
                if required:
                    return None
                prefix_ok = False
                continue
        params.append([n, tv])
        if prefix_ok:
            npos_max += 1
    k = rng.choice([0, npos_max, rng.randint(0, npos_max)])
    kw = params[k:]
    rng.shuffle(kw)
    return {'pos': [tv for _n, tv in params[:k]], 'kw': kw}


def draw_bad_call(ses, v, rng, good):
    """an ill-formed variant of a valid call (binding must fail with TypeError)"""
    pos, kw = list(good['pos']), [list(x) for x in good['kw']]
    names = [n for n, _ in v.expected_params()]
    how = rng.choice(['unknown', 'surplus', 'missing', 'multiple'])
    if how == 'unknown':
        kw.append(['no_such_parameter_', ['i', 1]])
    elif how == 'surplus':
        pos = pos + [tv for _n, tv in kw] + [['i', 1]] * (len(names) + 1)
        kw = []
    elif how == 'missing':
        req = [n for n, r in v.expected_params() if r]
        if not req:
            return None
        victim = rng.choice(req)
        i = names.index(victim)
        if i < len(pos):
            # drop the positional tail from the victim on, pass the others by keyword
            tail = list(zip(names[i + 1:len(pos)], pos[i + 1:]))
            pos = pos[:i]
            kw = kw + [[n, tv] for n, tv in tail]
        else:
            kw = [x for x in kw if x[0] != victim]
    else:
        if not pos:
            return None
        kw.append([names[0], pos[0]])
    return {'pos': pos, 'kw': kw, 'bad': how}


def build_checked(ses, t):
    """values.Codec.build_checked, with the attributes of nested struct values addressed by the names the generated
    classes give them (lower_snake_case words of the field name) instead of the spec's spelling, so that values of
    structs whose fields are written in camelCase / PascalCase / ... can be built through the public interface too"""
    k = t[0]
    if k == 'S':
        obj = ses.built.cls_by_ref[t[1]]()
        for name, x in t[2]:
            setattr(obj, ref_underscores(name), build_checked(ses, x))
        # a struct value goes into a call as the value of a field: when the generated classes themselves refuse it in
        # that position (python_types / runtime, C08 / C09) the call has no valid argument to judge
        from stone.backends.python_rsrc import stone_validators as bv
        bv.Struct(type(obj)).validate(obj)
        return obj
    if k == 'U':
        return ses.built.cls_by_ref[t[1]](t[2], build_checked(ses, t[3]))
    if k == 'l':
        return [build_checked(ses, x) for x in t[1]]
    if k == 'u':
        return tuple(build_checked(ses, x) for x in t[1])
    if k == 'd':
        return {build_checked(ses, a): build_checked(ses, b) for a, b in t[1]}
    return ses.codec.to_py(t)


def run_real_call(ses, method_name, call):
    """-> ('ok', outcome dict with python objects) | ('raises', exception class name, text)"""
    Recorder, ret = make_recorder(ses)
    try:
        pos = [build_checked(ses, tv) for tv in call['pos']]
        kw = {n: build_checked(ses, tv) for n, tv in call['kw']}
    except Exception as e:  # noqa: BLE001
        return ('value-build-fails', type(e).__name__, str(e)[:200])
    rec = Recorder()
    with warnings.catch_warnings(record=True) as caught:
        warnings.simplefilter('always')
        try:
            out = getattr(rec, method_name)(*pos, **kw)
        except Exception as e:  # noqa: BLE001 - judged
            return ('raises', type(e).__name__, str(e)[:200], pos, kw)
    dep = [w for w in caught if issubclass(w.category, DeprecationWarning)]
    return ('ok', {'requests': rec.requests, 'saved': rec.saved, 'warnings': dep, 'out': out, 'ret': ret,
                   'other_warnings': [w for w in caught if not issubclass(w.category, DeprecationWarning)]}, pos, kw)


def slots_of(ses, obj, struct_ir):
    """{field name: value} of the fields that are set on a generated struct instance (raw slots)"""
    from stone.backends.python_rsrc import stone_base as bb
    from stone.backends.python_helpers import fmt_var
    out = {}
    for c in chain(struct_ir):
        for f in c.fields:
            val = getattr(obj, '_%s_value' % fmt_var(f.name), bb.NOT_SET)
            if val is not bb.NOT_SET:
                out[f.name] = val
    return out


def build_direct(ses, v, bound):
    """the struct built directly from the parameter values (not through the client): one attribute assignment per
    field whose parameter is not None"""
    from stone.backends.python_helpers import fmt_var
    cls = ses.built.cls_by_ref[v.arg_ref]
    obj = cls()
    for f in v.fields:
        val = bound[f.name]
        if val is not None:
            setattr(obj, fmt_var(f.name, True), val)
    return obj


def bind_expected(ses, v, pos, kw):
    """parameter values the property text implies for this call (positional in expected order, keywords, spec
    defaults)"""
    bound = {}
    exp = v.expected_params()
    fv = {f.name: f for f in v.fields}
    for (n, _r), val in zip(exp, pos):
        bound[n] = val
    bound.update(kw)
    for n, required in exp:
        if n not in bound:
            assert not required
            bound[n] = spec_default_value(ses, fv[n])
    return bound


def _srepr(x):
    """repr that survives generated classes whose own __repr__ raises (stone_base.Struct.__repr__ looks for
    `_<spec name>_value`, which does not exist for field names that are not lower_snake_case)"""
    try:
        return repr(x)
    except Exception:  # noqa: BLE001
        d = {k: _srepr(getattr(x, k)) for k in getattr(type(x), '__slots__', ()) if hasattr(x, k)}
        return '<%s %s>' % (type(x).__name__, d)


def judge_call(ses, v, call, res):
    """The property on one call of the method of route view v. -> [(what, signature, detail)]"""
    if res[0] == 'value-build-fails':
        return []
    if res[0] == 'raises':
        given = set(n for n, _r in v.expected_params()[:len(res[3])]) | set(res[4])
        omitted = [n for n, _r in v.expected_params() if n not in given]
        return [('calling the method of a route with valid arguments raises instead of issuing the request',
                 {'kind': 'call-raises', 'exception': res[1], 'cause': v.cause(res[1], omitted)}, {'error': res[2]})]
    cause = v.cause(None)
    o, pos, kw = res[1], res[2], res[3]
    bad = []

    def fail(what, detail=None):
        bad.append(('a call of a route method does not issue the request the route describes',
                    {'kind': 'call-wrong', 'what': what, 'cause': cause}, detail))
    if len(o['requests']) != 1:
        fail('request-count', len(o['requests']))
        return bad
    route, namespace, arg, body = o['requests'][0]
    var, robj = ses.route_object(v)
    if robj is None:
        return []        # python_types did not define exactly one object for the route: not this property
    if route is not robj:
        fail('route-object', {'expected': _srepr(robj), 'real': _srepr(route)})
    if namespace != v.ns or type(namespace) is not str:
        fail('namespace-name', {'expected': v.ns, 'real': _srepr(namespace)})
    bound = bind_expected(ses, v, pos, kw)
    if v.kind == 'void':
        if arg is not None:
            fail('void-argument', _srepr(arg))
    elif v.kind == 'union':
        if arg is not bound['arg']:
            fail('union-argument', _srepr(arg))
    else:
        try:
            want = build_direct(ses, v, bound)
        except Exception as e:  # noqa: BLE001 - valid values refused by the classes: C08's subject
            return []
        if type(arg) is not type(want):
            fail('argument-class', {'expected': type(want).__name__, 'real': type(arg).__name__})
        else:
            a, b = slots_of(ses, arg, v.arg_ir), slots_of(ses, want, v.arg_ir)
            try:
                eq = arg == want
            except AttributeError:
                # generated __eq__ reads every field through its property; python_types takes a field whose type is an
                # alias of a nullable type for required, so an unset one raises (C09's subject): field-wise comparison only
                eq = True
            if a != b or not eq:
                diff = sorted(k for k in set(a) | set(b) if k not in a or k not in b or a[k] != b[k])
                fail('argument-fields', {'differing_fields': diff, 'expected': _srepr(want), 'real': _srepr(arg)})
    if v.upload:
        if body is not bound['f']:
            fail('upload-body', _srepr(body))
    elif body is not None:
        fail('body-not-none', _srepr(body))
    if bool(o['warnings']) != v.deprecated or len(o['warnings']) > 1:
        fail('deprecation-warning', {'route_deprecated': v.deprecated, 'warnings': [str(w.message) for w in o['warnings']]})
    if v.result_void:
        if o['out'] is not None:
            fail('return-not-none', _srepr(o['out']))
    elif o['out'] is not o['ret']:
        fail('return-value', _srepr(o['out']))
    return bad


_UNMODELLED_EXC = ('ValidationError',)      # the model is untyped: a validator refusing a misplaced value is not predicted


def canon_real(ses, v, res):
    """the real outcome in the model's vocabulary (leaves are the Python objects themselves)"""
    if res[0] == 'raises':
        return ['err', 'typeError' if res[1] == 'TypeError' else 'nameError' if res[1] == 'NameError' else
                'shadowed' if res[1] in ('AttributeError', 'UnboundLocalError') else res[1]]
    o = res[1]
    reqs = []
    for route, namespace, arg, body in o['requests']:
        where = None
        for _nsn, mod in ses.built.mods.items():
            for k, vv in vars(mod).items():
                if vv is route:
                    where = [mod.__name__.rsplit('.', 1)[1], k]
        if arg is None:
            a = ['none']
        elif v.kind == 'struct' and type(arg).__module__.startswith(ses.pkg):
            a = ['struct', type(arg).__module__.rsplit('.', 1)[1], type(arg).__name__,
                 sorted(([k, x] for k, x in slots_of(ses, arg, v.arg_ir).items()), key=lambda p: p[0])]
        else:
            a = ['value', arg]
        reqs.append({'route': where, 'ns': namespace, 'arg': a, 'body': body})
    out = o['out']
    ret = 'none' if out is None else 'result' if out is o['ret'] else 'resultFst' if out is o['ret'][0] else 'other'
    saved = None
    if o['saved']:
        saved = o['saved'][0][0] if o['saved'][0][1] is o['ret'][1] else 'other'
    return ['ok', {'requests': reqs, 'warned': bool(o['warnings']), 'ret': ret, 'saved': saved}]


def canon_model(ses, rep, toks):
    if 'err' in rep:
        return ['err', rep['err'][0]]
    o = rep['ok']

    def val(j):
        if j[0] == 'tok':
            return toks[j[1]]
        return model_dflt_value(ses, j)
    reqs = []
    for r in o['requests']:
        a = r['arg']
        if a[0] == 'struct':
            a = ['struct', a[1], a[2], sorted(([k, val(x)] for k, x in a[3]), key=lambda p: p[0])]
        elif a[0] == 'value':
            a = ['value', val(a[1])]
        reqs.append({'route': r['route'], 'ns': r['ns'], 'arg': a, 'body': None if r['body'] is None else val(r['body'])})
    return ['ok', {'requests': reqs, 'warned': o['warned'], 'ret': o['ret'], 'saved': None if o['saved'] is None else val(o['saved'])}]


def _eq_canon(a, b):
    if isinstance(a, (list, tuple)) and isinstance(b, (list, tuple)):
        return len(a) == len(b) and all(_eq_canon(x, y) for x, y in zip(a, b))
    if isinstance(a, dict) and isinstance(b, dict):
        return sorted(a) == sorted(b) and all(_eq_canon(a[k], b[k]) for k in a)
    if a is None or b is None:
        return a is b
    if type(a) in (int, float) and type(b) in (int, float):
        return a == b                 # a float field stores float(int argument): the validators' normalisation (C08)
    return type(a) is type(b) and a == b


def tokenise(ses, call, pos, kw):
    """model call: every argument object is a token; None stays None"""
    toks = []

    def tok(x):
        if x is None:
            return ['none']
        toks.append(x)
        return ['tok', len(toks) - 1]
    mpos = [tok(x) for x in pos]
    mkw = [[n, tok(kw[n])] for n, _tv in call['kw']]
    return toks, mpos, mkw


def suite_calls(ck, sessions, n_calls):
    rng = ck.rng
    for ses in sessions:
        if ses.status != 'ok':
            continue
        ops, meta = [], []
        for v in ses.views:
            if v.kind == 'other':
                continue
            meth = getattr(ses.cls, v.method, None)
            if meth is None or signature_problem(ses, v, meth):
                ck.stat('calls.skipped_signature_already_reported')
                continue
            if len([x for x in ses.views if x.method == v.method]) > 1:
                ck.stat('calls.skipped_name_clash_already_reported')
                continue
            ck.hist('route.arg', v.kind + ('/alias' if v.arg_via_alias else ''))
            ck.hist('route.version', v.version if v.version <= 3 else '>3')
            ck.hist('route.style', v.style if v.style in ('upload', 'download') else 'other')
            ck.hist('route.deprecated', 'no' if not v.deprecated else 'by-successor' if v.successor else 'plain')
            ck.hist('route.result_void', v.result_void)
            ck.hist('route.name_shape', name_shape(v.name.replace('/', '_')))
            if v.kind == 'struct':
                ck.hist('struct.inherited', v.inherited)
                for f in v.fields:
                    ck.hist('field.name_shape', name_shape(f.name))
                    kind = 'nullable' if f.nullable else 'required'
                    if f.has_default and not f.nullable:
                        d = f.default
                        kind = 'default/' + ('tag' + ('/foreign' if ref_of(unalias(d.union_data_type)).split('.')[0] != v.ns else '')
                                             if type(d).__name__ == 'TagRef' else type(d).__name__)
                    ck.hist('field.kind', kind + ('/alias' if f.via_alias else ''))
            variants = [(v.method, False)]
            if v.download:
                variants.append((ref_method_name(v.ns, v.name, v.version, '_to_file'), True))
            for mname, to_file in variants:
                if to_file and not hasattr(ses.cls, mname):
                    continue
                for i in range(n_calls):
                    call = draw_call(ses, v, rng, to_file)
                    if call is None:
                        ck.stat('calls.no_valid_value_drawn')
                        break
                    if i % 4 == 3:
                        b = draw_bad_call(ses, v, rng, call) if not to_file else None
                        if b is not None:
                            call = b
                    res = run_real_call(ses, mname, call)
                    if res[0] == 'value-build-fails':
                        ck.stat('calls.value_refused_by_classes')
                        continue
                    key = ('call', ses.label, mname, json.dumps(call, sort_keys=True, default=repr))
                    ck.case(key, nontrivial=bool(call['pos'] or call['kw']))
                    ck.hist('call.shape', 'pos%d/kw%d' % (min(len(call['pos']), 3), min(len(call['kw']), 3)))
                    if 'bad' in call:
                        ck.hist('call.bad', call['bad'])
                    elif not to_file:
                        for what, sig, detail in judge_call(ses, v, call, res):
                            ck.failing_input(what, sig, ses.case(suite='calls', route=v.label(), method=mname, call=call,
                                                                 ts=_ts_dump(ses), detail=detail))
                    pos, kw = (res[3], res[4]) if res[0] == 'raises' else (res[2], res[3])
                    toks, mpos, mkw = tokenise(ses, call, pos, kw)
                    ops.append({'method': mname, 'pos': mpos, 'kw': mkw})
                    meta.append((v, mname, call, res, toks))
        if not ops:
            continue
        rep = ck.driver([{'op': 'decl.pyclient.calls', 'api': ses.model_api, 'calls': ops}])[0]
        if 'out' not in rep:
            ck.disagree('decl.pyclient.call', {'specs': ses.specs}, 'module generated', rep)
            continue
        for (v, mname, call, res, toks), r in zip(meta, rep['out']):
            real = canon_real(ses, v, res)
            model = canon_model(ses, r, toks)
            if real[0] == 'err' and real[1] in _UNMODELLED_EXC:
                ck.stat('calls.real_validation_error_not_compared')
            elif _eq_canon(real, model):
                ck.agree('decl.pyclient.call')
            else:
                ck.disagree('decl.pyclient.call', {'specs': ses.specs, 'method': mname, 'call': call}, _srepr(real), _srepr(model))
        ck.sample({'spec': ses.label, 'methods': len({m[1] for m in meta}), 'calls': len(meta)})


def _ts_dump(ses):
    return [[d.isoformat(), d.tzinfo is not None] for d in ses.ts.by_id]


# ======================================================================================================
# spec sources
# ======================================================================================================
def hand_seed_sets():
    d = os.path.join(core.VERIF, 'harness', 'specs')
    sets = {}
    for path in sorted(glob.glob(os.path.join(d, 'c14_*.stone'))):
        base = os.path.basename(path)
        key = base.split('_')[1]
        sets.setdefault(key, []).append((base, open(path, encoding='utf-8').read()))
    return sets


def _canon(name):
    return name.replace('_', '').replace('/', '').lower()


def add_same_named(model, rng):
    """Same-named definitions in several namespaces, regularly: for the argument struct / union / alias of a route of one
    namespace, another namespace gets a definition of the SAME NAME (struct with the same field names but other types,
    defaults and order, or a union, or an alias) and a route `same_name_probe*` that takes it. Whatever the backend derives
    from a type must then be keyed by namespace and name. Adds definitions only (nothing is renamed: all references stay
    valid); skipped when the name is taken in the target namespace."""
    from harness import specgen as sg
    nss = [n for n in model.namespaces if n.name != 'stone_cfg']
    routes_all = [d for n in nss for d in n.defs if getattr(d, 'kind', None) == 'route']
    if len(nss) < 2 or not routes_all:
        return 0
    added = 0
    for _ in range(rng.choice((1, 2, 2, 3))):
        a, b = rng.sample(nss, 2)
        cands = []
        for d in a.defs:
            if getattr(d, 'kind', None) == 'route' and d.arg is not None and d.arg.ns in (None, a.name) and not d.arg.nullable:
                t = sg.find_def(model, a.name, d.arg.name)
                if t is not None and t.kind in ('struct', 'union', 'alias'):
                    cands.append(t)
        if not cands:
            cands = [d for d in a.defs if getattr(d, 'kind', None) in ('struct', 'union')]
        if not cands:
            continue
        src = rng.choice(cands)
        taken = {_canon(x.name) for x in b.defs if hasattr(x, 'name')} | {_canon(b.name)}
        probe = 'same_name_probe' + rng.choice(('', '_b', '_two'))
        if _canon(src.name) in taken or _canon(probe) in taken:
            continue
        names = []
        if src.kind == 'struct':
            names = [fl.name for _n, _d, fl in sg.all_fields_decl(model, a.name, src)]
        names = [n for n in names if rng.random() < 0.8]
        rng.shuffle(names)
        names.append('only_in_' + _canon(b.name))
        kind = rng.choice(('struct', 'struct', 'struct', 'union', 'alias'))
        own_types = [d for d in b.defs if getattr(d, 'kind', None) in ('struct', 'union')]
        if kind == 'alias' and not own_types:
            kind = 'struct'
        if kind == 'struct':
            fields = []
            for n in dict.fromkeys(names):
                how = rng.choice(('req', 'int', 'bool', 'str', 'null'))
                if how == 'req':
                    fl = sg.Field(n, sg.TypeRef(rng.choice(('String', 'Int64', 'Boolean'))))
                elif how == 'int':
                    fl = sg.Field(n, sg.TypeRef('Int32'), default=rng.choice((0, 1, -5, 77, 2147483647)))
                elif how == 'bool':
                    fl = sg.Field(n, sg.TypeRef('Boolean'), default=rng.random() < 0.5)
                elif how == 'str':
                    fl = sg.Field(n, sg.TypeRef('String'), default=rng.choice(('', 'x', 'same_name')))
                else:
                    fl = sg.Field(n, sg.TypeRef(rng.choice(('String', 'UInt64')), nullable=True))
                fields.append(fl)
            new = sg.Struct(src.name, fields=fields)
        elif kind == 'union':
            new = sg.Union(src.name, closed=rng.random() < 0.5,
                           tags=[sg.Field('only_in_' + _canon(b.name)), sg.Field('by_text', sg.TypeRef('String'))])
        else:
            new = sg.Alias(src.name, sg.TypeRef(rng.choice(own_types).name))
        model_route = rng.choice([d for d in b.defs if getattr(d, 'kind', None) == 'route'] or routes_all)
        route = sg.Route(probe, rng.choice((1, 1, 2)), sg.TypeRef(src.name), sg.TypeRef('Void'), sg.TypeRef('Void'),
                         attrs={k: v for k, v in model_route.attrs.items() if not isinstance(v, sg.TagRef)})
        for d in (new, route):
            b.defs.append(d)
            if b.files:
                rng.choice(b.files).append(len(b.defs) - 1)
        added += 1
    return added


def adapt_model(model, rng):
    """Steer a generated model into the quantifier of C14: every route argument a struct, a union, an alias of one or
    Void (python_client refuses anything else for the whole spec), and a `style` attribute the backend looks at."""
    from harness import specgen as sg
    visible = {}
    for ns in model.namespaces:
        pool = []
        for src in [ns.name] + list(ns.imports):
            n = sg.find_ns(model, src)
            if n is None or src == 'stone_cfg':
                continue
            for d in n.defs:
                if getattr(d, 'kind', None) in ('struct', 'union', 'alias'):
                    pool.append((src, d))
        visible[ns.name] = pool

    def resolves_to(nsn, t, depth=0):
        """'struct' | 'union' | 'void' | 'other' for a TypeRef seen from namespace nsn"""
        if t is None or t.nullable or depth > 20:
            return 'other'
        if t.name == 'Void' and t.ns is None:
            return 'void'
        d = sg.find_def(model, t.ns or nsn, t.name)
        if d is None:
            return 'other'
        if d.kind == 'alias':
            return resolves_to(t.ns or nsn, d.type, depth + 1)
        return d.kind if d.kind in ('struct', 'union') else 'other'

    model.same_named_added = add_same_named(model, rng)
    # (visibility pools are computed below, after the additions)
    cfg = sg.find_ns(model, 'stone_cfg')
    if cfg is None:
        cfg = sg.Namespace('stone_cfg', defs=[sg.Struct('Route')])
        model.namespaces.append(cfg)
    route_schema = [d for d in cfg.defs if d.kind == 'struct' and d.name == 'Route']
    if not route_schema:
        cfg.defs.append(sg.Struct('Route'))
        cfg.files = []
        route_schema = [cfg.defs[-1]]
    schema = route_schema[0]
    def _base(nsn, t):
        """the built-in type name a TypeRef resolves to through aliases, or None for a user-defined type"""
        for _ in range(30):
            d = sg.find_def(model, t.ns or nsn, t.name)
            if d is None:
                return t.name
            if d.kind != 'alias':
                return None
            nsn, t = t.ns or nsn, d.type
        return None
    # STEER: python_types prints a union-tag route attribute as `<ns>.<Union>.<tag>` without importing <ns> into the
    # module of the route (NameError on import: python_types' subject, C09): primitive attributes only
    dropped = {f.name for f in schema.fields if _base('stone_cfg', f.type) is None}
    schema.fields = [f for f in schema.fields if f.name != 'style' and f.name not in dropped] + \
        [sg.Field('style', sg.TypeRef('String'), default='rpc')]
    # (string defaults with blanks are no longer steered away from: python_client prints them with repr since the repair of
    # c14-string-default-with-blank; seed c14_blankdefault_* is the regression case)
    for ns in model.namespaces:
        for d in ns.defs:
            if getattr(d, 'kind', None) != 'route':
                continue
            kind = resolves_to(ns.name, d.arg)
            r = rng.random()
            if d.name.startswith('same_name_probe') and kind != 'other':
                r = 1.0                    # keep the same-named argument
            if kind == 'other' or r < 0.35:
                want = 'union' if r < 0.2 else 'struct' if r < 0.3 else None
                pool = [(src, x) for src, x in visible[ns.name]
                        if resolves_to(src, sg.TypeRef(x.name)) in (('struct', 'union') if want is None else (want,))]
                if pool and rng.random() < 0.85:
                    src, x = rng.choice(pool)
                    d.arg = sg.TypeRef(x.name, None if src == ns.name else src)
                else:
                    d.arg = sg.TypeRef('Void')
            if resolves_to(ns.name, d.error) == 'other':
                # STEER: python_client's docstring generation crashes on an error type without `.fields`
                d.error = sg.TypeRef('Void')
            d.attrs.pop('style', None)
            for k in dropped:
                d.attrs.pop(k, None)
            s = rng.choice(['upload', 'download', 'upload', 'download', 'rpc', None, None])
            if s is not None:
                d.attrs['style'] = s
    return model

# ------------------------------------------------------------------------------------------------------
# names of every shape the spec language allows
# ------------------------------------------------------------------------------------------------------
_STONE_WORDS = set('''namespace import alias struct union union_closed route extends attrs example deprecated by
    patch annotation annotation_type null true false Void Bytes Boolean Float32 Float64 Int32 Int64 UInt32 UInt64 String
    Timestamp List Map Nullable upload download rpc self f arg r download_path warnings other'''.split())


def name_variants(w):
    """other spellings of an identifier written as lower_snake_case words: camelCase, PascalCase, UPPER, capitalised
    first word, digits at the end, trailing / doubled underscore, acronym runs"""
    parts = [p for p in w.split('_') if p] or [w]
    camel = parts[0] + ''.join(p[:1].upper() + p[1:] for p in parts[1:])
    pascal = ''.join(p[:1].upper() + p[1:] for p in parts)
    out = [camel, pascal, w.upper(), parts[0][:1].upper() + parts[0][1:] + ''.join('_' + p for p in parts[1:]),
           w + '2', camel + '3', pascal + 'V2', w + '_', '__'.join(parts) if len(parts) > 1 else w + '__x',
           'URL' + pascal, camel + 'ID', camel + 'X', parts[0] + ''.join(p.upper() for p in parts[1:]) + 'Of',
           'x' + pascal, pascal[:1].lower() + pascal[1:] + 'A1b']
    return [n for n in dict.fromkeys(out) if n != w]


def name_shape(n):
    if n == ref_underscores(n):
        return 'lower_snake' + ('+digit' if any(c.isdigit() for c in n) else '')
    if '_' in n.strip('_') and any(_up(c) for c in n):
        return 'Mixed_or_UPPER_with_underscore'
    if n.isupper():
        return 'UPPER'
    return ('Pascal' if _up(n[0]) else 'camel') + ('+digit' if any(c.isdigit() for c in n) else '')


def respell_names(model, specs, rng):
    """Consistently re-spell field names and route names of a generated spec family (whole-word replacement in the
    rendered texts: declarations, examples, doc references and `deprecated by` follow). Only words that name nothing
    but struct fields / routes are touched; a new spelling is taken only when neither it nor its lower_snake_case form
    meets another identifier of the texts (python_types derives attribute names from the words). -> (specs, count)"""
    import re
    fields, routes, other = set(), set(), set(_STONE_WORDS)
    for ns in model.namespaces:
        other.add(ns.name)
        for d in ns.defs:
            k = getattr(d, 'kind', None)
            if k == 'route':
                (routes if ns.name != 'stone_cfg' else other).add(d.name)
                other.update(d.attrs)
                continue
            if hasattr(d, 'name') and k not in ('struct_patch', 'union_patch'):
                other.add(d.name)
            if k in ('struct', 'struct_patch') and ns.name != 'stone_cfg':
                fields.update(fl.name for fl in d.fields)
            else:
                other.update(fl.name for fl in getattr(d, 'fields', []) or [])
            other.update(fl.name for fl in getattr(d, 'tags', []) or [])
            other.update(fl.name for fl in getattr(d, 'params', []) or [])
            if getattr(d, 'subtypes', None):
                other.update(t for t, _ in d.subtypes[0])
    word = re.compile(r'[A-Za-z_][A-Za-z0-9_]*')
    words = set()
    for _p, text in specs:
        words.update(word.findall(text))
    taken = {ref_underscores(w) for w in words} | {w.lower() for w in words}
    mapping = {}
    for w in sorted((fields | routes) - other):
        if '/' in w or '-' in w or keyword.iskeyword(w) or rng.random() < 0.4:
            continue
        for cand in rng.sample(name_variants(w), 3):
            low = ref_underscores(cand)
            if cand in words or keyword.iskeyword(cand) or keyword.iskeyword(low) or cand in _STONE_WORDS:
                continue
            if low != ref_underscores(w) and (low in taken or cand.lower() in taken):
                continue
            mapping[w] = cand
            words.add(cand)
            taken.update((low, cand.lower()))
            break
    if not mapping:
        return specs, 0
    out = [(p, word.sub(lambda m: mapping.get(m.group(0), m.group(0)), text)) for p, text in specs]
    return out, len(mapping)


def spec_sources(ck, n_generated):
    """[(label, specs)]: hand seeds first (the 'main' set holds, the others are known-breakage seeds), then generated"""
    out = [('seed:' + k, v) for k, v in hand_seed_sets().items()]
    from harness import specgen as sg
    for i in range(n_generated):
        model = sg.gen_model(ck.rng, 'routes')
        try:
            model = adapt_model(model, ck.rng)
            specs = sg.render(model, None)
            if i % 5 < 3:
                # three families in five: field and route names in other spellings than lower_snake_case
                specs, n = respell_names(model, specs, ck.rng)
                ck.hist('spec.respelled_names', min(n, 40) // 10 * 10)
        except Exception as e:  # noqa: BLE001 - a harness limitation, never a verdict
            ck.stat('specgen.adapt_failed')
            ck.note('adapt_model failed: %s' % _short(e))
            continue
        out.append(('gen:%d' % i, specs))
    return out


def open_sessions(ck, sources):
    out = []
    for label, specs in sources:
        ses = Session(ck, specs, label)
        if ses.status == 'compile-fails':
            ck.stat('spec.compile_fails')
            if label.startswith('seed:'):
                raise RuntimeError('hand seed %s does not compile: %s' % (label, ses.error))
            ck.note('generated spec refused by the compiler: %s' % ses.error)
        out.append(ses)
    return out


# ======================================================================================================
# replay
# ======================================================================================================
def replay(ck, path):
    rec = json.load(open(path))
    case = rec.get('case', rec)
    ses = Session(ck, [tuple(x) for x in case['specs']], case.get('label', 'replay'))
    print('session status:', ses.status, ses.error or '')
    found = []
    for what, sig, detail in judge_module(ses):
        found.append((what, sig, detail))
    if case.get('suite') == 'calls' and ses.status == 'ok':
        import datetime
        for iso, _aware in case.get('ts', []):
            ses.ts.id_of(datetime.datetime.fromisoformat(iso))
        v = [x for x in ses.views if x.label() == case['route']][0]
        res = run_real_call(ses, case['method'], case['call'])
        found.extend(judge_call(ses, v, case['call'], res))
    for what, sig, detail in found:
        print('FAILS: %s\n  signature: %s\n  detail: %s' % (what, json.dumps(sig, sort_keys=True), json.dumps(detail, default=repr)[:1500]))
    want = rec.get('signature')
    hit = any(sig == want for _w, sig, _d in found) if want else bool(found)
    print('replay: %s' % ('reproduced' if hit else 'NOT reproduced'))
    return 1 if hit else 0
