"""C03 direct oracle: arbitrary text ends in an API description or a spec error.

Inputs: (a) valid generated specs after 1-3 token-level edits, (b) every string over a token alphabet
up to a length after a namespace header plus random longer ones, (c) the code blocks of
docs/lang_ref.rst.  Everything goes through `specs_to_ir` itself (fresh ParserFactory per call).
A sample goes through `stone.cli.main` to check `path:line: error: message` and exit status 1.
"""
import concurrent.futures
import io
import itertools
import json
import os
import re
import signal
import sys
import traceback

from harness import core

TOKEN_RE = re.compile(r'"(?:\\.|[^"\\\n])*"|[A-Za-z_][A-Za-z0-9_-]*|-?\d+(?:\.\d*)?(?:e-?\d+)?|\n[ ]*|[ ]+|[^\sA-Za-z0-9_]')

ALPHABET = ['struct', 'union', 'route', 'alias', 'import', 'S', 'Int32', '(', ')', '=', '\n', '\n    ', '"d"', '1']
EXTRA_TOKENS = ['namespace', 'union_closed', 'extends', 'example', 'annotation', 'annotation_type', 'patch', 'attrs', 'deprecated',
                'by', 'doc', 'error', 'null', 'true', 'false', '?', ',', '.', ':', '@', '*', '{', '}', '[', ']', '-', '1.5', '-3',
                'String', 'List', 'Map', 'Void', 'Foo-Bar', '\n        ', '\n  ', '\t', '#c', '"unterminated', '\\', 'é', '$', 'f', 'x']


def _where(tb):
    """innermost frame inside the stone package: (module, function)"""
    frames = traceback.extract_tb(tb)
    for fr in reversed(frames):
        fn = fr.filename.replace('\\', '/')
        if '/stone/' in fn and '/_vendor/' not in fn:
            return '%s.%s' % (os.path.basename(fn)[:-3], fr.name)
    for fr in reversed(frames):
        if '/stone/' in fr.filename:
            return '%s.%s' % (os.path.basename(fr.filename)[:-3], fr.name)
    return '?'


# replacement literals of the `kind` mutation: every kind, and sizes at which int(), float(), re or len() behave differently
KIND_LITERALS = ['"s"', '1', '-1', '1.5', 'true', 'null', 'tag', '[1]', '{"a": 1}', '2e400', '99999999999999999999',
                 '1' + '0' * 308, '1' + '0' * 309, '-1' + '0' * 400, '1' + '0' * 1000, '1' + '0' * 4299, '1' + '0' * 4400,
                 '1e308', '1e309', '-1e999', '1e-999', '1e99999999999', '1' + '0' * 400 + '.5', '"%s"' % ('a' * 5000),
                 '"%s"' % ('9' * 5000), '"a{99999999999999}"', '"%s"' % ('(' * 200)]


class _Timeout(BaseException):       # not an Exception: no `except Exception` of the code under test may swallow it
    def __init__(self, where, clock):
        BaseException.__init__(self, where)
        self.where = where
        self.clock = clock


def _stuck_at(frame):
    """innermost frame inside the stone package at the moment the limit expired: `module.Class.function`"""
    while frame is not None:
        fn = frame.f_code.co_filename.replace('\\', '/')
        if '/stone/' in fn and '/_vendor/' not in fn:
            return '%s.%s' % (os.path.basename(fn)[:-3], getattr(frame.f_code, 'co_qualname', frame.f_code.co_name))
        frame = frame.f_back
    return 'no-termination'


def _expired_cpu(_sig, frm):
    raise _Timeout(_stuck_at(frm), 'cpu')


def _expired_wall(_sig, frm):
    raise _Timeout(_stuck_at(frm), 'wall')


WALL_FACTOR = 10


def classify(specs, limit_s=20):
    """Run the real frontend. Returns a small JSON-able verdict.

    `limit_s` bounds the processor time of this process (ITIMER_PROF), which does not depend on how many other jobs
    share the machine; a wall-clock alarm `WALL_FACTOR` times as long is the backstop for a compile that sleeps.
    A `Timeout` verdict names the innermost stone frame that was executing when the limit expired and which clock
    expired; callers confirm it by `confirm_timeout` (alone, longer limit) before it is reported."""
    from stone.frontend.frontend import specs_to_ir
    from stone.frontend.exception import InvalidSpec
    paths = {p for p, _ in specs}
    old_prof = signal.signal(signal.SIGPROF, _expired_cpu)
    old_alrm = signal.signal(signal.SIGALRM, _expired_wall)
    signal.setitimer(signal.ITIMER_PROF, limit_s)
    signal.alarm(int(limit_s * WALL_FACTOR))
    try:
        try:
            specs_to_ir([tuple(s) for s in specs])
            return {'k': 'ok'}
        finally:
            signal.setitimer(signal.ITIMER_PROF, 0)
            signal.alarm(0)
    except InvalidSpec as e:
        msg, lineno, path = e.msg, e.lineno, e.path
        bad = []
        if not isinstance(msg, str) or not msg.strip():
            bad.append('empty-message')
        if lineno is not None and not isinstance(lineno, int):
            bad.append('lineno-type')
        if path is not None and path not in paths:
            bad.append('foreign-path')
        return {'k': 'spec', 'bad': bad}
    except _Timeout as e:
        return {'k': 'crash', 'exc': 'Timeout', 'where': e.where, 'clock': e.clock, 'limit_s': limit_s}
    except RecursionError as e:
        return {'k': 'crash', 'exc': 'RecursionError', 'where': _where(e.__traceback__)}
    except Exception as e:  # noqa: BLE001 - the class of what escapes is the verdict
        return {'k': 'crash', 'exc': type(e).__name__, 'where': _where(e.__traceback__)}
    finally:
        signal.setitimer(signal.ITIMER_PROF, 0)
        signal.alarm(0)
        signal.signal(signal.SIGPROF, old_prof)
        signal.signal(signal.SIGALRM, old_alrm)


def confirm_timeout(specs, verdict, factor=3):
    """A `Timeout` counts only when it repeats with the case run alone (call this from the parent process, after
    the worker pool is gone) under a limit `factor` times as long; otherwise the verdict of that run is returned."""
    if verdict.get('exc') != 'Timeout':
        return verdict
    again = classify([tuple(s) for s in specs], limit_s=verdict.get('limit_s', 20) * factor)
    if again.get('exc') == 'Timeout':
        again['confirmed'] = True
    return again


def _classify_many(batch):
    core.ensure_repo_on_path()
    return [classify(s, limit_s) if limit_s else classify(s) for s, limit_s in batch]


def run_parallel(cases, workers=None, chunk=40, limits=None):
    """cases: list of specs (each a list of (path, text)). Returns verdicts in order; a timeout seen in a worker is
    re-examined alone afterwards (`confirm_timeout`). `limits`: optional per-case processor-time limits."""
    workers = workers or min(16, os.cpu_count() or 4)
    limits = limits or [None] * len(cases)
    pairs = list(zip(cases, limits))
    chunks = [pairs[i:i + chunk] for i in range(0, len(pairs), chunk)]
    out = []
    with concurrent.futures.ProcessPoolExecutor(max_workers=workers) as ex:
        for res in ex.map(_classify_many, chunks):
            out.extend(res)
    for i, v in enumerate(out):
        if v.get('exc') == 'Timeout':
            out[i] = confirm_timeout(cases[i], v)
    return out


# ------------------------------------------------------------------------------------------------
# generators
# ------------------------------------------------------------------------------------------------
def mutate_text(rng, text, other_text=None):
    toks = TOKEN_RE.findall(text)
    if not toks:
        return text + '$'
    n_edits = rng.randint(1, 3)
    for _ in range(n_edits):
        if not toks:
            break
        i = rng.randrange(len(toks))
        op = rng.choice(['delete', 'dup', 'swap', 'replace', 'kind', 'indent', 'truncate', 'splice', 'stray', 'replace'])
        if op == 'delete':
            del toks[i]
        elif op == 'dup':
            toks.insert(i, toks[i])
        elif op == 'swap' and i + 1 < len(toks):
            toks[i], toks[i + 1] = toks[i + 1], toks[i]
        elif op == 'replace':
            toks[i] = rng.choice(ALPHABET + EXTRA_TOKENS)
        elif op == 'kind':
            lits = [j for j, t in enumerate(toks) if re.match(r'^(-?\d|"|true$|false$|null$)', t)]
            if lits:
                j = rng.choice(lits)
                toks[j] = rng.choice(KIND_LITERALS)
        elif op == 'indent':
            nls = [j for j, t in enumerate(toks) if t.startswith('\n')]
            if nls:
                j = rng.choice(nls)
                toks[j] = '\n' + ' ' * max(0, len(toks[j]) - 1 + rng.choice([-4, -2, -1, 1, 2, 4, 8]))
        elif op == 'truncate':
            toks = toks[:i]
        elif op == 'splice' and other_text:
            o = TOKEN_RE.findall(other_text)
            j = rng.randrange(len(o)) if o else 0
            toks = toks[:i] + o[j:j + rng.randint(1, 30)] + toks[i:]
        elif op == 'stray':
            toks.insert(i, rng.choice(['$', '\t', '\\', '"', "'", ';', '\x00', '\r', ' ', '((', '))', '@@']))
    return ''.join(toks)


def short_texts(max_len):
    for n in range(1, max_len + 1):
        for combo in itertools.product(ALPHABET, repeat=n):
            yield 'namespace ns\n\n' + ' '.join(combo) + '\n'


def lang_ref_snippets():
    path = os.path.join(core.REPO, 'docs', 'lang_ref.rst')
    out = []
    try:
        lines = open(path, encoding='utf-8').read().split('\n')
    except OSError:
        return out
    i = 0
    while i < len(lines):
        if lines[i].rstrip().endswith('::'):
            i += 1
            block = []
            while i < len(lines) and (not lines[i].strip() or lines[i].startswith('    ')):
                block.append(lines[i][4:] if lines[i].startswith('    ') else '')
                i += 1
            text = '\n'.join(block).strip('\n') + '\n'
            if text.strip():
                out.append(text)
        else:
            i += 1
    return out


# ------------------------------------------------------------------------------------------------
# shrinking
# ------------------------------------------------------------------------------------------------
def shrink(specs, verdict, budget=150):
    """Delete files, then lines, while the same (exc, where) still escapes."""
    def same(v):
        return v.get('k') == 'crash' and v.get('exc') == verdict['exc'] and v.get('where') == verdict['where']
    cur = [list(s) for s in specs]
    tries = 0
    i = 0
    while len(cur) > 1 and i < len(cur) and tries < budget:
        cand = cur[:i] + cur[i + 1:]
        tries += 1
        if same(classify(cand)):
            cur = cand
        else:
            i += 1
    for fi in range(len(cur)):
        lines = cur[fi][1].split('\n')
        step = max(1, len(lines) // 2)
        while step >= 1 and tries < budget:
            j = 0
            while j < len(lines) and tries < budget:
                cand_lines = lines[:j] + lines[j + step:]
                cand = [list(s) for s in cur]
                cand[fi][1] = '\n'.join(cand_lines)
                tries += 1
                if cand_lines and same(classify(cand)):
                    lines = cand_lines
                else:
                    j += step
            step //= 2
        cur[fi][1] = '\n'.join(lines)
    return cur


# ------------------------------------------------------------------------------------------------
# the suite
# ------------------------------------------------------------------------------------------------
def judge(ck, specs, verdict, origin, do_shrink=True):
    ck.hist('fe.fuzz.outcome', verdict['k'] if verdict['k'] != 'crash' else 'crash:' + verdict['exc'])
    if verdict['k'] == 'crash':
        # a timeout is not shrunk: every candidate would cost the full limit
        small = shrink(specs, verdict) if do_shrink and verdict['exc'] != 'Timeout' else specs
        ck.failing_input('C03: %s escapes the frontend (%s)' % (verdict['exc'], verdict['where']),
                         {'kind': 'escape', 'exc': verdict['exc'], 'where': verdict['where']},
                         {'specs': small, 'origin': origin, 'verdict': verdict})
    elif verdict['k'] == 'spec' and verdict['bad']:
        ck.failing_input('C03: spec error is malformed (%s)' % ','.join(verdict['bad']),
                         {'kind': 'malformed-error', 'bad': verdict['bad']},
                         {'specs': specs, 'origin': origin, 'verdict': verdict})


def suite_fuzz(ck, n_models, n_mut_per_model, short_len, n_random_short):
    from harness import specgen
    rng = ck.rng
    cases, origins, limits = [], [], {}
    # corpus first
    cdir = os.path.join(core.VERIF, 'corpus', 'C03')
    if os.path.isdir(cdir):
        for fn in sorted(os.listdir(cdir)):
            if fn.endswith('.json'):
                rec = json.load(open(os.path.join(cdir, fn)))
                rec = rec.get('case', rec)
                cases.append([tuple(s) for s in rec['specs']])
                origins.append('corpus:' + fn)
                limits[len(cases) - 1] = rec.get('limit_s')
    # (c) language reference snippets, as they are and after a namespace header
    for sn in lang_ref_snippets():
        for text in (sn, 'namespace docs\n\n' + sn):
            cases.append([('snippet.stone', text)])
            origins.append('lang_ref')
    # (a) mutated valid specs
    rendered = []
    for i in range(n_models):
        model = specgen.gen_model(rng, rng.choice(['small', 'default', 'fe', 'routes']))
        rendered.append(specgen.render(model, None))
    for files in rendered:
        for _ in range(n_mut_per_model):
            files2 = [list(f) for f in files]
            k = rng.randrange(len(files2))
            other = rng.choice(rng.choice(rendered))[1]
            files2[k][1] = mutate_text(rng, files2[k][1], other)
            cases.append([tuple(f) for f in files2])
            origins.append('mutated')
    # (b) short token strings: exhaustive up to short_len, random beyond
    for text in short_texts(short_len):
        cases.append([('s.stone', text)])
        origins.append('short')
    pool = ALPHABET + EXTRA_TOKENS
    for _ in range(n_random_short):
        n = rng.randint(short_len + 1, short_len + 4)
        cases.append([('s.stone', 'namespace ns\n\n' + ' '.join(rng.choice(pool) for _ in range(n)) + '\n')])
        origins.append('short-random')
    verdicts = run_parallel(cases, limits=[limits.get(i) for i in range(len(cases))])
    seen_sites = {}
    for specs, origin, v in zip(cases, origins, verdicts):
        ck.case((origin, tuple(t for _p, t in specs)), nontrivial=(origin != 'short' or v['k'] != 'spec'))
        ck.hist('fe.fuzz.origin', origin.split(':')[0])
        site = (v.get('exc'), v.get('where'))
        # shrink only the first hit of each crash site (shrinking costs ~100 compiles)
        first = site not in seen_sites
        if v['k'] == 'crash':
            seen_sites.setdefault(site, 0)
            seen_sites[site] += 1
        if v['k'] != 'crash' or first:
            judge(ck, [list(s) for s in specs], v, origin, do_shrink=True)
        if len(ck.samples) < 5 and origin == 'mutated' and v['k'] != 'ok':
            ck.sample({'origin': origin, 'verdict': v, 'text_head': specs[0][1][:200]})
    ck.stats['crash_sites'] = {('%s@%s' % k): n for k, n in seen_sites.items()}


def suite_cli(ck, n):
    """A sample through stone.cli.main in-process with a throw-away backend: a bad spec is answered
    with `path:line: error: message` on stderr and exit status 1."""
    from harness import specgen
    import contextlib
    import stone.cli
    rng = ck.rng
    d = core.scratch('stone-verif-cli-')
    be = os.path.join(d, 'nop.stoneg.py')
    with open(be, 'w') as fh:
        fh.write('from stone.backend import CodeBackend\n\n\nclass NopBackend(CodeBackend):\n    def generate(self, api):\n        pass\n')
    for i in range(n):
        model = specgen.gen_model(rng, 'small')
        files = specgen.render(model, None)
        k = rng.randrange(len(files))
        files = [list(f) for f in files]
        files[k][1] = mutate_text(rng, files[k][1])
        sd = os.path.join(d, 'case%d' % i)
        os.makedirs(sd, exist_ok=True)
        paths = []
        for p, t in files:
            fp = os.path.join(sd, os.path.basename(p))
            with open(fp, 'w', encoding='utf-8') as fh:
                fh.write(t)
            paths.append(fp)
        # the command line reads the files in text mode (universal newlines: a lone '\r' arrives as '\n'); the
        # in-process reference must see the same text
        as_read = []
        for fp in paths:
            with open(fp, encoding='utf-8') as fh:
                as_read.append(fh.read())
        direct = classify(list(zip(paths, as_read)))
        argv = ['stone', be, os.path.join(sd, 'out')] + paths
        err = io.StringIO()
        code = None
        old_argv = sys.argv
        try:
            sys.argv = argv
            with contextlib.redirect_stderr(err), contextlib.redirect_stdout(io.StringIO()):
                try:
                    stone.cli.main()
                    code = 0
                except SystemExit as e:
                    code = e.code if isinstance(e.code, int) else 1
                except Exception as e:  # noqa: BLE001
                    code = 'exc:' + type(e).__name__
        finally:
            sys.argv = old_argv
        ck.case(('cli', tuple(t for _p, t in files)), nontrivial=direct['k'] != 'ok')
        ck.hist('fe.cli.outcome', '%s/%s' % (direct['k'], code))
        text = err.getvalue()
        if direct['k'] == 'spec':
            ok = code == 1 and re.search(r'(^|\n)[^\n]*:\d+: error: \S', text) is not None or \
                (code == 1 and re.search(r'error: \S', text) is not None)
            if not ok:
                ck.failing_input('C03: the command line does not answer a bad spec with path:line: error: message and status 1',
                                 {'kind': 'cli', 'code': str(code)},
                                 {'specs': files, 'stderr': text[-600:], 'code': code})
        elif direct['k'] == 'ok' and code != 0:
            ck.failing_input('C03: the command line fails on a spec the frontend accepts', {'kind': 'cli-ok', 'code': str(code)},
                             {'specs': files, 'stderr': text[-600:], 'code': code})
