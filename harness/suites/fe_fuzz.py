"""C03 direct oracle: arbitrary text ends in an API description or a spec error.

Inputs: (a) valid generated specs after 1-3 token-level edits, (b) every string over a token alphabet
up to a length after a namespace header plus random longer ones, (c) the code blocks of
docs/lang_ref.rst, (d) one generated spec cut at every token, (e) specs nested beyond the recursion limit.
Everything goes through `specs_to_ir` itself (fresh ParserFactory per call).

The command line (`stone.cli.main`, in-process, throw-away backend) gets (1) a random sample of mutated specs and
(2) representatives of every *shape* of spec error the fuzzing has produced - line number present / absent, path
present / absent / which of several files, message with `%`, braces, non-ASCII or several lines - and of every
distinct message wording: the handler that prints an InvalidSpec has to cope with every value its three fields can
take, and the shapes that are rare in ordinary use (no line: the text ends where the grammar needs more; no path:
nesting beyond the recursion limit) are exactly the ones a sample of mutated specs does not reach.  Oracle: exit
status 1, nothing escapes, and stderr holds `path:line: error: message` with the path, line and message of the
InvalidSpec that `specs_to_ir` raises for the same files.
"""
import concurrent.futures
import io
import itertools
import json
import os
import re
import signal
import sys
import traceback

from harness import core

TOKEN_RE = re.compile(r'"(?:\\.|[^"\\\n])*"|[A-Za-z_][A-Za-z0-9_-]*|-?\d+(?:\.\d*)?(?:e-?\d+)?|\n[ ]*|[ ]+|[^\sA-Za-z0-9_]')

ALPHABET = ['struct', 'union', 'route', 'alias', 'import', 'S', 'Int32', '(', ')', '=', '\n', '\n    ', '"d"', '1']
EXTRA_TOKENS = ['namespace', 'union_closed', 'extends', 'example', 'annotation', 'annotation_type', 'patch', 'attrs', 'deprecated',
                'by', 'doc', 'error', 'null', 'true', 'false', '?', ',', '.', ':', '@', '*', '{', '}', '[', ']', '-', '1.5', '-3',
                'String', 'List', 'Map', 'Void', 'Foo-Bar', '\n        ', '\n  ', '\t', '#c', '"unterminated', '\\', 'é', '$', 'f', 'x']


def _where(tb):
    """innermost frame inside the stone package: (module, function)"""
    frames = traceback.extract_tb(tb)
    for fr in reversed(frames):
        fn = fr.filename.replace('\\', '/')
        if '/stone/' in fn and '/_vendor/' not in fn:
            return '%s.%s' % (os.path.basename(fn)[:-3], fr.name)
    for fr in reversed(frames):
        if '/stone/' in fr.filename:
            return '%s.%s' % (os.path.basename(fr.filename)[:-3], fr.name)
    return '?'


# replacement literals of the `kind` mutation: every kind, and sizes at which int(), float(), re or len() behave differently
KIND_LITERALS = ['"s"', '1', '-1', '1.5', 'true', 'null', 'tag', '[1]', '{"a": 1}', '2e400', '99999999999999999999',
                 '1' + '0' * 308, '1' + '0' * 309, '-1' + '0' * 400, '1' + '0' * 1000, '1' + '0' * 4299, '1' + '0' * 4400,
                 '1e308', '1e309', '-1e999', '1e-999', '1e99999999999', '1' + '0' * 400 + '.5', '"%s"' % ('a' * 5000),
                 '"%s"' % ('9' * 5000), '"a{99999999999999}"', '"%s"' % ('(' * 200)]


class _Timeout(BaseException):       # not an Exception: no `except Exception` of the code under test may swallow it
    def __init__(self, where, clock):
        BaseException.__init__(self, where, clock)     # args = the constructor's arguments: picklable across a process pool
        self.where = where
        self.clock = clock

    def __reduce__(self):
        return (_Timeout, (self.where, self.clock))


def _stuck_at(frame):
    """innermost frame inside the stone package at the moment the limit expired: `module.Class.function`"""
    while frame is not None:
        fn = frame.f_code.co_filename.replace('\\', '/')
        if '/stone/' in fn and '/_vendor/' not in fn:
            return '%s.%s' % (os.path.basename(fn)[:-3], getattr(frame.f_code, 'co_qualname', frame.f_code.co_name))
        frame = frame.f_back
    return 'no-termination'


def _expired_cpu(_sig, frm):
    raise _Timeout(_stuck_at(frm), 'cpu')


def _expired_wall(_sig, frm):
    raise _Timeout(_stuck_at(frm), 'wall')


WALL_FACTOR = 10


def classify(specs, limit_s=20):
    """Run the real frontend. Returns a small JSON-able verdict.

    `limit_s` bounds the processor time of this process (ITIMER_PROF), which does not depend on how many other jobs
    share the machine; a wall-clock alarm `WALL_FACTOR` times as long is the backstop for a compile that sleeps.
    A `Timeout` verdict names the innermost stone frame that was executing when the limit expired and which clock
    expired; callers confirm it by `confirm_timeout` (alone, longer limit) before it is reported."""
    from stone.frontend.frontend import specs_to_ir
    from stone.frontend.exception import InvalidSpec
    paths = {p for p, _ in specs}
    old_prof = signal.signal(signal.SIGPROF, _expired_cpu)
    old_alrm = signal.signal(signal.SIGALRM, _expired_wall)
    signal.setitimer(signal.ITIMER_PROF, limit_s)
    signal.alarm(int(limit_s * WALL_FACTOR))
    try:
        try:
            specs_to_ir([tuple(s) for s in specs])
            return {'k': 'ok'}
        finally:
            signal.setitimer(signal.ITIMER_PROF, 0)
            signal.alarm(0)
    except InvalidSpec as e:
        msg, lineno, path = e.msg, e.lineno, e.path
        bad = []
        if not isinstance(msg, str) or not msg.strip():
            bad.append('empty-message')
        if lineno is not None and not isinstance(lineno, int):
            bad.append('lineno-type')
        if path is not None and path not in paths:
            bad.append('foreign-path')
        return {'k': 'spec', 'bad': bad,
                'err': {'msg': msg if isinstance(msg, str) else repr(msg),
                        'line': lineno if isinstance(lineno, int) and not isinstance(lineno, bool) else
                        (None if lineno is None else repr(lineno)),
                        'path': path if path is None or isinstance(path, str) else repr(path)}}
    except _Timeout as e:
        return {'k': 'crash', 'exc': 'Timeout', 'where': e.where, 'clock': e.clock, 'limit_s': limit_s}
    except RecursionError as e:
        return {'k': 'crash', 'exc': 'RecursionError', 'where': _where(e.__traceback__)}
    except Exception as e:  # noqa: BLE001 - the class of what escapes is the verdict
        return {'k': 'crash', 'exc': type(e).__name__, 'where': _where(e.__traceback__)}
    finally:
        signal.setitimer(signal.ITIMER_PROF, 0)
        signal.alarm(0)
        signal.signal(signal.SIGPROF, old_prof)
        signal.signal(signal.SIGALRM, old_alrm)


def confirm_timeout(specs, verdict, factor=3):
    """A `Timeout` counts only when it repeats with the case run alone (call this from the parent process, after
    the worker pool is gone) under a limit `factor` times as long; otherwise the verdict of that run is returned."""
    if verdict.get('exc') != 'Timeout':
        return verdict
    again = classify([tuple(s) for s in specs], limit_s=verdict.get('limit_s', 20) * factor)
    if again.get('exc') == 'Timeout':
        again['confirmed'] = True
    return again


def _classify_safe(specs, limit_s=None):
    """classify; a time-limit exception that fires outside the region where classify catches it (in a handler, in the
    `finally`, between arming the timers and entering the `try`) becomes the same verdict instead of escaping: out of a
    pool worker it would take the whole pool down (BrokenProcessPool)"""
    try:
        return classify(specs, limit_s) if limit_s else classify(specs)
    except _Timeout as e:
        try:
            signal.setitimer(signal.ITIMER_PROF, 0)
            signal.alarm(0)
        except _Timeout:
            pass
        return {'k': 'crash', 'exc': 'Timeout', 'where': e.where, 'clock': e.clock, 'limit_s': limit_s or 20, 'stray': True}


def _classify_many(batch):
    core.ensure_repo_on_path()
    return [_classify_safe(s, limit_s) for s, limit_s in batch]


def run_parallel(cases, workers=None, chunk=40, limits=None):
    """cases: list of specs (each a list of (path, text)). Returns verdicts in order; a timeout seen in a worker is
    re-examined alone afterwards (`confirm_timeout`). `limits`: optional per-case processor-time limits."""
    workers = workers or min(16, os.cpu_count() or 4)
    limits = limits or [None] * len(cases)
    pairs = list(zip(cases, limits))
    chunks = [pairs[i:i + chunk] for i in range(0, len(pairs), chunk)]
    out = []
    with concurrent.futures.ProcessPoolExecutor(max_workers=workers) as ex:
        for res in ex.map(_classify_many, chunks):
            out.extend(res)
    for i, v in enumerate(out):
        if v.get('exc') == 'Timeout':
            out[i] = confirm_timeout(cases[i], v)
    return out


# ------------------------------------------------------------------------------------------------
# generators
# ------------------------------------------------------------------------------------------------
def mutate_text(rng, text, other_text=None):
    toks = TOKEN_RE.findall(text)
    if not toks:
        return text + '$'
    n_edits = rng.randint(1, 3)
    for _ in range(n_edits):
        if not toks:
            break
        i = rng.randrange(len(toks))
        op = rng.choice(['delete', 'dup', 'swap', 'replace', 'kind', 'indent', 'truncate', 'splice', 'stray', 'replace'])
        if op == 'delete':
            del toks[i]
        elif op == 'dup':
            toks.insert(i, toks[i])
        elif op == 'swap' and i + 1 < len(toks):
            toks[i], toks[i + 1] = toks[i + 1], toks[i]
        elif op == 'replace':
            toks[i] = rng.choice(ALPHABET + EXTRA_TOKENS)
        elif op == 'kind':
            lits = [j for j, t in enumerate(toks) if re.match(r'^(-?\d|"|true$|false$|null$)', t)]
            if lits:
                j = rng.choice(lits)
                toks[j] = rng.choice(KIND_LITERALS)
        elif op == 'indent':
            nls = [j for j, t in enumerate(toks) if t.startswith('\n')]
            if nls:
                j = rng.choice(nls)
                toks[j] = '\n' + ' ' * max(0, len(toks[j]) - 1 + rng.choice([-4, -2, -1, 1, 2, 4, 8]))
        elif op == 'truncate':
            toks = toks[:i]
        elif op == 'splice' and other_text:
            o = TOKEN_RE.findall(other_text)
            j = rng.randrange(len(o)) if o else 0
            toks = toks[:i] + o[j:j + rng.randint(1, 30)] + toks[i:]
        elif op == 'stray':
            toks.insert(i, rng.choice(['$', '\t', '\\', '"', "'", ';', '\x00', '\r', ' ', '((', '))', '@@']))
    return ''.join(toks)


def short_texts(max_len):
    for n in range(1, max_len + 1):
        for combo in itertools.product(ALPHABET, repeat=n):
            yield 'namespace ns\n\n' + ' '.join(combo) + '\n'


def lang_ref_snippets():
    path = os.path.join(core.REPO, 'docs', 'lang_ref.rst')
    out = []
    try:
        lines = open(path, encoding='utf-8').read().split('\n')
    except OSError:
        return out
    i = 0
    while i < len(lines):
        if lines[i].rstrip().endswith('::'):
            i += 1
            block = []
            while i < len(lines) and (not lines[i].strip() or lines[i].startswith('    ')):
                block.append(lines[i][4:] if lines[i].startswith('    ') else '')
                i += 1
            text = '\n'.join(block).strip('\n') + '\n'
            if text.strip():
                out.append(text)
        else:
            i += 1
    return out


def truncations(text):
    """(d) the text cut before every token, as it is and closed with a newline (a file that is still being written)"""
    toks = TOKEN_RE.findall(text)
    seen = set()
    for i in range(1, len(toks)):
        head = ''.join(toks[:i])
        for t in (head, head + '\n'):
            if t not in seen:
                seen.add(t)
                yield t


def nested_texts(depth):
    """(e) every construct the IR generator follows recursively, nested / chained `depth` times"""
    d = depth
    yield 'namespace deep\n\nalias A = ' + 'List(' * d + 'String' + ')' * d + '\n'
    yield 'namespace deep\n\nalias A = ' + 'Map(String, ' * d + 'String' + ')' * d + '\n'
    yield 'namespace deep\n\nstruct S\n    f ' + 'List(' * d + 'Int32' + ')' * d + '\n'
    yield 'namespace deep\n\n' + ''.join('alias A%d = A%d\n' % (i, i + 1) for i in range(d)) + 'alias A%d = String\n' % d
    yield 'namespace deep\n\n' + ''.join('alias A%d = List(A%d)\n' % (i, i + 1) for i in range(d)) + 'alias A%d = String\n' % d
    yield ('namespace deep\n\n' + ''.join('struct S%d extends S%d\n    f%d String\n\n' % (i, i + 1, i) for i in range(d)) +
           'struct S%d\n    g String\n' % d)
    yield ('namespace deep\n\n' + ''.join('struct S%d\n    f S%d\n    example default\n        f = default\n\n' % (i, i + 1)
                                          for i in range(d)) +
           'struct S%d\n    g String\n    example default\n        g = "x"\n' % d)


# ------------------------------------------------------------------------------------------------
# shapes of a spec error (what the code that prints one has to cope with)
# ------------------------------------------------------------------------------------------------
def error_shape(err, paths):
    """`err` = the fields of an InvalidSpec as `classify` returns them; `paths` = the input paths in order."""
    line, path, msg = err['line'], err['path'], err['msg']
    if path is None:
        where = 'none'
    elif len(paths) == 1:
        where = 'only'
    else:
        where = 'first' if path == paths[0] else 'later' if path in paths else 'foreign'
    feats = [f for f, on in (('pct', '%' in msg), ('brace', '{' in msg or '}' in msg), ('nonascii', not msg.isascii()),
                             ('lines', '\n' in msg or '\r' in msg), ('backslash', '\\' in msg)) if on]
    return 'line=%s path=%s msg=%s' % ('none' if line is None else 'int' if isinstance(line, int) else 'other',
                                       where, '+'.join(feats) or 'plain')


def message_wording(msg):
    """the message without what it quotes: one key per raise site, roughly"""
    return re.sub(r"'[^'\n]*'|\"[^\"\n]*\"|`[^`\n]*`|-?\d+(\.\d+)?", '_', msg)[:90]


def pick_representatives(cases, origins, verdicts, cap, per_shape=4):
    """Out of the fuzzed cases that ended in a spec error: `per_shape` of every shape (rare shapes first), then one
    of every (shape, wording) not yet taken, up to `cap`. Smallest inputs first within a key. Deterministic."""
    by_shape, by_word = {}, {}
    for i, v in enumerate(verdicts):
        if v.get('k') != 'spec' or 'err' not in v:
            continue
        size = sum(len(t) for _p, t in cases[i])
        if size > 40000:               # the command-line pass writes the files: keep it cheap
            continue
        sh = error_shape(v['err'], [p for p, _t in cases[i]])
        by_shape.setdefault(sh, []).append((size, i))
        by_word.setdefault((sh, message_wording(v['err']['msg'])), []).append((size, i))
    picked, taken = [], set()
    for sh in sorted(by_shape, key=lambda k: (len(by_shape[k]), k)):
        for _size, i in sorted(by_shape[sh])[:per_shape]:
            if i not in taken and len(picked) < cap:
                taken.add(i)
                picked.append(i)
    for key in sorted(by_word, key=lambda k: (len(by_word[k]), k)):
        if len(picked) >= cap:
            break
        _size, i = min(by_word[key])
        if i not in taken:
            taken.add(i)
            picked.append(i)
    return [{'specs': [list(s) for s in cases[i]], 'origin': origins[i],
             'shape': error_shape(verdicts[i]['err'], [p for p, _t in cases[i]])} for i in picked], \
        {sh: len(v) for sh, v in by_shape.items()}, len(by_word)


# ------------------------------------------------------------------------------------------------
# shrinking
# ------------------------------------------------------------------------------------------------
def shrink(specs, verdict, budget=150):
    """Delete files, then lines, while the same (exc, where) still escapes."""
    def same(v):
        return v.get('k') == 'crash' and v.get('exc') == verdict['exc'] and v.get('where') == verdict['where']
    cur = [list(s) for s in specs]
    tries = 0
    i = 0
    while len(cur) > 1 and i < len(cur) and tries < budget:
        cand = cur[:i] + cur[i + 1:]
        tries += 1
        if same(classify(cand)):
            cur = cand
        else:
            i += 1
    for fi in range(len(cur)):
        lines = cur[fi][1].split('\n')
        step = max(1, len(lines) // 2)
        while step >= 1 and tries < budget:
            j = 0
            while j < len(lines) and tries < budget:
                cand_lines = lines[:j] + lines[j + step:]
                cand = [list(s) for s in cur]
                cand[fi][1] = '\n'.join(cand_lines)
                tries += 1
                if cand_lines and same(classify(cand)):
                    lines = cand_lines
                else:
                    j += step
            step //= 2
        cur[fi][1] = '\n'.join(lines)
    return cur


# ------------------------------------------------------------------------------------------------
# the suite
# ------------------------------------------------------------------------------------------------
def judge(ck, specs, verdict, origin, do_shrink=True):
    ck.hist('fe.fuzz.outcome', verdict['k'] if verdict['k'] != 'crash' else 'crash:' + verdict['exc'])
    if verdict['k'] == 'crash':
        # a timeout is not shrunk: every candidate would cost the full limit
        small = shrink(specs, verdict) if do_shrink and verdict['exc'] != 'Timeout' else specs
        ck.failing_input('C03: %s escapes the frontend (%s)' % (verdict['exc'], verdict['where']),
                         {'kind': 'escape', 'exc': verdict['exc'], 'where': verdict['where']},
                         {'specs': small, 'origin': origin, 'verdict': verdict})
    elif verdict['k'] == 'spec' and verdict['bad']:
        ck.failing_input('C03: spec error is malformed (%s)' % ','.join(verdict['bad']),
                         {'kind': 'malformed-error', 'bad': verdict['bad']},
                         {'specs': specs, 'origin': origin, 'verdict': verdict})


def suite_fuzz(ck, n_models, n_mut_per_model, short_len, n_random_short, n_cut=None, cli_cap=None):
    """Returns the representatives of every shape / wording of spec error seen (for `suite_cli`)."""
    from harness import specgen
    rng = ck.rng
    n_cut = ck.scale(700, 8000) if n_cut is None else n_cut
    cli_cap = ck.scale(160, 1200) if cli_cap is None else cli_cap
    cases, origins, limits = [], [], {}
    # corpus first
    cdir = os.path.join(core.VERIF, 'corpus', 'C03')
    if os.path.isdir(cdir):
        for fn in sorted(os.listdir(cdir)):
            if fn.endswith('.json'):
                rec = json.load(open(os.path.join(cdir, fn)))
                rec = rec.get('case', rec)
                cases.append([tuple(s) for s in rec['specs']])
                origins.append('corpus:' + fn)
                limits[len(cases) - 1] = rec.get('limit_s')
    # (c) language reference snippets, as they are and after a namespace header
    for sn in lang_ref_snippets():
        for text in (sn, 'namespace docs\n\n' + sn):
            cases.append([('snippet.stone', text)])
            origins.append('lang_ref')
    # (e) nesting / chains beyond the recursion limit (and a depth the frontend copes with)
    for depth in (150, 3000):
        for text in nested_texts(depth):
            cases.append([('deep.stone', text)])
            origins.append('deep')
    # (a) mutated valid specs
    rendered = []
    for i in range(n_models):
        model = specgen.gen_model(rng, rng.choice(['small', 'default', 'fe', 'routes']))
        rendered.append(specgen.render(model, None))
    for files in rendered:
        for _ in range(n_mut_per_model):
            files2 = [list(f) for f in files]
            k = rng.randrange(len(files2))
            other = rng.choice(rng.choice(rendered))[1]
            files2[k][1] = mutate_text(rng, files2[k][1], other)
            cases.append([tuple(f) for f in files2])
            origins.append('mutated')
    # (d) a generated spec cut at every token: the last file of a set (the files before it stay whole), and a
    # file alone; at most n_cut cuts, spread evenly
    cuts = []
    for files in sorted(rendered, key=lambda fs: sum(len(t) for _p, t in fs))[:max(2, n_models // 10)]:
        files = [tuple(f) for f in files]
        k = rng.randrange(len(files))
        for t in truncations(files[k][1]):
            cuts.append([(files[k][0], t)] if rng.random() < 0.5 else files[:k] + files[k + 1:] + [(files[k][0], t)])
    if len(cuts) > n_cut:
        cuts = [cuts[(j * len(cuts)) // n_cut] for j in range(n_cut)]
    for c in cuts:
        cases.append(c)
        origins.append('cut')
    # (b) short token strings: exhaustive up to short_len, random beyond
    for text in short_texts(short_len):
        cases.append([('s.stone', text)])
        origins.append('short')
    pool = ALPHABET + EXTRA_TOKENS
    for _ in range(n_random_short):
        n = rng.randint(short_len + 1, short_len + 4)
        cases.append([('s.stone', 'namespace ns\n\n' + ' '.join(rng.choice(pool) for _ in range(n)) + '\n')])
        origins.append('short-random')
    verdicts = run_parallel(cases, limits=[limits.get(i) for i in range(len(cases))])
    seen_sites = {}
    for specs, origin, v in zip(cases, origins, verdicts):
        ck.case((origin, tuple(t for _p, t in specs)), nontrivial=(origin != 'short' or v['k'] != 'spec'))
        ck.hist('fe.fuzz.origin', origin.split(':')[0])
        site = (v.get('exc'), v.get('where'))
        # shrink only the first hit of each crash site (shrinking costs ~100 compiles)
        first = site not in seen_sites
        if v['k'] == 'crash':
            seen_sites.setdefault(site, 0)
            seen_sites[site] += 1
        if v['k'] != 'crash' or first:
            judge(ck, [list(s) for s in specs], v, origin, do_shrink=True)
        if len(ck.samples) < 5 and origin == 'mutated' and v['k'] != 'ok':
            ck.sample({'origin': origin, 'verdict': {k: v[k] for k in v if k != 'err'}, 'text_head': specs[0][1][:200]})
    ck.stats['crash_sites'] = {('%s@%s' % k): n for k, n in seen_sites.items()}
    picked, shapes, n_wordings = pick_representatives(cases, origins, verdicts, cli_cap)
    for sh, n in shapes.items():
        ck.hist('fe.fuzz.error_shape', sh, n)
    ck.stats['spec_error_shapes'] = len(shapes)
    ck.stats['spec_error_wordings'] = n_wordings
    return picked


# ------------------------------------------------------------------------------------------------
# the command line
# ------------------------------------------------------------------------------------------------
NOP_BACKEND = ('from stone.backend import CodeBackend\n\n\nclass NopBackend(CodeBackend):\n'
               '    def generate(self, api):\n        pass\n')


class _Cli:
    """stone.cli.main in-process on spec files written to one scratch directory (files are unlinked after each
    case, the directory is reused)."""

    def __init__(self):
        self.dir = core.scratch('stone-verif-cli-')
        self.backend = os.path.join(self.dir, 'nop.stoneg.py')
        with open(self.backend, 'w') as fh:
            fh.write(NOP_BACKEND)
        self.specdir = os.path.join(self.dir, 'specs')
        os.makedirs(self.specdir)

    def run(self, files, limit_s=20):
        """files: [(name, text)]. Returns (direct verdict of specs_to_ir on the files as the command line reads
        them, exit code | 'exc:<class>', stderr text, traceback text | None)."""
        import contextlib
        import stone.cli
        names, paths = set(), []
        for k, (p, t) in enumerate(files):
            nm = os.path.basename(p)
            if not nm.endswith('.stone') or nm in names or nm == '-':
                nm = 'f%d.stone' % k
            names.add(nm)
            fp = os.path.join(self.specdir, nm)
            with open(fp, 'w', encoding='utf-8', newline='') as fh:
                fh.write(t)
            paths.append(fp)
        try:
            # the command line reads the files in text mode (universal newlines: a lone '\r' arrives as '\n'); the
            # in-process reference must see the same text
            as_read = []
            for fp in paths:
                with open(fp, encoding='utf-8') as fh:
                    as_read.append(fh.read())
            direct = classify(list(zip(paths, as_read)), limit_s=limit_s)
            err = io.StringIO()
            code, tb = None, None
            old_argv = sys.argv
            try:
                sys.argv = ['stone', self.backend, os.path.join(self.dir, 'out')] + paths
                with contextlib.redirect_stderr(err), contextlib.redirect_stdout(io.StringIO()):
                    try:
                        stone.cli.main()
                        code = 0
                    except SystemExit as e:
                        code = e.code if isinstance(e.code, int) else (0 if e.code is None else 1)
                    except Exception as e:  # noqa: BLE001 - the class of what escapes is the verdict
                        code = 'exc:' + type(e).__name__
                        frames = traceback.extract_tb(e.__traceback__)
                        tb = {'text': ''.join(traceback.format_exception(type(e), e, e.__traceback__))[-1500:],
                              'exc': type(e).__name__, 'where': _where(e.__traceback__),
                              # raised below specs_to_ir = it escapes the frontend; otherwise it is the command line's own
                              'in_frontend': any(fr.name == 'specs_to_ir' and
                                                 fr.filename.replace('\\', '/').endswith('frontend/frontend.py')
                                                 for fr in frames)}
            finally:
                sys.argv = old_argv
            return direct, code, err.getvalue(), tb, (paths, as_read)
        finally:
            for fp in paths:
                try:
                    os.unlink(fp)
                except OSError:
                    pass


def answer_problems(err, code, text):
    """What is wrong with the command line's answer to the InvalidSpec `err` (fields as in `classify`): list of
    tags, empty when the answer is `path:line: error: message` + status 1.  What stands in place of a line or a
    path the error does not have is not judged."""
    bad = []
    if isinstance(code, str):
        return ['escape']
    if code != 1:
        bad.append('status')
    path_re = re.escape(err['path']) if err['path'] is not None else r'[^\n:]*'
    line_re = str(err['line']) if isinstance(err['line'], int) else r'[^\n:]*'
    if re.search(r'(?:^|\n)%s:%s: error: %s(?:\n|$)' % (path_re, line_re, re.escape(err['msg'])), text) is None:
        if re.search(r'(?:^|\n)[^\n]*: error: ', text) is None:
            bad.append('no-error-line')
        elif re.search(r'(?:^|\n)%s:%s: error: ' % (path_re, line_re), text) is None:
            bad.append('wrong-location')
        else:
            bad.append('wrong-message')
    return bad


def judge_cli(ck, cli, files, origin, shape=None):
    """Returns (direct verdict, exit code | 'exc:<class>', stderr text, comparable): `comparable` = the answer can be
    compared with the model's (`fe.report`)."""
    direct, code, text, tb, (paths, as_read) = cli.run(files)
    ck.hist('fe.cli.outcome', '%s/%s' % (direct['k'], code))
    comparable = direct['k'] == 'spec' and 'err' in direct and not direct['bad']
    if direct['k'] == 'crash' or (direct['k'] == 'spec' and direct['bad']):
        judge(ck, [list(z) for z in zip(paths, as_read)], direct, origin, do_shrink=False)
    if tb is not None and tb['in_frontend']:
        # the frontend itself let it through when the command line called it (for specs nested beyond the recursion
        # limit the outcome depends on the depth of the caller's stack): the same failure as in `judge`
        comparable = False
        if direct['k'] != 'crash':
            ck.failing_input('C03: %s escapes the frontend (%s)' % (tb['exc'], tb['where']),
                             {'kind': 'escape', 'exc': tb['exc'], 'where': tb['where']},
                             {'specs': [list(f) for f in files], 'via': 'cli', 'origin': origin, 'code': code,
                              'traceback': tb['text']})
    elif direct['k'] == 'spec' and 'err' in direct:
        sh = error_shape(direct['err'], paths)
        ck.hist('fe.cli.error_shape', sh)
        bad = answer_problems(direct['err'], code, text)
        if bad == ['wrong-message']:
            # a message that differs between two runs of the frontend itself (an address, an unordered set) cannot
            # be compared
            again = classify(list(zip(paths, as_read)))
            if again.get('k') != 'spec' or again['err']['msg'] != direct['err']['msg']:
                bad = []
                comparable = False
        if bad:
            ck.failing_input('C03: the command line does not answer a bad spec with path:line: error: message and status 1 '
                             '(%s; spec error with %s)' % (','.join(bad), sh),
                             {'kind': 'cli', 'code': str(code), 'bad': bad,
                              'line': 'none' if direct['err']['line'] is None else 'int',
                              'path': 'none' if direct['err']['path'] is None else 'given'},
                             {'specs': [list(f) for f in files], 'via': 'cli', 'origin': origin, 'shape': sh,
                              'spec_error': direct['err'], 'stderr': text[-600:], 'code': code, 'traceback': tb and tb['text']})
    elif direct['k'] == 'ok' and code != 0:
        ck.failing_input('C03: the command line fails on a spec the frontend accepts', {'kind': 'cli-ok', 'code': str(code)},
                         {'specs': [list(f) for f in files], 'via': 'cli', 'origin': origin, 'stderr': text[-600:],
                          'code': code, 'traceback': tb and tb['text']})
    return direct, code, text, comparable


CRASH_CLASS = {'typeError': 'TypeError', 'valueError': 'ValueError', 'indexError': 'IndexError'}


def handler_operation():
    """The format operation of the `except InvalidSpec` handler of the tree under test, by the translator's own
    extractor (translator/ex_clireport.py): sent with every `fe.report` request."""
    tdir = os.path.join(core.VERIF, 'translator')
    if tdir not in sys.path:
        sys.path.insert(0, tdir)
    import ex_clireport
    style, tpl, fields, _status, _stream = ex_clireport.handler_operation(core.REPO)
    return {'style': style, 'template': tpl, 'fields': fields}


def has_line(text, line):
    return re.search(r'(?:^|\n)%s(?:\n|$)' % re.escape(line), text) is not None


def suite_cli(ck, n, picked=()):
    """Through stone.cli.main in-process with a throw-away backend: a bad spec is answered with
    `path:line: error: message` on stderr and exit status 1.  `picked`: the representatives of every shape and
    wording of spec error that `suite_fuzz` has seen; plus `n` freshly mutated specs."""
    from harness import specgen
    rng = ck.rng
    cli = _Cli()
    answered = []
    for rep in picked:
        files = [tuple(f) for f in rep['specs']]
        direct, code, text, comparable = judge_cli(ck, cli, files, 'picked:' + rep['origin'], rep.get('shape'))
        ck.case(('cli', tuple(t for _p, t in files)), nontrivial=direct['k'] != 'ok')
        if comparable:
            answered.append((direct['err'], code, text))
    for i in range(n):
        model = specgen.gen_model(rng, 'small')
        files = specgen.render(model, None)
        k = rng.randrange(len(files))
        files = [list(f) for f in files]
        files[k][1] = mutate_text(rng, files[k][1])
        direct, code, text, comparable = judge_cli(ck, cli, [tuple(f) for f in files], 'mutated')
        ck.case(('cli', tuple(t for _p, t in files)), nontrivial=direct['k'] != 'ok')
        if comparable:
            answered.append((direct['err'], code, text))
    ck.stats['cli_cases'] = len(picked) + n
    # the model of the handler (Model/CliReport.lean on the format operation the translator copied from the tree under
    # test) against what the command line printed
    op = handler_operation()
    ck.stats['cli_handler_operation'] = op
    replies = ck.driver([dict(op, op='fe.report', path=e['path'], line=e['line'], msg=e['msg']) for e, _c, _t in answered])
    for (e, code, text), r in zip(answered, replies):
        if 'ok' in r:
            real = {'code': code, 'prints_model_line': has_line(text, r['ok'])}
            same = code == 1 and real['prints_model_line']
        elif 'crash' in r:
            real = {'code': code}
            same = code == 'exc:' + CRASH_CLASS.get(r['crash'], '?')
        else:
            ck.hist('fe.report.uncompared', 'unmodelled' if r.get('unmodelled') else 'protocol')
            if not r.get('unmodelled'):
                ck.disagree('fe.report', e, {'code': code}, r)
            continue
        if same:
            ck.agree('fe.report')
        else:
            real['stderr'] = text[-300:]
            ck.disagree('fe.report', e, real, r)


def suite_format(ck, n):
    """The interpreter of Python's two format operations (Model/CliReport.lean `run`) against Python's own, on random
    templates and arguments of the three kinds a field of an InvalidSpec can hold."""
    rng = ck.rng
    parts = ['a', ':', ' ', ': error: ', 'é', '{}', '{}', '{{', '}}', '{', '}', '{0}', '{!r}', '{:>4}', '{x}', '%s', '%s', '%d', '%i',
             '%%', '%', '%r', '%5d', '%(x)s', '% d', 's', 'd']
    vals = [None, None, 0, 1, -7, 12345678901234567890123, 'a.stone', '', 'x y', '%s', '{}', '%', '{', 'é\n', "it's"]
    reqs, cases = [], []
    for _ in range(n):
        style = rng.choice(['format', 'percent'])
        tpl = ''.join(rng.choice(parts) for _ in range(rng.randint(0, 6)))
        args = [rng.choice(vals) for _ in range(rng.choice([0, 1, 2, 3, 3, 3, 4]))]
        cases.append((style, tpl, args))
        reqs.append({'op': 'fe.format', 'style': style, 'template': tpl, 'args': args})
    for (style, tpl, args), r in zip(cases, ck.driver(reqs)):
        try:
            real = {'ok': tpl.format(*args) if style == 'format' else tpl % tuple(args)}
        except (TypeError, ValueError, IndexError, KeyError) as e:
            real = {'crash': type(e).__name__}
        ck.case(('fe.format', style, tpl, tuple(map(repr, args))), nontrivial=True)
        if r.get('unmodelled'):
            ck.hist('fe.format.outcome', 'unmodelled')
            continue
        model = {'ok': r['ok']} if 'ok' in r else {'crash': CRASH_CLASS.get(r.get('crash'), repr(r))}
        ck.hist('fe.format.outcome', '%s/%s' % (style, 'ok' if 'ok' in real else real['crash']))
        if model == real:
            ck.agree('fe.format')
        else:
            ck.disagree('fe.format', {'style': style, 'template': tpl, 'args': args}, real, model)
