"""C10 suites: field defaults and computed examples — what the compiler accepts vs what the generated
python_types classes accept.

Correspondence (real compiler / real generated classes vs the compiled Lean model `Model/IrCheck.lean`):
  decl.ircheck.default   one-field specs `f <Type> = <literal>` over a fixed grid + every defaulted field of generated specs
  decl.ircheck.example   one-member struct / union examples over a fixed grid, random flat struct chains,
                         reference-free examples of generated specs
Direct oracles (independent of the model):
  defaults  fresh instance -> read -> equals the declared default (converted from the IR here), validator and
            setattr accept it
  examples  json_compat_obj_decode(strict) then json_compat_obj_encode gives the example document back
"""
import base64
import binascii
import datetime
import json
import re

from harness import core, pygen, irdump, values
from harness.irdump import fbits, bits_to_float, ref_of, chain
from harness.values import json_to_tagged, tagged_to_json, canon

RULE = ('fixed grid: every defaultable (and non-defaultable) field type x parameter combinations x literals of every kind at and '
        'around the bounds (ints for floats, huge ints, strings around length bounds, prefix-vs-full pattern cases, tag references '
        'incl. inherited, foreign-namespace and aliased unions), same grid for one-member examples (lists, maps, null); random flat '
        'struct chains with inherited / defaulted / nullable fields; every defaulted field and every example label of generated specs '
        '(presets rt, default, fe restricted to specs the python_types backend can load); reference grid: 19 shapes of a '
        'referenced type (struct, child, tree root / leaf, union, inherited union, closed union, nullable, aliases of them, other '
        'namespace) x 13-17 containers (bare, List, List?, List(List), Map, Map?, Map of List, aliases of them, nullable items) x '
        'member of a struct / union / inherited / subtype / inherited tag / embedded twice over x case declared before or after '
        'what it refers to (quick: struct and union members in full, a seeded fifth of the rest); shape grid: 28 whole-example '
        'shapes of a union and of a struct with enumerated subtypes; void members in the example grid; compact form of every '
        'judged example, and every example read once more after the compact form has been read in the same process (the later '
        'reading is the same document and still round-trips); inherited defaults read on instances of every descendant; the value '
        'read is compared with the default of the IR and with the literal the spec declares (exact numeric value)')

# ==================================================================================================
# real compiler, fast path
# ==================================================================================================
_PF = None


def _parser():
    """the shared ParserFactory, reset for one more file (get_parser() keeps the error list of earlier files:
    specs_to_ir never parses on after an error, the grid does)"""
    global _PF
    from stone.frontend.parser import ParserFactory
    if _PF is None:
        _PF = ParserFactory(debug=False)
    p = _PF.get_parser()
    p.errors = []
    return p


def compile_fast(specs):
    """The real parser and the real IRGenerator (what specs_to_ir runs) with ONE ParserFactory, so that the
    yacc tables are built once: 0.4 ms instead of 16 ms per spec."""
    from stone.frontend.ir_generator import IRGenerator
    from stone.frontend.exception import InvalidSpec
    asts = []
    for path, text in specs:
        p = _parser()
        a = p.parse(text, path)
        if p.got_errors_parsing():
            msg, lineno, path = p.get_errors()[0]
            raise InvalidSpec(msg, lineno, path)
        if a:
            asts.append(a)
    return IRGenerator(asts, '0.1b1', debug=False).generate_IR()


def compile_outcome(specs, fast=True):
    """('ok', api) | ('invalid', message) | ('crash', exception class name)"""
    from stone.frontend.exception import InvalidSpec
    try:
        if fast:
            return ('ok', compile_fast(specs))
        from stone.frontend.frontend import specs_to_ir
        return ('ok', specs_to_ir(specs))
    except InvalidSpec as e:
        return ('invalid', str(e.msg)[:160])
    except RecursionError:
        raise
    except Exception as e:  # noqa: BLE001 - the class of what escapes is what is compared
        return ('crash', type(e).__name__)


def parse_only(text, path='grid.stone'):
    """AST nodes of one file (parser only; used to read a literal the way the lexer reads it)"""
    p = _parser()
    a = p.parse(text, path)
    if p.got_errors_parsing():
        raise ValueError('grid spec does not parse: %r' % (p.get_errors()[0],))
    return a


class GridCompiler:
    """Real parser + real IRGenerator for `fixed files + one small case file of namespace ns`. The fixed
    files are parsed once; their AST node lists are handed to every IRGenerator run as fresh lists
    (the generator only pops the namespace node off the list, it does not modify nodes)."""

    def __init__(self, fixed):
        self.fixed_specs = list(fixed)
        self.fixed = []
        for path, text in fixed:
            a = parse_only(text, path)
            self.fixed.append(a)

    def specs(self, body, first=False):
        case = [('case.stone', 'namespace ns\n\n' + body)]
        return case + self.fixed_specs if first else self.fixed_specs + case

    def compile(self, body, first=False):
        from stone.frontend.ir_generator import IRGenerator
        from stone.frontend.exception import InvalidSpec
        try:
            p = _parser()
            a = p.parse('namespace ns\n\n' + body, 'case.stone')
            if p.got_errors_parsing():
                msg, lineno, path = p.get_errors()[0]
                raise InvalidSpec(msg, lineno, path)
            asts = [list(x) for x in self.fixed]
            if a:
                asts = [a] + asts if first else asts + [a]
            return ('ok', IRGenerator(asts, '0.1b1', debug=False).generate_IR())
        except InvalidSpec as e:
            return ('invalid', str(e.msg)[:160])
        except RecursionError:
            raise
        except Exception as e:  # noqa: BLE001
            return ('crash', type(e).__name__)


# ==================================================================================================
# protocol forms
# ==================================================================================================
def lit_tagged(v):
    """a spec literal / stored default in the driver's Lit form"""
    from stone.frontend.ast import AstTagRef
    from stone.ir.data_types import TagRef
    if isinstance(v, AstTagRef):
        return ['T', v.tag]
    if isinstance(v, TagRef):
        return ['T', v.tag_name]
    if v is None:
        return ['n']
    if isinstance(v, bool):
        return ['b', v]
    if isinstance(v, int):
        return ['i', v]
    if isinstance(v, float):
        return ['f', fbits(v)]
    if isinstance(v, str):
        return ['s', v]
    raise TypeError('no Lit form for %r' % (v,))


def exval_tagged(v):
    """the value of one example member as written (AstExampleField.value) in the driver's ExVal form"""
    from stone.frontend.ast import AstExampleRef
    if isinstance(v, AstExampleRef):
        return ['r', v.label]
    if isinstance(v, list):
        return ['l', [exval_tagged(x) for x in v]]
    if isinstance(v, dict):
        return ['m', [[k, exval_tagged(x)] for k, x in v.items()]]
    return ['L', lit_tagged(v)]


def cunion_of(dt):
    ca = None
    for c in reversed(chain(dt)):
        if c.catch_all_field is not None:
            ca = c.catch_all_field.name
            break
    return {'cls': ref_of(dt),
            'chain': [[ref_of(c), [{'name': f.name, 'ty': irdump.ir_ty(f.data_type), 'om': f.omitted_caller}
                                   for f in c.fields]] for c in chain(dt)],
            'catchAll': ca}


def cstruct_of(dt):
    def cfield(f):
        d = {'name': f.name, 'ty': irdump.ir_ty(f.data_type), 'om': f.omitted_caller}
        if f.has_default:
            d['dflt'] = lit_tagged(f.default)
        return d
    return {'cls': ref_of(dt),
            'chain': [[ref_of(c), [cfield(f) for f in c.fields]] for c in chain(dt)],
            'subtypes': irdump.subtypes_of(dt) if dt.has_enumerated_subtypes() else None,
            'catchAll': bool(dt.has_enumerated_subtypes() and dt.is_catch_all())}


def capi_of(api):
    """compile-time description of the user types (straight from the IR objects)"""
    from stone.ir import Struct, Union
    structs, unions = [], []
    for ns in api.namespaces.values():
        for dt in ns.data_types:
            if isinstance(dt, Struct):
                structs.append(cstruct_of(dt))
            elif isinstance(dt, Union):
                unions.append(cunion_of(dt))
    return {'structs': structs, 'unions': unions}


# ---- external-call tables ---------------------------------------------------------------------------
def type_params(irt, pats, fmts):
    k = irt[0]
    if k == 'String' and irt[3]:
        pats.add(irt[3])
    elif k == 'Timestamp':
        fmts.add(irt[1])
    elif k == 'List':
        type_params(irt[1], pats, fmts)
    elif k == 'Map':
        type_params(irt[1], pats, fmts)
        type_params(irt[2], pats, fmts)
    elif k == 'Nullable':
        type_params(irt[1], pats, fmts)
    elif k == 'Alias':
        type_params(irt[3], pats, fmts)


def capi_params(capi, pats, fmts):
    for s in capi['structs']:
        for _c, fs in s['chain']:
            for f in fs:
                type_params(f['ty'], pats, fmts)
    for u in capi['unions']:
        for _c, ts in u['chain']:
            for t in ts:
                type_params(t['ty'], pats, fmts)


def collect_lit(l, strings, ints):
    if l[0] == 's':
        strings.add(l[1])
    elif l[0] == 'i':
        ints.add(l[1])
    elif l[0] == 'T':
        strings.add(l[1])


def collect_exval(v, strings, ints):
    if v[0] == 'L':
        collect_lit(v[1], strings, ints)
    elif v[0] == 'l':
        for x in v[1]:
            collect_exval(x, strings, ints)
    elif v[0] == 'm':
        for k, x in v[1]:
            strings.add(k)
            collect_exval(x, strings, ints)


def collect_json(j, strings, ints):
    if isinstance(j, str):
        strings.add(j)
    elif isinstance(j, bool):
        pass
    elif isinstance(j, int):
        ints.add(j)
    elif isinstance(j, list):
        for x in j:
            collect_json(x, strings, ints)
    elif isinstance(j, dict):
        for k, x in j.items():
            strings.add(k)
            collect_json(x, strings, ints)


def make_tables(pats, fmts, strings, ints, ts):
    """Ext (runtime) and CExt (compile time) tables for a batch, computed with the reference libraries."""
    ints = set(ints) | {0, 1}
    ext, cext = {}, {}
    rows = []
    for n in sorted(ints):
        try:
            rows.append([n, fbits(float(n))])
        except OverflowError:
            rows.append([n, None])
    ext['fltOfInt'] = rows
    # compile time, since the repair of _BoundedFloat.check: does the integer convert to a double without loss
    exact = []
    for n in sorted(ints):
        try:
            exact.append([n, float(n) == n])
        except OverflowError:
            exact.append([n, False])
    cext['intExact'] = exact
    full, pre = [], []
    for p in sorted(pats):
        try:
            anchored = re.compile(r'\A(?:' + p + r')\Z')
            plain = re.compile(p)
        except re.error:
            continue
        for s in strings:
            full.append([p, s, bool(anchored.match(s))])
            pre.append([p, s, bool(plain.match(s))])
    ext['pat'] = full
    cext['prefix'] = pre
    dec_rows, hexes = [], set()
    for s in strings:
        try:
            h = base64.b64decode(s).hex()
            hexes.add(h)
            dec_rows.append([s, h])
        except binascii.Error:
            dec_rows.append([s, '!binascii'])
        except ValueError:
            dec_rows.append([s, '!value'])
    ext['b64dec'] = dec_rows
    ext['b64enc'] = [[h, base64.b64encode(bytes.fromhex(h)).decode('ascii')] for h in sorted(hexes)]
    ok_rows, ptime, ids = [], [], set()
    for f in sorted(fmts):
        for s in strings:
            try:
                d = datetime.datetime.strptime(s, f)
                i = ts.id_of(d)
                ids.add(i)
                ptime.append([f, s, i])
                ok_rows.append([f, s, True])
            except ValueError:
                ptime.append([f, s, None])
                ok_rows.append([f, s, False])
    ext['strptime'] = ptime
    cext['strptimeOk'] = ok_rows
    rows = []
    for f in sorted(fmts):
        for i in sorted(ids):
            try:
                rows.append([f, i, ts.get(i).strftime(f)])
            except ValueError:
                pass
    ext['strftime'] = rows
    return ext, cext


# ==================================================================================================
# the grid
# ==================================================================================================
PRELUDE = '''namespace ns

import other_ns

union Color
    red
    green Int32
    shade Shade
    faint VoidAlias

union Shade
    dark

union_closed Closed
    p
    q String

union Tint extends Color
    pale

struct Tee
    g Int32 = 1

alias IntAlias = Int32(min_value=0, max_value=10)
alias FltAlias = Float64
alias FltSmallAlias = Float32
alias StrAlias = String(pattern="[a-z]{2}")
alias ColorAlias = Color
alias NullIntAlias = Int32?
alias IntAliasAlias = IntAlias
alias VoidAlias = Void
alias TsAlias = Timestamp("%Y")
alias NullColorAlias = Color?
alias ListAlias = List(Int32)

'''
OTHER = 'namespace other_ns\n\nunion Far\n    w1\n    w2 String\n'

I32, U32, I64, U64 = (-2 ** 31, 2 ** 31 - 1), (0, 2 ** 32 - 1), (-2 ** 63, 2 ** 63 - 1), (0, 2 ** 64 - 1)


def grid_types():
    """field type expressions of the grid (spec text)"""
    out = ['Boolean']
    for name, (lo, hi) in (('Int32', I32), ('UInt32', U32), ('Int64', I64), ('UInt64', U64)):
        out += [name, '%s(min_value=%d, max_value=%d)' % (name, lo, hi), '%s(min_value=0, max_value=0)' % name,
                '%s(min_value=1, max_value=10)' % name, '%s(min_value=%d)' % (name, hi), '%s(max_value=%d)' % (name, lo)]
    out += ['Int32(min_value=-5, max_value=5)', 'Int64(min_value=-5)']
    for name in ('Float32', 'Float64'):
        out += [name, '%s(min_value=-1.5, max_value=2.5)' % name, '%s(min_value=0)' % name, '%s(max_value=0)' % name,
                '%s(min_value=2, max_value=2)' % name]
    out += ['Float32(min_value=-3.40282e38, max_value=3.40282e38)', 'Float64(min_value=1e30, max_value=1e31)']
    out += ['String', 'String(min_length=0, max_length=1)', 'String(min_length=2, max_length=2)', 'String(max_length=3)',
            'String(min_length=1)', 'String(pattern="a")', 'String(pattern="[a-z]{2}")', 'String(pattern="[a-z]{2,4}")',
            'String(pattern="ab|abXY")', 'String(pattern="^ab$")', 'String(pattern="a.c")', 'String(pattern="")',
            'String(pattern="(ab)+")', 'String(pattern="\\\\d{3}")', 'String(min_length=3, max_length=5, pattern="[a-z]+")',
            'String(max_length=2, pattern="a*")']
    out += ['Timestamp("%Y-%m-%d")', 'Timestamp("%H:%M")', 'Timestamp("%Y")', 'Bytes']
    out += ['List(Int32)', 'List(String(max_length=2), max_items=1)', 'Map(String, Int32)', 'Tee', 'Tee?', 'Int32?', 'String?',
            'Float64?', 'Color?', 'ListAlias']
    out += ['Color', 'Shade', 'Closed', 'Tint', 'other_ns.Far', 'ColorAlias', 'NullColorAlias']
    out += ['IntAlias', 'FltAlias', 'FltSmallAlias', 'StrAlias', 'NullIntAlias', 'IntAliasAlias', 'TsAlias', 'VoidAlias']
    return out


def grid_literals():
    """literal source texts (the Lit the model receives is what the real parser makes of the text)"""
    ints = [0, 1, -1, 2, 5, 6, -5, -6, 10, 11, 100]
    for lo, hi in (I32, U32, I64, U64):
        ints += [lo - 1, lo, lo + 1, hi - 1, hi, hi + 1]
    ints += [10 ** 30, 10 ** 38, 4 * 10 ** 38, 10 ** 400, -10 ** 400, 2 ** 53 + 1]
    ints += [2 ** 53, 2 ** 53 + 2, -(2 ** 53 + 1), 2 ** 24 + 1]      # around the last integer every double / single holds
    out = ['null', 'true', 'false'] + [str(n) for n in sorted(set(ints))]
    out += ['0.0', '-0.0', '1.0', '1.5', '2.5', '2.6', '-1.5', '-1.6', '2.0', '0.1', '1e30', '5e30', '1e31', '2e31',
            '3.40282e38', '3.4028235e38', '-3.40282e38', '-3.4028235e38', '1e39', '1e400', '-1e400', '1e-400',
            '123456789.123456789']
    strs = ['', 'a', 'ab', 'abc', 'abcd', 'abcde', 'abcdef', 'abXY', 'AB', 'ba', 'a c', 'a\\nc', 'ab\\n', 'abab', 'ababx', '123',
            '1234', '1.5', '-2', 'inf', '-inf', 'nan', ' 2 ', '1_0', '1e5', '1e400', '0x10', '2020-01-05', '2020-1-5', '12:30',
            '7:5', '2020', '20', 'aGVsbG8=', 'aGVsbG8', 'a GVsbG8=', '\\u00e9', 'é', 'red', 'true', 'null']
    out += ['"%s"' % s for s in strs]
    out += ['red', 'green', 'shade', 'faint', 'dark', 'pale', 'other', 'p', 'q', 'w1', 'w2', 'nosuch']
    return out


def example_values():
    """example member source texts for the example grid: the literals plus lists and maps"""
    out = list(grid_literals())
    out += ['[]', '[1]', '[1, 2]', '[1, 2, 3]', '[2147483648]', '[1, "a"]', '[null]', '["a"]', '["abc"]', '["ab", "cd"]', '[[1]]',
            '[1.5]', '[true]', '{}', '{"a": 1}', '{"a": 1, "b": 2}', '{"a": 2147483648}', '{"a": "x"}', '{"": 1}', '{"a": null}',
            '{"a": [1]}']
    return out


def example_types():
    out = [t for t in grid_types() if t not in FIELD_TYPE_REFUSED]      # (types a struct field cannot have)
    out += ['List(Int32(max_value=3))', 'List(Int32, min_items=1, max_items=2)', 'List(Int32)?', 'List(Int32?)',
            'List(String(pattern="a"))', 'List(Bytes)', 'List(List(Int32, max_items=1))', 'List(Float64)', 'List(Boolean)',
            'Map(String, Int32(max_value=3))', 'Map(String(pattern="a"), Int32)', 'Map(String(min_length=1), Int32)',
            'Map(String, String)', 'Map(String, Int32?)', 'Map(String, List(Int32))', 'Map(String, Int32)?']
    return out


def field_of_first_struct(api, name='S'):
    return api.namespaces['ns'].data_type_by_name[name].fields[0]


# ==================================================================================================
# direct oracle: defaults
# ==================================================================================================
def unwrap_ir(t):
    from stone.ir import Alias, Nullable
    while isinstance(t, (Alias, Nullable)):
        t = t.data_type
    return t


def same_scalar(a, b):
    """identical Python scalars: same class, same value, floats by bit pattern"""
    if type(a) is not type(b):
        return False
    if isinstance(a, float):
        return fbits(a) == fbits(b)
    return a == b


_NO_LITERAL = object()


def declared_literal(field):
    """the default as the spec writes it (the literal the parser read, before the compiler converts or checks it);
    _NO_LITERAL for a tag reference or a field that carries no syntax node"""
    node = getattr(field, '_ast_node', None)
    if node is None or not getattr(node, 'has_default', True):
        return _NO_LITERAL
    lit = getattr(node, 'default', _NO_LITERAL)
    if lit is None or isinstance(lit, (bool, int, float, str)):
        return lit
    return _NO_LITERAL


def same_literal(got, lit):
    """the value read is the declared literal: numbers by exact value (2**53 + 1 is not 9007199254740992.0), booleans
    and null as themselves, text as text (a text default that the class hands out as another kind of object - a
    date, bytes - is the business of the other checks, not judged here)"""
    if lit is None:
        return got is None
    if isinstance(lit, bool) or isinstance(got, bool):
        return isinstance(lit, bool) and isinstance(got, bool) and got == lit
    if isinstance(lit, (int, float)):
        return isinstance(got, (int, float)) and got == lit
    if isinstance(lit, str):
        return got == lit if isinstance(got, str) else True
    return True


def classify_default_refusal(field):
    """diagnostic class of a refused default (for the signature only; the verdict does not depend on it)"""
    from stone.ir import Bytes, String, Timestamp
    t = unwrap_ir(field.data_type)
    d = field.default
    if isinstance(t, Timestamp):
        return 'timestamp-text'
    if isinstance(t, Bytes):
        return 'bytes-text'
    if isinstance(t, String) and isinstance(d, str) and t.pattern:
        try:
            if re.match(t.pattern, d) and not re.match(r'\A(?:' + t.pattern + r')\Z', d):
                return 'pattern-prefix'
        except re.error:
            pass
    return 'other-' + type(t).__name__


def judge_default(built, struct_ir, field, via=None):
    """The property on one defaulted field of a loaded module: [(what, signature, detail)]. `via`: a struct that
    inherits the field from `struct_ir` - the field is then read on an instance of that class."""
    from stone.ir.data_types import TagRef
    from stone.backends.python_rsrc import stone_base as bb
    from stone.backends.python_helpers import fmt_var
    problems = []
    cls = built.cls_by_ref[ref_of(via if via is not None else struct_ir)]
    attr = fmt_var(field.name)
    tname = type(unwrap_ir(field.data_type)).__name__
    try:
        obj = cls()
        got = getattr(obj, attr)
    except Exception as e:  # noqa: BLE001
        return [('reading an unset defaulted field raises %s' % type(e).__name__,
                 {'kind': 'default-read', 'why': 'raises', 'type': tname}, {'exception': repr(e)[:200]})]
    d = field.default
    if isinstance(d, TagRef):
        ucls = built.cls_by_ref.get(ref_of(unwrap_ir(field.data_type)))
        ok = (isinstance(got, bb.Union) and got._tag == d.tag_name and got._value is None and ucls is not None
              and issubclass(ucls, type(got)))
        if not ok:
            problems.append(('unset field with a tag default does not read as a ready instance of the union',
                             {'kind': 'default-read', 'why': 'not-the-tag-instance', 'type': tname}, {'got': repr(got)[:200]}))
    else:
        if not same_scalar(got, d):
            problems.append(('unset defaulted field does not read as the declared default',
                             {'kind': 'default-read', 'why': 'different-value', 'type': tname},
                             {'got': repr(got)[:200], 'declared': repr(d)[:200]}))
        else:
            # "exactly the declared default": the declaration is the literal of the spec (what the parser read), not
            # what the compiler made of it on the way to the IR - a number must come back as that very number
            # (Python compares int and float exactly), a text as that text, a boolean as that boolean
            lit = declared_literal(field)
            if lit is not _NO_LITERAL and not same_literal(got, lit):
                problems.append(('unset defaulted field reads as another value than the literal the spec declares',
                                 {'kind': 'default-read', 'why': 'not-the-declared-literal', 'type': tname,
                                  'literal': type(lit).__name__},
                                 {'got': repr(got)[:200], 'declared_literal': repr(lit)[:200], 'ir_default': repr(d)[:200]}))
    descriptor = getattr(cls, attr)
    why = None
    try:
        if descriptor.user_defined:
            descriptor.validator.validate_type_only(got)
        descriptor.validator.validate(got)
    except Exception as e:  # noqa: BLE001
        why = ('validator', type(e).__name__, str(e)[:160])
    if why is None:
        try:
            setattr(obj, attr, got)
        except Exception as e:  # noqa: BLE001
            why = ('setattr', type(e).__name__, str(e)[:160])
    if why is not None:
        # signature: diagnostic class of the refusal, the (unwrapped) field type, who refused and how
        problems.append(('default accepted by the compiler is refused by the generated class',
                         {'kind': 'default-refused', 'why': classify_default_refusal(field), 'type': tname,
                          'stage': why[0], 'exc': why[1]},
                         {'default': repr(d)[:200], 'refusal': list(why), 'ir_type': tname}))
    return problems


# ==================================================================================================
# suite: default grid
# ==================================================================================================
def _grid_spec(body):
    return [('ns.stone', PRELUDE + body), ('other_ns.stone', OTHER)]


def default_case_text(ty, lit):
    return 'struct S\n    f %s = %s\n' % (ty, lit)


def _real_default_outcome(out):
    if out[0] != 'ok':
        return list(out[:1]) + ([out[1]] if out[0] == 'crash' else [])
    f = field_of_first_struct(out[1])
    return ['ok', lit_tagged(f.default)]


def check_ty_known(ck, case, rep):
    """hypothesis of checkDefault_no_crash / example_check_no_crash: every class name of the types sent to the
    model is one the compiler knows (must hold of every type read from a real IR)"""
    if rep.get('tyKnown') is True:
        ck.agree('decl.ircheck.tyknown')
    else:
        ck.disagree('decl.ircheck.tyknown', case, 'type built by the compiler', rep.get('tyKnown'))


def _model_check_outcome(rep):
    c = rep.get('check', {})
    if 'ok' in c:
        return ['ok', c['ok']]
    if 'invalid' in c:
        return ['invalid']
    if 'crash' in c:
        return ['crash', c['crash']]
    return ['protocol', rep]


_GRID = None

# grid types the compiler is expected to refuse as the type of a struct field (whatever the default / example):
# an alias of Void is Void (repair 981a08f)
FIELD_TYPE_REFUSED = {'VoidAlias'}


def grid_compiler(ck=None):
    """the compiler for `prelude + one case`; None (and a disagreement of suite decl.ircheck.grid_prelude) when the
    compiler under test refuses the fixed prelude the grids take for granted"""
    global _GRID
    if _GRID is None:
        try:
            gc = GridCompiler([('ns.stone', PRELUDE), ('other_ns.stone', OTHER)])
            out = gc.compile('')
        except ValueError as e:
            out = ('invalid', str(e)[:200])
        if out[0] != 'ok':
            if ck is not None:
                ck.disagree('decl.ircheck.grid_prelude', {'specs': _grid_spec('')}, list(out[:2]), ['ok'])
            return None
        _GRID = gc
    if ck is not None:
        ck.agree('decl.ircheck.grid_prelude')
    return _GRID


def grid_type_irs(ck, gc, types):
    """IR form of every grid type (read off the members of one closed union: a member may have any type, also one
    a struct field may not have) and the unions of the prelude; None + disagreement when that does not compile"""
    out = gc.compile('union_closed GridTypes\n' + ''.join('    m%d %s\n' % (i, t) for i, t in enumerate(types)))
    if out[0] != 'ok':
        ck.disagree('decl.ircheck.grid_prelude', {'what': 'one union with a member of every grid type', 'types': types},
                    list(out[:2]), ['ok'])
        return None, None
    ck.agree('decl.ircheck.grid_prelude')
    members = out[1].namespaces['ns'].data_type_by_name['GridTypes'].fields
    irts = {t: irdump.ir_ty(members[i].data_type) for i, t in enumerate(types)}
    unions = [u for u in capi_of(out[1])['unions'] if u['cls'] != 'ns.GridTypes']
    return irts, unions


def build_batches(ck, cases, render, risky=lambda c: False, size=80, gc=None, first=False):
    """cases accepted by the compiler -> loaded modules. `render(i, case)` gives the definition text.
    Yields (case, built | None, definition name, failure). Cases for which module generation is expected to fail
    are built alone; a batch that fails all the same is split. `gc`: another fixed prelude than the grid's;
    `first`: the case file is handed to the compiler before the fixed files."""
    gc = gc or grid_compiler(ck)
    if gc is None:
        return

    def attempt(group):
        body = ''.join(render(i, c) for i, c in group)
        try:
            out = gc.compile(body, first)
            if out[0] != 'ok':
                raise RuntimeError('batch of accepted cases refused: %r' % (out,))
            return pygen.build_python(gc.specs(body, first), api=out[1]), None
        except Exception as e:  # noqa: BLE001
            return None, e

    def rec(group):
        built, err = attempt(group)
        if built is not None:
            for i, c in group:
                yield c, built, 'S%d' % i, None
        elif len(group) == 1:
            yield group[0][1], None, 'S%d' % group[0][0], err
        else:
            mid = len(group) // 2
            yield from rec(group[:mid])
            yield from rec(group[mid:])
    indexed = list(enumerate(cases))
    alone = [x for x in indexed if risky(x[1])]
    together = [x for x in indexed if not risky(x[1])]
    for x in alone:
        yield from rec([x])
    for k in range(0, len(together), size):
        yield from rec(together[k:k + size])


def codegen_failure_sig(case_kind, err):
    name = type(err).__name__
    tb = getattr(err, 'traceback', '') or ''
    why = name
    if name == 'BackendException' and 'cannot contain newline' in tb:
        why = 'string-literal-wrapped-by-pprint'
    elif name == 'NameError':
        why = 'unbound-name'
    return {'kind': case_kind, 'why': why, 'exc': name}


def _type_family(t):
    if t.startswith(('Int', 'UInt')):
        return 'int'
    if t.startswith(('Float', 'Flt')):
        return 'float'
    if t.startswith(('String', 'StrAlias')):
        return 'str'
    if t.startswith(('Timestamp', 'TsAlias', 'Bytes')):
        return 'text'
    if t.startswith('Boolean'):
        return 'bool'
    if t.startswith(('List', 'Map', 'Tee')):
        return 'container'
    if t in ('VoidAlias', ''):
        return 'void'
    return 'union'


def _lit_family(l):
    if l in ('null',):
        return 'null'
    if l in ('true', 'false'):
        return 'bool'
    if l.startswith('"'):
        return 'str'
    if l.startswith(('[',)):
        return 'list'
    if l.startswith(('{',)):
        return 'map'
    if l[0].isdigit() or l[0] == '-':
        return 'float' if ('.' in l or 'e' in l) else 'int'
    return 'tag'


_RELEVANT = {
    'int': {'int', 'bool', 'float', 'null'}, 'float': {'int', 'bool', 'float', 'str', 'null', 'tag'}, 'str': {'str', 'null'},
    'text': {'str', 'null'}, 'bool': {'bool', 'int', 'null'}, 'container': {'null', 'list', 'map'}, 'void': {'null', 'int', 'str', 'bool', 'tag'},
    'union': {'tag', 'null'},
}


def keep_pair(ck, t, l, p_other):
    """quick tier: every pair whose literal kind is relevant to the type family, a seeded sample of the others"""
    if ck.tier == 'thorough':
        return True
    fam = _type_family(t)
    if t.endswith('?') or fam == 'union':
        rel = _RELEVANT.get(fam, set()) | {'null', 'tag'}
        if t.endswith('?'):
            rel = rel | _RELEVANT.get(_type_family(t[:-1]), set())
    else:
        rel = _RELEVANT[fam]
    if t.startswith(('List', 'Map')):
        rel = rel | {'list', 'map'}
    return _lit_family(l) in rel or ck.rng.random() < p_other


def _risky_default(c):
    t, l = c
    return t == 'NullColorAlias' or (l.startswith('"') and (' ' in l or '\\n' in l))


def suite_default_grid(ck):
    types, lits = grid_types(), grid_literals()
    ts = values.TsRegistry()
    gc = grid_compiler(ck)
    if gc is None:
        return
    # the IR form of every grid type and the unions of the prelude (compiled once, without defaults)
    irts, unions = grid_type_irs(ck, gc, types)
    if irts is None:
        return
    # which grid types a struct field may have at all
    for t in types:
        out = gc.compile('struct T\n    f %s\n' % t)
        expected = 'invalid' if t in FIELD_TYPE_REFUSED else 'ok'
        if out[0] == expected:
            ck.agree('decl.ircheck.grid_types')
        else:
            ck.disagree('decl.ircheck.grid_types', {'type': t, 'spec': 'struct T\n    f %s\n' % t}, list(out[:1]) if out[0] == 'ok' else list(out[:2]), [expected])
    parsed = {}
    for l in list(lits):
        try:
            ast = parse_only('namespace ns\nstruct S\n    f Int32 = %s\n' % l)
        except ValueError as e:
            ck.disagree('decl.ircheck.grid_prelude', {'what': 'grid literal does not parse', 'literal': l}, [str(e)[:200]], ['parses'])
            lits.remove(l)
            continue
        node = [n for n in ast if getattr(n, 'name', None) == 'S'][0]
        parsed[l] = lit_tagged(node.fields[0].default)
    reqs, meta = [], []
    accepted = []
    n_self = 0
    for t in types:
        pats, fmts = set(), set()
        type_params(irts[t], pats, fmts)
        for l in lits:
            if not keep_pair(ck, t, l, 0.1):
                continue
            text = default_case_text(t, l)
            real = _real_default_outcome(gc.compile(text))
            if ck.rng.random() < 0.01:       # self-check of the fast path against specs_to_ir itself
                slow = _real_default_outcome(compile_outcome(gc.specs(text), fast=False))
                n_self += 1
                if slow != real:
                    ck.disagree('decl.ircheck.fastpath', {'text': text}, slow, real)
                else:
                    ck.agree('decl.ircheck.fastpath')
            strings, ints = set(), set()
            collect_lit(parsed[l], strings, ints)
            ext, cext = make_tables(pats, fmts, strings, ints, ts)
            reqs.append({'op': 'decl.ircheck.default', 'ty': irts[t], 'lit': parsed[l], 'unions': unions, 'ext': ext, 'cext': cext})
            meta.append((t, l, real))
            if real[0] == 'ok':
                accepted.append((t, l))
    reps = ck.driver(reqs)
    model_by_case = {}
    for (t, l, real), rep in zip(meta, reps):
        mo = _model_check_outcome(rep)
        ck.case(('dgrid', t, l), nontrivial=True)
        ck.hist('default.grid.outcome', real[0] if real[0] != 'crash' else 'crash:' + real[1])
        ck.hist('default.grid.type', _type_family(t))
        if real == mo:
            ck.agree('decl.ircheck.default')
        else:
            ck.disagree('decl.ircheck.default', {'type': t, 'literal': l, 'spec': default_case_text(t, l)}, real, mo)
        if rep.get('unionsAgree') is False:
            ck.disagree('decl.ircheck.unionsAgree', {'type': t}, 'classes of the compiled unions', rep)
        check_ty_known(ck, {'type': t}, rep)
        model_by_case[(t, l)] = rep
    ck.stat('default.grid.cases', len(meta))
    ck.stat('default.grid.accepted', len(accepted))
    # ---- accepted defaults through the generated classes -------------------------------------------
    from harness.suites.rt import outcome, model_outcome, same
    codec_cache = {}
    for (t, l), built, sname, err in build_batches(ck, accepted, lambda i, c: 'struct S%d\n    f %s = %s\n' % (i, c[0], c[1]),
                                                   risky=_risky_default):
        case = {'suite': 'default-grid', 'type': t, 'literal': l, 'specs': gc.specs(default_case_text(t, l))}
        ck.case(('dgrid-rt', t, l), nontrivial=True)
        rep = model_by_case[(t, l)]
        if built is None:
            ck.stat('default.grid.codegen_failed')
            sig = codegen_failure_sig('default-codegen', err)
            ck.failing_input('default accepted by the compiler, but python_types cannot produce / load the module that assigns it',
                             sig, dict(case, error=type(err).__name__, detail=(getattr(err, 'traceback', '') or str(err))[-400:]))
            # the model answers "no value" exactly when the generated expression cannot be evaluated
            if sig['why'] == 'unbound-name':
                if rep.get('py') is None:
                    ck.agree('decl.ircheck.pyval')
                else:
                    ck.disagree('decl.ircheck.pyval', case, 'module does not import', rep.get('py'))
            continue
        s_ir = built.api.namespaces['ns'].data_type_by_name[sname]
        field = s_ir.fields[0]
        for what, sig, detail in judge_default(built, s_ir, field):
            ck.failing_input('C10 default: ' + what, sig, dict(case, **detail))
        # correspondence: the default value and the validator's verdict
        codec = codec_cache.setdefault(id(built), values.Codec(built, ts))
        cls = built.cls_by_ref[ref_of(s_ir)]
        descr = getattr(cls, 'f')
        real_py = codec.to_tagged(descr.default)
        if rep.get('py') is not None and canon(rep['py']) == canon(real_py):
            ck.agree('decl.ircheck.pyval')
        else:
            ck.disagree('decl.ircheck.pyval', {k: v for k, v in case.items() if k != 'specs'}, real_py, rep.get('py'))
        real_v = outcome(lambda: codec.to_tagged(descr.validator.validate(descr.default)))
        mo = model_outcome(rep['validate']) if rep.get('validate') else ('protocol', rep)
        ck.hist('default.grid.runtime', real_v[0])
        if same(real_v, mo):
            ck.agree('decl.ircheck.validate')
        else:
            ck.disagree('decl.ircheck.validate', {k: v for k, v in case.items() if k != 'specs'}, list(real_v), list(mo))
    ck.sample({'default-grid': {'types': len(types), 'literals': len(lits), 'cases': len(meta), 'accepted': len(accepted),
                                'fastpath_selfchecks': n_self}})


# ==================================================================================================
# generated specs
# ==================================================================================================
_OVER = dict(py_safe=True, py_loadable=True, p_weird_name=0.0, p_route_path=0.0, p_route_exotic=0.0, p_stone_cfg=0.0)
PROFILES = {
    'rt': 'rt',
    'default': dict(_OVER, base='default', name='default-loadable', p_default=0.5),
    'fe': dict(_OVER, base='fe', name='fe-loadable'),
}


SEED_SPECS = [['c10_examples.stone'], ['c10_alias_member.stone']]


def build_generated(ck, n_by_profile):
    """[(profile, specs, Built)] for generated specs the real toolchain can compile, generate and import"""
    from harness import specgen
    import os
    out = []
    for group in SEED_SPECS:
        specs = [(p, open(os.path.join(core.VERIF, 'harness', 'specs', p), encoding='utf-8').read()) for p in group]
        try:
            out.append(('seed', specs, pygen.build_python(specs)))
            ck.agree('decl.ircheck.seed_specs')
        except Exception as e:  # noqa: BLE001 - a hand-written seed the toolchain under test no longer takes
            ck.disagree('decl.ircheck.seed_specs', {'files': group, 'specs': specs},
                        ['%s: %s' % (type(e).__name__, (getattr(e, 'traceback', '') or str(e))[-300:])], ['builds'])
    for prof, n in n_by_profile:
        for _ in range(n):
            model = specgen.gen_model(ck.rng, PROFILES[prof])
            specs = specgen.render(model, None)
            try:
                out.append((prof, specs, pygen.build_python(specs)))
            except Exception as e:  # noqa: BLE001
                ck.stat('spec_not_buildable')
                ck.hist('spec_not_buildable', '%s: %s' % (type(e).__name__, str(e)[:60]))
    ck.hist('generated.specs', len(out))
    return out


def descendants_of(api, dt):
    """structs that extend `dt`, directly or not"""
    from stone.ir import Struct
    out = []
    for ns in api.namespaces.values():
        for d in ns.data_types:
            if isinstance(d, Struct) and d is not dt:
                p = d.parent_type
                while p is not None:
                    if p is dt:
                        out.append(d)
                        break
                    p = p.parent_type
    return out


def ast_default_of(field):
    return field._ast_node.default


def suite_spec_defaults(ck, builts):
    """every defaulted field of every generated spec: direct oracle + model correspondence"""
    from stone.ir import Struct
    ts = values.TsRegistry()
    reqs, meta = [], []
    for prof, specs, built in builts:
        capi = capi_of(built.api)
        codec = values.Codec(built, ts)
        for ns in built.api.namespaces.values():
            for dt in ns.data_types:
                if not isinstance(dt, Struct):
                    continue
                for f in dt.fields:
                    if not f.has_default:
                        continue
                    irt = irdump.ir_ty(f.data_type)
                    tname = type(unwrap_ir(f.data_type)).__name__
                    case = {'suite': 'spec-default', 'profile': prof, 'struct': ref_of(dt), 'field': f.name, 'specs': specs}
                    ck.case(('sdef', ref_of(dt), f.name, repr(f.default)[:80], json.dumps(irt)), nontrivial=True)
                    ck.hist('default.spec.type', tname)
                    if f.data_type is not unwrap_ir(f.data_type):
                        ck.hist('default.spec.shape', 'through-alias')
                    if f.data_type.__class__.__name__ == 'Union' and f.data_type.namespace is not ns:
                        ck.hist('default.spec.shape', 'foreign-union')
                    for what, sig, detail in judge_default(built, dt, f):
                        ck.failing_input('C10 default: ' + what, sig, dict(case, **detail))
                    for sub in descendants_of(built.api, dt):
                        # the same field read on an instance of every class that inherits it (also in another namespace)
                        ck.case(('sdef-inh', ref_of(sub), ref_of(dt), f.name), nontrivial=True)
                        ck.hist('default.spec.shape', 'inherited' + ('-foreign' if sub.namespace is not dt.namespace else ''))
                        for what, sig, detail in judge_default(built, dt, f, via=sub):
                            ck.failing_input('C10 default (read on an instance of a subclass): ' + what, dict(sig, via='subclass'),
                                             dict(case, read_on=ref_of(sub), **detail))
                    lit = lit_tagged(ast_default_of(f))
                    pats, fmts, strings, ints = set(), set(), set(), set()
                    type_params(irt, pats, fmts)
                    collect_lit(lit, strings, ints)
                    ext, cext = make_tables(pats, fmts, strings, ints, ts)
                    reqs.append({'op': 'decl.ircheck.default', 'ty': irt, 'lit': lit, 'unions': capi['unions'], 'ext': ext, 'cext': cext})
                    meta.append((case, dt, f, built, codec))
    if True:
        from harness.suites.rt import outcome, model_outcome, same
        from stone.backends.python_helpers import fmt_var
        for (case, dt, f, built, codec), rep in zip(meta, ck.driver(reqs)):
            case = {k: v for k, v in case.items() if k != 'specs'}
            mo = _model_check_outcome(rep)
            real = ['ok', lit_tagged(f.default)]
            if mo == real:
                ck.agree('decl.ircheck.default')
            else:
                ck.disagree('decl.ircheck.default', dict(case, lit=lit_tagged(ast_default_of(f))), real, mo)
            descr = getattr(built.cls_by_ref[ref_of(dt)], fmt_var(f.name))
            real_py = codec.to_tagged(descr.default)
            if rep.get('py') is not None and canon(rep['py']) == canon(real_py):
                ck.agree('decl.ircheck.pyval')
            else:
                ck.disagree('decl.ircheck.pyval', case, real_py, rep.get('py'))
            real_v = outcome(lambda: codec.to_tagged(descr.validator.validate(descr.default)))
            mo = model_outcome(rep['validate']) if rep.get('validate') else ('protocol', rep)
            if same(real_v, mo):
                ck.agree('decl.ircheck.validate')
            else:
                ck.disagree('decl.ircheck.validate', case, list(real_v), list(mo))
            if rep.get('unionsAgree') is False:
                ck.disagree('decl.ircheck.unionsAgree', case, 'classes of the compiled unions', rep)
            check_ty_known(ck, case, rep)


# ==================================================================================================
# direct oracle: examples
# ==================================================================================================
class _Perms:
    def __init__(self, perms):
        self.permissions = list(perms)


def json_same(a, b):
    """parsed-JSON equality: objects unordered; an integer and a float of equal value are the same number;
    booleans are not numbers"""
    if isinstance(a, bool) or isinstance(b, bool):
        return isinstance(a, bool) and isinstance(b, bool) and a == b
    if isinstance(a, (int, float)) and isinstance(b, (int, float)):
        return a == b
    if type(a) is not type(b):
        return False
    if isinstance(a, list):
        return len(a) == len(b) and all(json_same(x, y) for x, y in zip(a, b))
    if isinstance(a, dict):
        return a.keys() == b.keys() and all(json_same(a[k], b[k]) for k in a)
    return a == b


def _leaf_text(o):
    return '<%s %s>' % (type(o).__name__, getattr(o, 'label', getattr(o, 'tag', getattr(o, 'tag_name', ''))))


def plain_json(v):
    """OrderedDicts etc. -> what json.loads would give (a leaf that is no JSON data at all - see non_json_leaf - is
    shown as text, so that a case can always be keyed / recorded)"""
    return json.loads(json.dumps(v, default=_leaf_text))


def non_json_leaf(v, path=()):
    """first part of a computed example that is not JSON data (null, boolean, finite number, text, array, object
    with text keys): (path, object) | None"""
    if v is None or isinstance(v, (bool, int, str)):
        return None
    if isinstance(v, float):
        return None if v == v and v not in (float('inf'), float('-inf')) else (path, v)
    if isinstance(v, (list, tuple)):
        for i, x in enumerate(v):
            r = non_json_leaf(x, path + (i,))
            if r:
                return r
        return None
    if isinstance(v, dict):
        for k, x in v.items():
            if not isinstance(k, str):
                return (path + (k,), k)
            r = non_json_leaf(x, path + (k,))
            if r:
                return r
        return None
    return (path, v)


def member_type_of(dt, name):
    """declared type of the member `name` of a struct (incl. inherited, subtypes' members) or union, else None"""
    from stone.ir import Struct
    for f in dt.all_fields:
        if f.name == name:
            return f.data_type
    if isinstance(dt, Struct) and dt.has_enumerated_subtypes():
        for sf in dt.get_enumerated_subtypes():
            t = member_type_of(sf.data_type, name)
            if t is not None:
                return t
    return None


def leaf_member(dt, path):
    """type-directed walk of an example document along `path`: (kind of the innermost struct / union on the way,
    declared type of its member that holds the end of the path) - the example that was embedded by reference"""
    from stone.ir import Alias, List, Map, Nullable, Struct, Union
    t, holder, member = dt, None, None
    for key in path:
        while isinstance(t, (Alias, Nullable)):
            t = t.data_type
        if isinstance(t, (Struct, Union)):
            if key == '.tag':
                return holder, member
            mt = member_type_of(t, key)
            h = 'struct' if isinstance(t, Struct) else 'union'
            if mt is None and isinstance(t, Union):
                # a struct member of a union is inlined next to ".tag": the key belongs to one of the struct members
                for f in t.all_fields:
                    inner = unwrap_ir(f.data_type)
                    if isinstance(inner, Struct) and member_type_of(inner, key) is not None:
                        mt, h = member_type_of(inner, key), 'struct'
                        break
            if mt is None:
                return holder, member
            t, holder, member = mt, h, mt
        elif isinstance(t, List):
            t = t.data_type
        elif isinstance(t, Map):
            t = t.value_data_type
        else:
            break
    return holder, member


def map_site(t):
    """where the first Map of a member type sits: 'map-below-alias' | 'map' | 'no-map'"""
    from stone.ir import Alias, List, Map, Nullable
    below_alias = False
    while True:
        if isinstance(t, Alias):
            below_alias = True
            t = t.data_type
        elif isinstance(t, (Nullable, List)):
            t = t.data_type
        elif isinstance(t, Map):
            return 'map-below-alias' if below_alias else 'map'
        else:
            return 'no-map'


def _b64_ok(s):
    try:
        base64.b64decode(s)
        return True
    except (binascii.Error, ValueError):
        return False


def unwrap_alias_only(t):
    from stone.ir import Alias
    while isinstance(t, Alias):
        t = t.data_type
    return t


def first_bad_leaf(t, doc):
    """Type-directed walk of an example document (reference semantics of the wire format, written here):
    the diagnostic class of the first leaf that strict decoding must refuse, else None."""
    from stone.ir import (Alias, Boolean, Bytes, Float32, Float64, Int32, Int64, List, Map, Nullable, String, Struct,
                          Timestamp, UInt32, UInt64, Union)
    if isinstance(t, Alias):
        return first_bad_leaf(t.data_type, doc)
    if isinstance(t, Nullable):
        return None if doc is None else first_bad_leaf(t.data_type, doc)
    if doc is None:
        return 'null-for-non-nullable'
    if isinstance(t, Boolean):
        return None if isinstance(doc, bool) else 'wrong-json-kind'
    if isinstance(t, (Int32, UInt32, Int64, UInt64)):
        if isinstance(doc, bool) or not isinstance(doc, int):
            return None if isinstance(doc, bool) else 'wrong-json-kind'
        lo = t.minimum if t.min_value is None else t.min_value
        hi = t.maximum if t.max_value is None else t.max_value
        return None if lo <= doc <= hi else 'integer-out-of-range'
    if isinstance(t, (Float32, Float64)):
        if isinstance(doc, bool) or not isinstance(doc, (int, float)):
            return None if isinstance(doc, bool) else 'wrong-json-kind'
        try:
            x = float(doc)
        except OverflowError:
            return 'float-out-of-range'
        lo = t.minimum if t.min_value is None else t.min_value
        hi = t.maximum if t.max_value is None else t.max_value
        if x != x or x in (float('inf'), float('-inf')) or (lo is not None and x < lo) or (hi is not None and x > hi):
            return 'float-out-of-range'
        return None
    if isinstance(t, Bytes):
        return None if isinstance(doc, str) and _b64_ok(doc) else 'bytes-not-base64'
    if isinstance(t, String):
        if not isinstance(doc, str):
            return 'wrong-json-kind'
        if (t.max_length is not None and len(doc) > t.max_length) or (t.min_length is not None and len(doc) < t.min_length):
            return 'string-length'
        if isinstance(doc, str) and t.pattern:
            try:
                if not re.match(r'\A(?:' + t.pattern + r')\Z', doc):
                    return 'pattern-prefix' if re.match(t.pattern, doc) else 'pattern-mismatch'
            except re.error:
                return None
        return None
    if isinstance(t, Timestamp):
        try:
            datetime.datetime.strptime(doc, t.format)
            return None
        except (ValueError, TypeError):
            return 'timestamp-unparsable'
    if isinstance(t, List):
        if not isinstance(doc, list):
            return 'wrong-json-kind'
        if (t.max_items is not None and len(doc) > t.max_items) or (t.min_items is not None and len(doc) < t.min_items):
            return 'list-length'
        if isinstance(doc, list):
            for x in doc:
                r = first_bad_leaf(t.data_type, x)
                if r:
                    return r
        return None
    if isinstance(t, Map):
        if not isinstance(doc, dict):
            return 'wrong-json-kind'
        if isinstance(doc, dict):
            for k, x in doc.items():
                r = first_bad_leaf(t.key_data_type, k) or first_bad_leaf(t.value_data_type, x)
                if r:
                    return r
        return None
    if isinstance(t, Struct) and isinstance(doc, dict):
        st = t
        if t.has_enumerated_subtypes():
            tag = doc.get('.tag')
            for f in t.get_enumerated_subtypes():
                if f.name == tag:
                    return first_bad_leaf(f.data_type, {k: v for k, v in doc.items() if k != '.tag'})
            return None
        names = [f.name for f in st.all_fields]
        for k in doc:
            if k not in names and not k.startswith('.tag'):
                return 'unknown-key'
        for f in st.all_fields:
            if f.name in doc:
                r = first_bad_leaf(f.data_type, doc[f.name])
                if r:
                    return r
            elif not f.has_default and not isinstance(f.data_type, Nullable) and \
                    not (isinstance(unwrap_alias_only(f.data_type), Nullable)):
                return 'required-field-absent'
        return None
    if isinstance(t, Union) and isinstance(doc, dict):
        tag = doc.get('.tag')
        for c in chain(t):
            if c.catch_all_field is not None and c.catch_all_field.name == tag:
                return 'embeds-catch-all-tag'
        for f in t.all_fields:
            if f.name == tag:
                inner = unwrap_ir(f.data_type)
                if isinstance(inner, Struct) and not inner.has_enumerated_subtypes():
                    direct = f.data_type.data_type if isinstance(f.data_type, Nullable) else f.data_type
                    if tag in doc and tag not in [x.name for x in inner.all_fields]:
                        # the wire format flattens a struct member next to ".tag"; the document nests it under the tag
                        return 'struct-member-nested' if isinstance(direct, Struct) else 'struct-member-through-alias-nested'
                    return first_bad_leaf(inner, {k: v for k, v in doc.items() if k != '.tag'})
                if tag in doc:
                    return first_bad_leaf(f.data_type, doc[tag])
        return None
    return None


def first_difference(t, a, b):
    """diagnostic class of the first leaf where the re-encoded document `b` differs from the example `a`"""
    from stone.ir import Alias, Bytes, Float32, Float64, List, Map, Nullable, Struct, Timestamp, Union
    if json_same(a, b):
        return None
    if isinstance(t, (Alias, Nullable)):
        return first_difference(t.data_type, a, b)
    # The four "non-canonical spelling" classes are given only when the re-encoded leaf IS the canonical spelling of
    # the example's value (computed here with the reference libraries); any other difference at such a leaf is a
    # different failure and gets a different class.
    if isinstance(t, Timestamp):
        try:
            canonical = datetime.datetime.strptime(a, t.format).strftime(t.format)
        except (ValueError, TypeError):
            return 'timestamp-changed'
        return 'timestamp-noncanonical' if (canonical != a and b == canonical) else 'timestamp-changed'
    if isinstance(t, Bytes):
        try:
            canonical = base64.b64encode(base64.b64decode(a)).decode('ascii')
        except (binascii.Error, ValueError, TypeError):
            return 'bytes-changed'
        return 'bytes-noncanonical' if (canonical != a and b == canonical) else 'bytes-changed'
    if isinstance(a, bool) != isinstance(b, bool):
        if isinstance(a, bool) and isinstance(b, (int, float)) and b == int(a) and \
                (isinstance(b, float) == isinstance(t, (Float32, Float64))):
            return 'boolean-for-number'
        return 'boolean-number-confusion'
    if isinstance(t, (Float32, Float64)) and isinstance(a, int) and isinstance(b, float):
        try:
            return 'integer-not-representable-as-float' if b == float(a) else 'float-changed'
        except OverflowError:
            return 'float-changed'
    if isinstance(t, List) and isinstance(a, list) and isinstance(b, list) and len(a) == len(b):
        for x, y in zip(a, b):
            r = first_difference(t.data_type, x, y)
            if r:
                return r
    if isinstance(t, Map) and isinstance(a, dict) and isinstance(b, dict) and a.keys() == b.keys():
        for k in a:
            r = first_difference(t.value_data_type, a[k], b[k])
            if r:
                return r
    if isinstance(t, Struct) and isinstance(a, dict) and isinstance(b, dict):
        st = t
        if t.has_enumerated_subtypes():
            for f in t.get_enumerated_subtypes():
                if f.name == a.get('.tag'):
                    st = f.data_type
        if a.keys() != b.keys():
            return 'different-keys'
        for f in st.all_fields:
            if f.name in a:
                r = first_difference(f.data_type, a[f.name], b[f.name])
                if r:
                    return r
    if isinstance(t, Union) and isinstance(a, dict) and isinstance(b, dict):
        if a.keys() != b.keys():
            return 'different-keys'
        for f in t.all_fields:
            if f.name == a.get('.tag'):
                inner = unwrap_ir(f.data_type)
                if isinstance(inner, Struct) and not inner.has_enumerated_subtypes():
                    return first_difference(inner, {k: v for k, v in a.items() if k != '.tag'},
                                            {k: v for k, v in b.items() if k != '.tag'})
                if f.name in a:
                    return first_difference(f.data_type, a[f.name], b[f.name])
    return 'other'


def is_implicit_catch_all_example(dt, label):
    from stone.ir import Union
    if not isinstance(dt, Union):
        return False
    if label in dt._raw_examples:
        return False
    for c in chain(dt):
        if c.catch_all_field is not None and c.catch_all_field.name == label:
            return True
    return False


def embeds_catch_all(t, doc):
    """Type-directed walk: does the example document use the catch-all tag of an open union somewhere (at the top
    or in a member)? Such a document is what a receiver may meet from a newer sender, never what a sender of
    this version of the spec produces: the strict decoder refuses it by design."""
    from stone.ir import Alias, List, Map, Nullable, Struct, Union
    if isinstance(t, (Alias, Nullable)):
        return doc is not None and embeds_catch_all(t.data_type, doc)
    if isinstance(t, List):
        return isinstance(doc, list) and any(embeds_catch_all(t.data_type, x) for x in doc)
    if isinstance(t, Map):
        return isinstance(doc, dict) and any(embeds_catch_all(t.value_data_type, x) for x in doc.values())
    if isinstance(t, Struct) and isinstance(doc, dict):
        st = t
        if t.has_enumerated_subtypes():
            for f in t.get_enumerated_subtypes():
                if f.name == doc.get('.tag'):
                    return embeds_catch_all(f.data_type, {k: v for k, v in doc.items() if k != '.tag'})
            return False
        return any(f.name in doc and embeds_catch_all(f.data_type, doc[f.name]) for f in st.all_fields)
    if isinstance(t, Union) and isinstance(doc, dict):
        tag = doc.get('.tag')
        for c in chain(t):
            if c.catch_all_field is not None and c.catch_all_field.name == tag:
                return True
        for f in t.all_fields:
            if f.name == tag:
                inner = unwrap_ir(f.data_type)
                if isinstance(inner, Struct) and not inner.has_enumerated_subtypes() and tag not in doc:
                    return embeds_catch_all(inner, {k: v for k, v in doc.items() if k != '.tag'})
                return tag in doc and embeds_catch_all(f.data_type, doc[tag])
    return False


NOT_JUDGED = 'not-judged'


def judge_example(built, dt, label, example_value, perms):
    """The property on one computed example: (problems, decoded value | None, re-encoded | None);
    problems is NOT_JUDGED for a document that uses a catch-all tag (explicitly written: `f = other`)"""
    from stone.backends.python_rsrc import stone_serializers as ss
    validator = built.validator_for(dt)
    kind = type(dt).__name__.lower()
    leaf = non_json_leaf(example_value)
    if leaf is not None:
        # "is a JSON document": an unevaluated reference (or any other object of the compiler) left in the value
        path, o = leaf
        holder, mt = leaf_member(dt, path)
        return ([('computed example is not a JSON document: it holds a %s object' % type(o).__name__,
                  {'kind': 'example-not-json', 'leaf': type(o).__name__, 'of': holder or kind,
                   'site': map_site(mt) if mt is not None else 'unknown'},
                  {'at': list(path), 'leaf': _leaf_text(o), 'example_of': kind})], None, None)
    doc = plain_json(example_value)
    p = _Perms(perms) if perms else None
    if embeds_catch_all(dt, doc):
        return (NOT_JUDGED, None, None)
    try:
        obj = ss.json_compat_obj_decode(validator, plain_json(doc), caller_permissions=p, strict=True)
    except Exception as e:  # noqa: BLE001
        why = first_bad_leaf(dt, doc) or 'unclassified'
        return ([('computed example does not decode strictly as its type',
                  {'kind': 'example-decode', 'why': why, 'exc': type(e).__name__},
                  {'error': '%s: %s' % (type(e).__name__, str(e)[:200]), 'of': kind})],
                None, None)
    try:
        back = plain_json(ss.json_compat_obj_encode(validator, obj, caller_permissions=p))
    except Exception as e:  # noqa: BLE001
        return ([('decoded example cannot be encoded', {'kind': 'example-encode', 'why': type(e).__name__},
                  {'error': '%s: %s' % (type(e).__name__, str(e)[:200]), 'of': kind})], obj, None)
    if not json_same(doc, back):
        why = first_difference(dt, doc, back) or 'other'
        return ([('decoded example encodes to a different document', {'kind': 'example-roundtrip', 'why': why},
                  {'encoded': back, 'of': kind})], obj, back)
    problems = judge_compact(built, dt, label, doc, validator, p)
    return (problems + judge_rereading(built, dt, label, doc, validator, p), obj, back)


_COMPACT = {}


def compact_examples_of(dt):
    """dt.get_examples(compact=True), computed once per type (every call deep-copies all examples)"""
    hit = _COMPACT.get(id(dt))
    if hit is None or hit[0] is not dt:
        if len(_COMPACT) > 400:
            _COMPACT.clear()
        hit = _COMPACT[id(dt)] = (dt, dt.get_examples(compact=True))
    return hit[1]


_REREAD = {}
REREAD_STATS = {'examples_read_again_after_compact': 0, 'of_them_compacted_below_top_level': 0}


def reread_examples_of(dt):
    """dt.get_examples() read once more AFTER the compact form of the same type has been read in this process (what a
    second backend, or a checker, meets after a documentation-style backend): (examples | None, exception | None)"""
    hit = _REREAD.get(id(dt))
    if hit is None or hit[0] is not dt:
        if len(_REREAD) > 400:
            _REREAD.clear()
        try:
            compact_examples_of(dt)
            compact_examples_of(dt)         # a reader of the compact form may well come by twice
        except Exception:  # noqa: BLE001 - reported by judge_compact
            pass
        try:
            res = (dt.get_examples(), None)
        except Exception as e:  # noqa: BLE001
            res = (None, e)
        hit = _REREAD[id(dt)] = (dt, res)
    return hit[1]


def judge_rereading(built, dt, label, doc, validator, p):
    """"every example the compiler computes": the example is computed once, when the spec is compiled; whoever reads
    it, in whatever form and order, every later get_examples() must still hand out that document. Judged on the
    property itself first (the later reading decodes strictly and encodes back to itself), then against the first
    reading. Reached only for an example whose first reading holds."""
    from stone.backends.python_rsrc import stone_serializers as ss
    if label is None:
        return []
    kind = type(dt).__name__.lower()
    again, exc = reread_examples_of(dt)
    if exc is not None:
        return [('get_examples() raises once the compact form has been read', {'kind': 'example-reread', 'why': 'raises',
                 'exc': type(exc).__name__}, {'error': repr(exc)[:200], 'of': kind})]
    ex = again.get(label)
    if ex is None:
        return [('an example is gone from get_examples() once the compact form has been read',
                 {'kind': 'example-reread', 'why': 'label-missing'}, {'of': kind})]
    if non_json_leaf(ex.value) is not None:
        return [('get_examples() hands out something that is no JSON document once the compact form has been read',
                 {'kind': 'example-reread', 'why': 'not-json'}, {'reread': plain_json(ex.value), 'of': kind})]
    doc2 = plain_json(ex.value)
    REREAD_STATS['examples_read_again_after_compact'] += 1
    try:
        cex = compact_examples_of(dt).get(label)
        if cex is not None and isinstance(cex.value, dict) and plain_json(cex.value) != doc:
            REREAD_STATS['of_them_compacted_below_top_level'] += 1
    except Exception:  # noqa: BLE001
        pass
    if doc2 == doc:
        return []
    sites = []
    compaction_sites(dt, doc, doc2, sites)
    where = ('compacted-' + sorted(set(sites))[0]) if sites else 'other'
    order = 'get_examples(); get_examples(compact=True) twice; get_examples()'
    try:
        obj = ss.json_compat_obj_decode(validator, plain_json(doc2), caller_permissions=p, strict=True)
        back = plain_json(ss.json_compat_obj_encode(validator, obj, caller_permissions=p))
    except Exception as e:  # noqa: BLE001
        return [('after a reading of the compact form, get_examples() returns a document that does not decode strictly as its type',
                 {'kind': 'example-reread-decode', 'why': where, 'exc': type(e).__name__},
                 {'first_reading': doc, 'later_reading': doc2, 'readings': order,
                  'error': '%s: %s' % (type(e).__name__, str(e)[:200]), 'of': kind})]
    if not json_same(doc2, back):
        return [('after a reading of the compact form, get_examples() returns a document that encodes back to another document',
                 {'kind': 'example-reread-roundtrip', 'why': where},
                 {'first_reading': doc, 'later_reading': doc2, 'encoded': back, 'readings': order, 'of': kind})]
    return [('the computed example changes between two readings of get_examples() in one process',
             {'kind': 'example-reread-changed', 'why': where},
             {'first_reading': doc, 'later_reading': doc2, 'readings': order, 'of': kind})]


def compaction_sites(t, full, comp, out):
    """type-directed walk of an example and its compact form: the kinds of types at which `{".tag": x}` became `x`"""
    from stone.ir import Alias, List, Map, Nullable, Struct, Union, Void
    while isinstance(t, (Alias, Nullable)):
        t = t.data_type
    if isinstance(full, dict) and isinstance(comp, str):
        if isinstance(t, Union):
            mt = member_type_of(t, comp)
            out.append('union-void-tag' if isinstance(unwrap_alias_only(mt), Void) else
                       ('union-null-member' if isinstance(unwrap_alias_only(mt), Nullable) else 'union-member-with-nothing-set'))
        else:
            out.append('struct-tree' if isinstance(t, Struct) and t.has_enumerated_subtypes() else type(t).__name__.lower())
        return
    if isinstance(t, List) and isinstance(full, list) and isinstance(comp, list):
        for a, b in zip(full, comp):
            compaction_sites(t.data_type, a, b, out)
    elif isinstance(t, Map) and isinstance(full, dict) and isinstance(comp, dict):
        for k in full:
            if k in comp:
                compaction_sites(t.value_data_type, full[k], comp[k], out)
    elif isinstance(t, (Struct, Union)) and isinstance(full, dict) and isinstance(comp, dict):
        st = t
        if isinstance(t, Struct) and t.has_enumerated_subtypes():
            for sf in t.get_enumerated_subtypes():
                if sf.name == full.get('.tag'):
                    st = sf.data_type
        for k in full:
            if k != '.tag' and k in comp:
                mt = member_type_of(st, k)
                if mt is None and isinstance(t, Union):
                    # a struct member of a union is inlined next to ".tag"
                    tagt = member_type_of(t, full.get('.tag'))
                    inner = unwrap_ir(tagt) if tagt is not None else None
                    mt = member_type_of(inner, k) if isinstance(inner, Struct) else None
                if mt is not None:
                    compaction_sites(mt, full[k], comp[k], out)


def judge_compact(built, dt, label, doc, validator, p):
    """get_examples(compact=True): "union members of void type are converted to their compact representation ... just
    the tag as a string". Judged only for an example whose full form holds: the compact form decodes strictly as the
    type and the decoded value encodes to the full form."""
    from stone.backends.python_rsrc import stone_serializers as ss
    if label is None:
        return []
    kind = type(dt).__name__.lower()
    try:
        ex = compact_examples_of(dt).get(label)
    except Exception as e:  # noqa: BLE001
        return [('get_examples(compact=True) raises', {'kind': 'compact-example', 'why': 'raises', 'exc': type(e).__name__},
                 {'error': repr(e)[:200], 'of': kind})]
    if ex is None or non_json_leaf(ex.value) is not None:
        return []
    cdoc = plain_json(ex.value)
    if cdoc == doc:
        return []
    sites = []
    compaction_sites(dt, doc, cdoc, sites)
    legit = {'union-void-tag', 'union-null-member'}
    odd = [x for x in sites if x not in legit]
    where = 'only-void-and-null-tags-compacted' if sites and not odd else \
        ({'struct-tree': 'struct-tree-tag-compacted', 'union-member-with-nothing-set': 'struct-member-tag-compacted'}.get(odd[0], 'other')
         if odd else 'other')
    try:
        obj = ss.json_compat_obj_decode(validator, plain_json(cdoc), caller_permissions=p, strict=True)
        back = plain_json(ss.json_compat_obj_encode(validator, obj, caller_permissions=p))
    except Exception as e:  # noqa: BLE001
        return [('compact form of a computed example does not decode strictly as its type',
                 {'kind': 'compact-example-decode', 'why': where, 'exc': type(e).__name__},
                 {'compact': cdoc, 'error': '%s: %s' % (type(e).__name__, str(e)[:200]), 'of': kind})]
    if not json_same(doc, back):
        return [('compact form of a computed example decodes to a value that encodes to another document than the example',
                 {'kind': 'compact-example-roundtrip', 'why': where}, {'compact': cdoc, 'encoded': back, 'of': kind})]
    return []


def report_example(ck, problems, case):
    """hand the verdict of judge_example to the Check object; the problems that were reported"""
    if problems is NOT_JUDGED:
        ck.stat('example.embeds_catch_all_not_judged')
        return []
    for what, sig, detail in problems:
        ck.failing_input('C10 example: ' + what, sig, dict(case, **detail))
    return problems


def declared_callers(api):
    out = set()
    for ns in api.namespaces.values():
        for dt in ns.data_types:
            for f in dt.fields:
                if f.omitted_caller:
                    out.add(f.omitted_caller)
    return sorted(out)


def example_shape(dt, label):
    """histogram key: what the raw example exercises"""
    from stone.frontend.ast import AstExampleRef
    from stone.ir import Struct
    raw = dt._raw_examples.get(label)
    if raw is None:
        return 'implicit-void-tag'
    feats = []
    if isinstance(dt, Struct):
        feats.append('subtypes' if dt.has_enumerated_subtypes() else ('inherited' if dt.parent_type else 'struct'))
    else:
        feats.append('union')
    for f in raw.fields.values():
        v = f.value
        if isinstance(v, AstExampleRef):
            feats.append('ref')
        elif isinstance(v, list):
            feats.append('list-of-refs' if any(isinstance(x, AstExampleRef) for x in v) else 'list')
        elif isinstance(v, dict):
            feats.append('map-of-refs' if any(isinstance(x, AstExampleRef) for x in v.values()) else 'map')
        elif v is None:
            feats.append('null')
    return '+'.join(sorted(set(feats)))


def suite_spec_examples(ck, builts):
    """every label of every struct and union of generated specs: direct oracle; reference-free ones also vs the model"""
    from stone.ir import Struct, Union
    reqs, meta = [], []
    ts = values.TsRegistry()
    for prof, specs, built in builts:
        perms = declared_callers(built.api)
        capi = None
        for ns in built.api.namespaces.values():
            for dt in ns.data_types:
                examples = dt.get_examples()
                for label, ex in examples.items():
                    key = ('sex', ref_of(dt), label, json.dumps(plain_json(ex.value), sort_keys=True)[:300])
                    if is_implicit_catch_all_example(dt, label):
                        ck.case(key, nontrivial=False)
                        ck.stat('example.implicit_catch_all_skipped')
                        continue
                    ck.case(key, nontrivial=True)
                    ck.hist('example.spec.shape', example_shape(dt, label))
                    case = {'suite': 'spec-example', 'profile': prof, 'type': ref_of(dt), 'label': label,
                            'example': plain_json(ex.value), 'perms': perms, 'specs': specs}
                    problems, _obj, _back = judge_example(built, dt, label, ex.value, perms)
                    report_example(ck, problems, case)
                    # model: flat (reference-free) raw examples of plain structs and unions, caller without permissions
                    raw = dt._raw_examples.get(label)
                    if raw is None or perms:
                        continue
                    if isinstance(dt, Struct) and dt.has_enumerated_subtypes():
                        continue
                    exv = [[name, exval_tagged(f.value)] for name, f in raw.fields.items()]
                    if any(_has_ref(v) for _n, v in exv):
                        continue
                    if capi is None:
                        capi = capi_of(built.api)
                    pats, fmts, strings, ints = set(), set(), set(), set()
                    capi_params(capi, pats, fmts)
                    for _n, v in exv:
                        collect_exval(v, strings, ints)
                    collect_json(plain_json(ex.value), strings, ints)
                    ext, cext = make_tables(pats, fmts, strings, ints, ts)
                    reqs.append({'op': 'decl.ircheck.example', 'api': capi, 'cls': ref_of(dt),
                                 'kind': 'struct' if isinstance(dt, Struct) else 'union', 'ex': exv, 'ext': ext, 'cext': cext})
                    meta.append((built, dt, label, ex, {k: v for k, v in case.items() if k != 'specs'}))
    for (built, dt, label, ex, case), rep in zip(meta, ck.driver(reqs)):
        compare_example_model(ck, built, dt, ex.value, case, rep, ['ok'])


def _has_ref(v):
    if v[0] == 'r':
        return True
    if v[0] == 'l':
        return any(_has_ref(x) for x in v[1])
    if v[0] == 'm':
        return any(_has_ref(x) for _k, x in v[1])
    return False


def compare_example_model(ck, built, dt, real_doc, case, rep, real_check, has_ref=False):
    """model's check / document / strict decode + encode vs the real ones"""
    from stone.backends.python_rsrc import stone_serializers as ss
    from harness.suites.rt import outcome
    mo = _model_check_outcome(rep)
    mo = mo[:1] if mo[0] in ('ok', 'invalid') else mo
    check_ty_known(ck, case, rep)
    if mo == ['ok'] and rep.get('doc') is None and has_ref:
        # the member check passed and the value refers to another example: following references is outside the model
        ck.stat('example.model.reference_unmodelled')
        return
    if mo != real_check:
        ck.disagree('decl.ircheck.example', case, real_check, mo)
        return
    ck.agree('decl.ircheck.example')
    if rep.get('envWF') is False or rep.get('envWFX') is False or rep.get('unionsAgree') is False:
        # hypotheses of the theorems: must hold of the class tables of every accepted spec
        ck.disagree('decl.ircheck.envwf', case, 'accepted by the compiler', {k: rep.get(k) for k in ('envWF', 'envWFX', 'unionsAgree')})
    elif rep.get('envWF') is True:
        ck.agree('decl.ircheck.envwf')
    if real_check != ['ok']:
        return
    if rep.get('doc') is None:
        ck.disagree('decl.ircheck.exampledoc', case, plain_json(real_doc), None)
        return
    mdoc = tagged_to_json(rep['doc'])
    rdoc = plain_json(real_doc)
    if mdoc == rdoc and list(_key_orders(mdoc)) == list(_key_orders(rdoc)) and \
            canon(json_to_tagged(mdoc)) == canon(json_to_tagged(rdoc)):
        ck.agree('decl.ircheck.exampledoc')
    else:
        ck.disagree('decl.ircheck.exampledoc', case, rdoc, mdoc)
        return
    if built is None:
        return
    run = rep.get('run') or {}
    validator = built.validator_for(dt)
    real_dec = outcome(lambda: ss.json_compat_obj_decode(validator, plain_json(rdoc), strict=True))
    mdec = run.get('decode') or {}
    mkind = 'ok' if 'ok' in mdec else ('verr' if 'verr' in mdec else ('crash' if 'crash' in mdec else 'protocol'))
    if real_dec[0] != mkind:
        ck.disagree('decl.ircheck.example.decode', case, [real_dec[0], repr(real_dec[1])[:200]], mdec)
        return
    ck.agree('decl.ircheck.example.decode')
    if real_dec[0] != 'ok':
        return
    real_enc = outcome(lambda: json_to_tagged(ss.json_compat_obj_encode(validator, real_dec[1])))
    menc = run.get('encode') or {}
    if real_enc[0] == 'ok' and 'ok' in menc and canon(real_enc[1]) == canon(menc['ok']):
        ck.agree('decl.ircheck.example.encode')
    elif real_enc[0] != 'ok' and real_enc[0] in menc:
        ck.agree('decl.ircheck.example.encode')
    else:
        ck.disagree('decl.ircheck.example.encode', case, list(real_enc), menc)


def _key_orders(j):
    """member order of every object of a document (the computed example is an OrderedDict: order is observable)"""
    if isinstance(j, dict):
        yield list(j.keys())
        for v in j.values():
            yield from _key_orders(v)
    elif isinstance(j, list):
        for v in j:
            yield from _key_orders(v)


# ==================================================================================================
# suite: example grid (one member)
# ==================================================================================================
def _example_text(kind, t, v, name='S'):
    if kind == 'struct':
        return 'struct %s\n    f %s\n    example default\n        f = %s\n' % (name, t, v)
    return 'union %s\n    f%s\n    example default\n        f = %s\n' % (name, ' ' + t if t else '', v)


def suite_example_grid(ck):
    types, vals = example_types(), example_values()
    ts = values.TsRegistry()
    gc = grid_compiler(ck)
    if gc is None:
        return
    parsed = {}
    for v in vals:
        try:
            ast = parse_only('namespace ns\nstruct S\n    f Int32\n    example default\n        f = %s\n' % v)
            node = [n for n in ast if getattr(n, 'name', None) == 'S'][0]
            parsed[v] = exval_tagged(node.examples['default'].fields['f'].value)
        except Exception:  # noqa: BLE001 - a value the grammar does not accept as an example value
            parsed[v] = None
            ck.stat('example.grid.unparsable_value')
    reqs, meta, accepted = [], [], []
    for kind in ('struct', 'union'):
        # a union member may be void: the bare tag and an alias of Void (no struct field can)
        for t in types + (['', 'VoidAlias'] if kind == 'union' else []):
            if kind == 'union' and (t.startswith('Float32(') or t.startswith('UInt32(') or t.startswith('Int64(')):
                continue                                  # the union half repeats a representative part of the types
            base_text = _example_text(kind, t, 'null').split('    example')[0]
            base = gc.compile(base_text)
            if base[0] != 'ok':
                # every type of this grid is one the compiler accepts for a struct field and for a union member
                ck.disagree('decl.ircheck.grid_types', {'kind': kind, 'type': t, 'spec': base_text}, list(base[:2]), ['ok'])
                continue
            ck.agree('decl.ircheck.grid_types')
            capi = capi_of(base[1])
            pats, fmts = set(), set()
            capi_params(capi, pats, fmts)
            for v in vals:
                if parsed[v] is None or not keep_pair(ck, t, v, 0.04 if kind == 'struct' else 0.02):
                    continue
                if kind == 'union' and ck.tier != 'thorough' and ck.rng.random() < 0.5:
                    continue
                out = gc.compile(_example_text(kind, t, v))
                real_check = [out[0]] if out[0] != 'crash' else ['crash', out[1]]
                strings, ints = {'f'}, set()
                collect_exval(parsed[v], strings, ints)
                ext, cext = make_tables(pats, fmts, strings, ints, ts)
                reqs.append({'op': 'decl.ircheck.example', 'api': capi, 'cls': 'ns.S', 'kind': kind, 'ex': [['f', parsed[v]]],
                             'ext': ext, 'cext': cext})
                meta.append((kind, t, v, real_check, out[0] == 'ok'))
                if out[0] == 'ok':
                    accepted.append((kind, t, v))
    reps = ck.driver(reqs)
    rep_by = {}
    for (kind, t, v, real_check, ok), rep in zip(meta, reps):
        ck.case(('egrid', kind, t, v), nontrivial=True)
        ck.hist('example.grid.outcome', real_check[0] if real_check[0] != 'crash' else 'crash:' + real_check[1])
        ck.hist('example.grid.type', kind + ':' + _type_family(t))
        case = {'suite': 'example-grid', 'kind': kind, 'type': t, 'value': v}
        if ok:
            rep_by[(kind, t, v)] = rep        # documents / decoding are compared once the classes are loaded
        else:
            compare_example_model(ck, None, None, None, case, rep, real_check, _has_ref(parsed[v]))
    ck.stat('example.grid.cases', len(meta))
    ck.stat('example.grid.accepted', len(accepted))
    for (kind, t, v), built, sname, err in build_batches(ck, accepted, lambda i, c: _example_text(c[0], c[1], c[2], 'S%d' % i)):
        case = {'suite': 'example-grid', 'kind': kind, 'type': t, 'value': v, 'specs': gc.specs(_example_text(kind, t, v))}
        ck.case(('egrid-rt', kind, t, v), nontrivial=True)
        rep = rep_by[(kind, t, v)]
        slim = {k: case[k] for k in ('suite', 'kind', 'type', 'value')}
        if built is None:
            ck.stat('example.grid.codegen_failed')
            ck.hist('example.grid.codegen_failed', type(err).__name__)
            out = gc.compile(_example_text(kind, t, v))
            dt = out[1].namespaces['ns'].data_type_by_name['S']
            compare_example_model(ck, None, dt, dt.get_examples()['default'].value, slim, rep, ['ok'], _has_ref(parsed[v]))
            continue
        dt = built.api.namespaces['ns'].data_type_by_name[sname]
        ex = dt.get_examples()['default']
        problems, _o, _b = judge_example(built, dt, 'default', ex.value, [])
        ck.hist('example.grid.roundtrip', NOT_JUDGED if problems is NOT_JUDGED else
                ('ok' if not problems else problems[0][1]['kind'] + ':' + problems[0][1]['why']))
        report_example(ck, problems, dict(case, example=plain_json(ex.value)))
        # the model was asked about class ns.S; the batch calls it ns.S<i>: documents do not mention the class
        compare_example_model(ck, built, dt, ex.value, slim, rep, ['ok'], _has_ref(parsed[v]))


# ==================================================================================================
# suite: reference grid - every shape of a referenced type x every container x every position an example value can
# occur in x declaration order (direct oracle only: following references is outside the model)
# ==================================================================================================
REF_PRELUDE = '''namespace ns

import other_ns

struct P
    x Int32
    y Int32 = 7
    example default
        x = 1
    example two
        x = 2
        y = 3

struct PC extends P
    z String?
    example default
        x = 5
    example full
        x = 6
        z = "zz"

struct R
    union
        a RA
        b RB
    k Int32 = 1
    example default
        a = default
    example viab
        b = default

struct RA extends R
    q String
    example default
        q = "q"

struct RB extends R
    ps List(P)
    example default
        ps = [default, two]
        k = 2

union U
    v
    p P
    n Int32
    r R
    np P?
    example default
        p = two
    example num
        n = 3
    example viar
        r = viab
    example nul
        np = null
    example some
        np = default

union_closed UC
    c1
    c2 String
    example viac2
        c2 = "s"

union UX extends U
    x2
    example default
        x2 = null
    example inh
        n = 4

alias PA = P
alias PAA = PA
alias PN = P?
alias RAl = R
alias UA = U
alias UN = U?
alias FPA = other_ns.FP

'''
REF_OTHER = ('namespace other_ns\n\nstruct FP\n    z Int32\n    example default\n        z = 9\n\n'
             'union FU\n    w\n    s String\n    example es\n        s = "t"\n')

# (type text, labels that denote an example of it, may `null` be written)
REF_TARGETS = [
    ('P', ['default', 'two']), ('PC', ['default', 'full']), ('PA', ['default', 'two']), ('PAA', ['two']),
    ('P?', ['default', 'null']), ('PN', ['two', 'null']),
    ('R', ['default', 'viab']), ('RAl', ['viab']), ('R?', ['default', 'null']), ('RA', ['default']),
    ('U', ['default', 'num', 'v', 'viar', 'nul', 'some']), ('UA', ['num', 'v']), ('U?', ['default', 'null', 'v']),
    ('UN', ['viar', 'null']), ('UC', ['c1', 'viac2']), ('UX', ['x2', 'inh', 'v']),
    ('other_ns.FP', ['default']), ('other_ns.FU', ['w', 'es']), ('FPA', ['default']),
]

REF_POSITIONS = ('struct', 'union', 'inherited', 'subtype', 'union-inherited', 'nested')


def ref_containers(t, labels):
    """[(container name, alias declarations ('%s' = case suffix), member type text, value text)]"""
    a, b = labels[0], labels[-1]
    nn = [l for l in labels if l != 'null']
    out = [('T', '', t, l) for l in labels]
    out += [('List', '', 'List(%s)' % t, '[%s, %s]' % (a, b)), ('List', '', 'List(%s)' % t, '[]'),
            ('List?', '', 'List(%s)?' % t, '[%s]' % b), ('List?', '', 'List(%s)?' % t, 'null'),
            ('ListList', '', 'List(List(%s))' % t, '[[%s], [], [%s, %s]]' % (a, b, a)),
            ('Map', '', 'Map(String, %s)' % t, '{"k": %s, "j": %s}' % (a, b)), ('Map', '', 'Map(String, %s)' % t, '{}'),
            ('Map?', '', 'Map(String, %s)?' % t, '{"k": %s}' % b), ('Map?', '', 'Map(String, %s)?' % t, 'null'),
            ('MapList', '', 'Map(String, List(%s))' % t, '{"k": [%s, %s]}' % (a, b)),
            ('alias-List', 'alias CL%%s = List(%s)\n' % t, 'CL%s', '[%s, %s]' % (b, a)),
            ('alias-List?', 'alias CLN%%s = List(%s)?\n' % t, 'CLN%s', '[%s]' % a),
            ('alias-Map', 'alias CM%%s = Map(String, %s)\n' % t, 'CM%s', '{"k": %s}' % a),
            ('nullable-alias-Map', 'alias CM%%s = Map(String, %s)\n' % t, 'CM%s?', '{"k": %s, "j": %s}' % (b, a)),
            ('alias-Map?', 'alias CMN%%s = Map(String, %s)?\n' % t, 'CMN%s', '{"k": %s}' % b),
            ('alias-MapList', 'alias CML%%s = Map(String, List(%s))\n' % t, 'CML%s', '{"k": [%s], "j": []}' % b),
            ('Map-of-alias-List', 'alias CL%%s = List(%s)\n' % t, 'Map(String, CL%s)', '{"k": [%s, %s]}' % (a, b)),
            ('List-of-alias-List', 'alias CL%%s = List(%s)\n' % t, 'List(CL%s)', '[[%s]]' % b)]
    if not t.endswith('?') and t not in ('PN', 'UN'):
        out += [('List-of-nullable', '', 'List(%s?)' % t, '[%s, null]' % nn[0]),
                ('Map-of-nullable', '', 'Map(String, %s?)' % t, '{"k": null, "j": %s}' % nn[-1])]
    return out


def ref_case_text(i, case):
    """definition text of one case; every name it declares ends in _<i>"""
    pos, _t, _cname, decl, mty, val = case
    sfx = '_%d' % i
    decl = decl % sfx if decl else ''
    mty = mty % sfx if '%s' in mty else mty
    ex = '    example default\n        f = %s\n' % val
    if pos == 'struct':
        body = 'struct S%s\n    f %s\n%s' % (sfx, mty, ex)
    elif pos == 'union':
        body = 'union S%s\n    f %s\n%s' % (sfx, mty, ex)
    elif pos == 'inherited':
        body = 'struct B%s\n    f %s\n\nstruct S%s extends B%s\n    g Int32\n%s        g = 1\n' % (sfx, mty, sfx, sfx, ex)
    elif pos == 'subtype':
        body = ('struct T%s\n    union\n        s S%s\n    f %s\n    example default\n        s = default\n\n'
                'struct S%s extends T%s\n    g Int32\n%s        g = 1\n' % (sfx, sfx, mty, sfx, sfx, ex))
    elif pos == 'union-inherited':
        body = 'union B%s\n    f %s\n\nunion S%s extends B%s\n    g Int32\n%s' % (sfx, mty, sfx, sfx, ex)
    else:   # nested: the example is embedded by reference, in a struct, a list and flattened into a union
        body = ('struct S%s\n    f %s\n%s\nstruct H%s\n    h S%s\n    hs List(S%s)\n    example default\n        h = default\n'
                '        hs = [default, default]\n\nunion HU%s\n    h S%s\n    example default\n        h = default\n'
                % (sfx, mty, ex, sfx, sfx, sfx, sfx, sfx))
    return decl + body + '\n'


_REFGRID = None


def ref_compiler(ck):
    global _REFGRID
    if _REFGRID is None:
        try:
            gc = GridCompiler([('ns.stone', REF_PRELUDE), ('other_ns.stone', REF_OTHER)])
            out = gc.compile('')
        except ValueError as e:
            out = ('invalid', str(e)[:200])
        if out[0] != 'ok':
            ck.disagree('decl.ircheck.grid_prelude', {'what': 'prelude of the reference grid',
                                                      'specs': [['ns.stone', REF_PRELUDE], ['other_ns.stone', REF_OTHER]]},
                        list(out[:2]), ['ok'])
            return None
        _REFGRID = gc
    ck.agree('decl.ircheck.grid_prelude')
    return _REFGRID


def suite_reference_grid(ck):
    """References to examples: shape of the referenced type x container x position x declaration order. Every example
    of an accepted case goes through the direct oracle; a case the compiler does not accept is a disagreement with
    what the grid takes for granted (suite decl.ircheck.refgrid_accepted), not a failing input of the property."""
    from stone.ir import Struct, Union
    gc = ref_compiler(ck)
    if gc is None:
        return
    cases = []
    for t, labels in REF_TARGETS:
        for cname, decl, mty, val in ref_containers(t, labels):
            for pos in REF_POSITIONS:
                for first in (False, True):
                    full = pos in ('struct', 'union') and not first
                    if full or ck.tier == 'thorough' or ck.rng.random() < 0.22:
                        cases.append(((pos, t, cname, decl, mty, val), first))
    accepted = {False: [], True: []}
    for n, (case, first) in enumerate(cases):
        out = gc.compile(ref_case_text(0, case), first)
        pos, t, cname = case[0], case[1], case[2]
        ck.case(('refgrid', case, first), nontrivial=True)
        ck.hist('refgrid.outcome', out[0] if out[0] != 'crash' else 'crash:' + out[1])
        # every case of this grid is a legal example (each was accepted by the compiler the grid was written for): a
        # refusal or an exception is compared, like the other things the grids take for granted
        if out[0] == 'ok':
            ck.agree('decl.ircheck.refgrid_accepted')
        else:
            ck.disagree('decl.ircheck.refgrid_accepted', {'position': pos, 'target': t, 'container': cname, 'case_first': first,
                                                          'specs': gc.specs(ref_case_text(0, case), first)}, list(out[:2]), ['ok'])
        if out[0] == 'ok':
            accepted[first].append(case)
            ck.hist('refgrid.accepted.position', pos + ('/case-first' if first else ''))
            ck.hist('refgrid.accepted.container', cname)
        else:
            ck.hist('refgrid.refused', '%s %s: %s' % (cname, 'of nullable' if t.endswith('?') or t in ('PN', 'UN') else '',
                                                      out[1][:60] if out[0] == 'invalid' else 'crash ' + out[1]))
    ck.stat('refgrid.cases', len(cases))
    for first in (False, True):
        ck.stat('refgrid.accepted', len(accepted[first]))
        for case, built, _sname, err in build_batches(ck, accepted[first], ref_case_text, gc=gc, first=first, size=60):
            pos, t, cname, decl, mty, val = case
            if built is None:
                ck.stat('refgrid.codegen_failed')
                ck.hist('refgrid.codegen_failed', type(err).__name__)
                continue
            # which index the case had inside its batch: find its definitions by suffix
            ns = built.api.namespaces['ns']
            sfx = None
            for i, c in enumerate(accepted[first]):
                if c is case:
                    sfx = '_%d' % i
                    break
            specs = gc.specs(ref_case_text(0, case), first)
            for dt in ns.data_types:
                if not dt.name.endswith(sfx) or not isinstance(dt, (Struct, Union)):
                    continue
                for label, ex in dt.get_examples().items():
                    if is_implicit_catch_all_example(dt, label) or label not in dt._raw_examples:
                        continue
                    ck.case(('refgrid-rt', case, first, dt.name[:-len(sfx)]), nontrivial=True)
                    problems, _o, _b = judge_example(built, dt, label, ex.value, [])
                    ck.hist('refgrid.verdict', NOT_JUDGED if problems is NOT_JUDGED else
                            ('ok' if not problems else problems[0][1]['kind'] + ':' + str(problems[0][1].get('why', problems[0][1].get('site')))))
                    report_example(ck, problems, {'suite': 'reference-grid', 'position': pos, 'target': t, 'container': cname,
                                                  'member_type': mty, 'value': val, 'case_first': first,
                                                  'type': 'ns.' + dt.name[:-len(sfx)] + '_0', 'label': label,
                                                  'example': plain_json(ex.value), 'specs': specs})


# ==================================================================================================
# suite: shape of an example as a whole (how many members, which tags, references where required) for unions and for
# structs with enumerated subtypes; void members
# ==================================================================================================
SHAPE_PRELUDE = '''union SU
    f Int32
    g String
    h
    hv VoidAlias
    p Tee?

struct SR
    union
        a SA
        b SB
    k Int32 = 1

struct SA extends SR
    q Int32
    example default
        q = 1

struct SB extends SR
    r String?
    example default
        r = null
    example nothing

'''
# (name of the type that gets the example, lines of the example, verdict of the compiler as documented:
#  "Example for union must specify exactly one tag", "Unknown tag", "example of void type must be null",
#  "Example for struct with enumerated subtypes must only specify one subtype tag" / "must be a reference to a
#  subtype's example" / "Unknown subtype tag" / reference to a label the subtype does not have)
SHAPE_CASES = [
    ('SU', ['f = 1'], 'ok'), ('SU', ['g = "a"'], 'ok'), ('SU', ['h = null'], 'ok'), ('SU', ['hv = null'], 'ok'),
    ('SU', ['p = null'], 'ok'), ('SU', ['p = default'], 'invalid'),
    ('SU', [], 'invalid'), ('SU', ['f = 1', 'g = "a"'], 'invalid'), ('SU', ['f = 1', 'h = null'], 'invalid'),
    ('SU', ['z = 1'], 'invalid'), ('SU', ['h = 1'], 'invalid'), ('SU', ['h = "x"'], 'invalid'), ('SU', ['hv = 1'], 'invalid'),
    ('SU', ['f = null'], 'invalid'), ('SU', ['h = h'], 'invalid'), ('SU', ['f = 2147483648'], 'invalid'),
    ('SR', ['a = default'], 'ok'), ('SR', ['b = default'], 'ok'), ('SR', ['b = nothing'], 'ok'),
    ('SR', [], 'invalid'), ('SR', ['a = default', 'b = default'], 'invalid'), ('SR', ['a = default', 'k = 2'], 'invalid'),
    ('SR', ['a = 1'], 'invalid'), ('SR', ['a = null'], 'invalid'), ('SR', ['c = default'], 'invalid'), ('SR', ['k = 2'], 'invalid'),
    ('SR', ['a = nosuch'], 'invalid'), ('SR', ['a = nothing'], 'invalid'),
]


def shape_case_text(i, case):
    """the prelude of the shape cases with every name suffixed by the case number and the example added to one type"""
    name, lines, _want = case
    sfx = 'x%d' % i
    text = SHAPE_PRELUDE
    for n in ('SU', 'SR', 'SA', 'SB'):
        text = re.sub(r'\b%s\b' % n, n + sfx, text)
    ex = '    example shaped\n' + ''.join('        %s\n' % l for l in lines)
    head = ('union %s%s\n' if name == 'SU' else 'struct %s%s\n') % (name, sfx)
    at = text.index(head)
    end = text.index('\n\n', at)
    return text[:end + 1] + ex + text[end + 1:]


def suite_example_shapes(ck):
    from stone.ir import Struct
    gc = grid_compiler(ck)
    if gc is None:
        return
    ts = values.TsRegistry()
    accepted, reqs, meta = [], [], []
    base = gc.compile(shape_case_text(0, ('SU', ['f = 1'], 'ok')).replace('    example shaped\n        f = 1\n', ''))
    capi = capi_of(base[1]) if base[0] == 'ok' else None
    for case in SHAPE_CASES:
        name, lines, want = case
        text = shape_case_text(0, case)
        out = gc.compile(text)
        got = out[0] if out[0] != 'crash' else 'crash:' + out[1]
        ck.case(('exshape', name, tuple(lines)), nontrivial=True)
        ck.hist('example.shape.outcome', got)
        if got == want:
            ck.agree('decl.ircheck.example_shape')
        else:
            ck.disagree('decl.ircheck.example_shape', {'type': name, 'example': lines, 'specs': gc.specs(text)},
                        list(out[:2]) if out[0] != 'ok' else ['ok'], [want])
        if out[0] == 'ok':
            accepted.append(case)
        # the model knows unions (structs with enumerated subtypes are outside it)
        if name == 'SU' and capi is not None:
            try:
                ast = parse_only('namespace ns\n\n' + text)
                node = [n for n in ast if getattr(n, 'name', None) == 'SUx0'][0]
                exv = [[k, exval_tagged(f.value)] for k, f in node.examples['shaped'].fields.items()]
            except Exception:  # noqa: BLE001 - (an example without members may not parse)
                continue
            pats, fmts, strings, ints = set(), set(), {'f', 'g', 'h', 'hv', 'p'}, set()
            capi_params(capi, pats, fmts)
            for _k, v in exv:
                collect_exval(v, strings, ints)
            ext, cext = make_tables(pats, fmts, strings, ints, ts)
            reqs.append({'op': 'decl.ircheck.example', 'api': capi, 'cls': 'ns.SUx0', 'kind': 'union', 'ex': exv, 'ext': ext, 'cext': cext})
            meta.append((case, [out[0]] if out[0] != 'crash' else ['crash', out[1]], any(_has_ref(v) for _k, v in exv)))
    for (case, real_check, has_ref), rep in zip(meta, ck.driver(reqs)):
        if real_check == ['ok']:
            continue                  # (documents of accepted cases: below, on the loaded classes)
        compare_example_model(ck, None, None, None, {'suite': 'example-shape', 'type': case[0], 'example': case[1]}, rep,
                              real_check, has_ref)
    # whatever the compiler accepts goes through the direct oracle (also a case it should have refused)
    for case, built, _s, err in build_batches(ck, accepted, shape_case_text, size=40):
        if built is None:
            ck.stat('example.shape.codegen_failed')
            continue
        i = [k for k, c in enumerate(accepted) if c is case][0]
        dt = built.api.namespaces['ns'].data_type_by_name['%sx%d' % (case[0], i)]
        ex = dt.get_examples().get('shaped')
        if ex is None:
            continue
        ck.case(('exshape-rt', case[0], tuple(case[1])), nontrivial=True)
        problems, _o, _b = judge_example(built, dt, 'shaped', ex.value, [])
        report_example(ck, problems, {'suite': 'example-shape', 'type': 'ns.%sx0' % case[0], 'label': 'shaped',
                                      'example': plain_json(ex.value), 'specs': gc.specs(shape_case_text(0, case))})


# ==================================================================================================
# suite: random flat struct chains (inherited, defaulted, nullable fields; reference-free examples)
# ==================================================================================================
_FLAT_TYPES = [
    ('Boolean', [True, False], []),
    ('Int32', [0, 5, -7, 2 ** 31 - 1, -2 ** 31], [2 ** 31, 'x', 1.5]),
    ('UInt64(max_value=100)', [0, 100, 7], [101, -1, 'a']),
    ('Int64(min_value=-5, max_value=5)', [-5, 5, 0], [6, -6]),
    ('Float64', [1.5, 0.0, -2.25, 3, 1e16], ['a', None]),
    ('Float32(min_value=0)', [0.0, 2.5, 1], [-1.0, -1]),
    ('String', ['', 'a', 'hello', 'x y'], [1, True]),
    ('String(min_length=1, max_length=3)', ['a', 'abc'], ['', 'abcd']),
    ('String(pattern="[a-z]{2}")', ['ab', 'zz'], ['a', 'abc', 'AB']),
    ('List(Int32, max_items=2)', [[], [1], [1, 2]], [[1, 2, 3], 5, ['a']]),
    ('Map(String, Int32)', [{}, {'k': 1}], [{'k': 'v'}]),
    ('Timestamp("%Y-%m-%d")', ['2020-01-05', '1999-12-31'], ['nope', 5]),
    ('Bytes', ['aGVsbG8=', ''], [5]),
]


def gen_flat_case(rng):
    """(spec body text, struct name of the leaf, raw example as written) — 1-3 levels, 1-4 fields each"""
    from harness.specgen import lit as render_lit
    depth = rng.randint(1, 3)
    lines, names = [], []
    all_fields = []
    fid = 0
    for lvl in range(depth):
        name = 'L%d' % lvl
        lines.append('struct %s%s' % (name, (' extends L%d' % (lvl - 1)) if lvl else ''))
        for _ in range(rng.randint(1, 4)):
            ty, good, bad = rng.choice(_FLAT_TYPES)
            fname = 'f%d' % fid
            fid += 1
            nullable = rng.random() < 0.25
            dflt = None
            defaultable = not ty.startswith(('List', 'Map', 'Timestamp', 'Bytes'))
            if not nullable and defaultable and rng.random() < 0.35:
                dflt = rng.choice(good)
                if isinstance(dflt, str) and (' ' in dflt):
                    dflt = 'q'
                    if ty.startswith('String(pattern'):
                        dflt = 'qq'
            lines.append('    %s %s%s%s' % (fname, ty, '?' if nullable else '', '' if dflt is None else ' = ' + render_lit(dflt)))
            all_fields.append((fname, ty, good, bad, nullable, dflt))
        names.append(name)
    # the example of the leaf
    ex = []
    for fname, ty, good, bad, nullable, dflt in all_fields:
        r = rng.random()
        if (nullable or dflt is not None) and r < 0.35:
            continue                                   # left out: optional
        if nullable and r < 0.5:
            ex.append((fname, None))
        elif r > 0.93 and bad:
            ex.append((fname, rng.choice(bad)))        # refused by the compiler (sometimes)
        else:
            ex.append((fname, rng.choice(good)))
    if rng.random() < 0.05:
        ex.append(('nosuch', 1))
    if rng.random() < 0.06 and ex:
        ex.pop(rng.randrange(len(ex)))                 # possibly a missing required field
    rng.shuffle(ex)
    if not ex:
        return None
    lines.append('    example default')
    for k, v in ex:
        lines.append('        %s = %s' % (k, render_lit(v)))
    return '\n'.join(lines) + '\n', names[-1], ex


def suite_flat_examples(ck, n):
    ts = values.TsRegistry()
    cases = []
    while len(cases) < n:
        c = gen_flat_case(ck.rng)
        if c is not None:
            cases.append(c)
    reqs, meta = [], []
    for body, leaf, ex in cases:
        specs = [('ns.stone', 'namespace ns\n\n' + body)]
        out = compile_outcome(specs)
        real_check = [out[0]] if out[0] != 'crash' else ['crash', out[1]]
        base = compile_outcome([('ns.stone', 'namespace ns\n\n' + body.split('    example default')[0])])
        if base[0] != 'ok':
            # the struct chain alone (valid types, defaults taken from the accepted values) always compiles
            ck.disagree('decl.ircheck.flat_base', {'specs': [['ns.stone', 'namespace ns\n\n' + body.split('    example default')[0]]]},
                        list(base[:2]), ['ok'])
            continue
        ck.agree('decl.ircheck.flat_base')
        capi = capi_of(base[1])
        ast = parse_only('namespace ns\n\n' + body)
        node = [n_ for n_ in ast if getattr(n_, 'name', None) == leaf][0]
        exv = [[k, exval_tagged(f.value)] for k, f in node.examples['default'].fields.items()]
        pats, fmts, strings, ints = set(), set(), set(), set()
        capi_params(capi, pats, fmts)
        for _k, v in exv:
            collect_exval(v, strings, ints)
        for s in capi['structs']:
            for _c, fs in s['chain']:
                for f in fs:
                    strings.add(f['name'])
                    if 'dflt' in f:
                        collect_lit(f['dflt'], strings, ints)
        ext, cext = make_tables(pats, fmts, strings, ints, ts)
        reqs.append({'op': 'decl.ircheck.example', 'api': capi, 'cls': 'ns.' + leaf, 'kind': 'struct', 'ex': exv, 'ext': ext, 'cext': cext})
        meta.append((specs, leaf, real_check, out))
    for (specs, leaf, real_check, out), rep in zip(meta, ck.driver(reqs)):
        ck.case(('flat', specs[0][1]), nontrivial=True)
        ck.hist('example.flat.outcome', real_check[0])
        case = {'suite': 'flat-example', 'type': 'ns.' + leaf, 'label': 'default', 'specs': specs}
        built, dt, doc = None, None, None
        if out[0] == 'ok':
            dt = out[1].namespaces['ns'].data_type_by_name[leaf]
            doc = dt.get_examples()['default'].value
            ck.hist('example.flat.depth', len(chain(dt)))
            try:
                built = pygen.build_python(specs, api=out[1])
                dt = built.api.namespaces['ns'].data_type_by_name[leaf]
            except Exception as e:  # noqa: BLE001
                ck.stat('example.flat.codegen_failed')
                ck.hist('example.flat.codegen_failed', type(e).__name__)
                built = None
            if built is not None:
                problems, _o, _b = judge_example(built, dt, 'default', doc, [])
                report_example(ck, problems, dict(case, example=plain_json(doc)))
                from stone.ir import Struct
                for c in chain(dt):
                    for f in c.fields:
                        if f.has_default:
                            for what, sig, detail in judge_default(built, c, f):
                                ck.failing_input('C10 default: ' + what, sig,
                                                 dict(case, suite='flat-default', struct=ref_of(c), field=f.name, **detail))
                            if c is not dt:
                                for what, sig, detail in judge_default(built, c, f, via=dt):
                                    ck.failing_input('C10 default (read on an instance of a subclass): ' + what, dict(sig, via='subclass'),
                                                     dict(case, suite='flat-default', struct=ref_of(c), field=f.name,
                                                          read_on=ref_of(dt), **detail))
        compare_example_model(ck, built, dt, doc, {k: v for k, v in case.items()}, rep, real_check)


# ==================================================================================================
# corpus: hand seeds / minimised past failures, evaluated first on every run
# ==================================================================================================
def evaluate_specs(specs):
    """The direct oracle on everything a spec declares: every defaulted field and every example label.
    ('refused', msg) | ('crash', cls) | ('ok', [(what, signature, detail)], n_not_judged)"""
    from stone.ir import Struct
    out = compile_outcome(specs, fast=False)
    if out[0] != 'ok':
        return out
    has_default = any(f.has_default for ns in out[1].namespaces.values() for dt in ns.data_types
                      if isinstance(dt, Struct) for f in dt.fields)
    try:
        built = pygen.build_python(specs)
    except Exception as e:  # noqa: BLE001
        if not has_default:
            return ('codegen-unrelated', type(e).__name__)
        return ('ok', [('default accepted by the compiler, but python_types cannot produce / load the module that assigns it',
                        codegen_failure_sig('default-codegen', e),
                        {'error': type(e).__name__, 'detail': (getattr(e, 'traceback', '') or str(e))[-400:]})], 0)
    found, skipped = [], 0
    perms = declared_callers(built.api)
    for ns in built.api.namespaces.values():
        for dt in ns.data_types:
            if isinstance(dt, Struct):
                for f in dt.fields:
                    if f.has_default:
                        for what, sig, detail in judge_default(built, dt, f):
                            found.append(('C10 default: ' + what, sig, dict(detail, struct=ref_of(dt), field=f.name)))
                        for sub in descendants_of(built.api, dt):
                            for what, sig, detail in judge_default(built, dt, f, via=sub):
                                found.append(('C10 default (read on an instance of a subclass): ' + what, dict(sig, via='subclass'),
                                              dict(detail, struct=ref_of(dt), field=f.name, read_on=ref_of(sub))))
            for label, ex in dt.get_examples().items():
                if is_implicit_catch_all_example(dt, label):
                    continue
                problems, _o, _b = judge_example(built, dt, label, ex.value, perms)
                if problems is NOT_JUDGED:
                    skipped += 1
                    continue
                for what, sig, detail in problems:
                    found.append(('C10 example: ' + what, sig,
                                  dict(detail, type=ref_of(dt), label=label, example=plain_json(ex.value), perms=perms)))
    return ('ok', found, skipped)


def suite_corpus(ck):
    """corpus/C10/*.json: {"note", "expect": <signature subset | "not-judged" | null>, "case": {"specs": [[path, text]..]}}.
    Every seed is evaluated with the direct oracle before anything else, so a listed finding is re-confirmed
    (or seen to be gone) on every run, whatever the seed of the random part."""
    import os
    d = os.path.join(core.VERIF, 'corpus', ck.prop)
    if not os.path.isdir(d):
        return
    for fn in sorted(os.listdir(d)):
        if not fn.endswith('.json'):
            continue
        rec = json.load(open(os.path.join(d, fn), encoding='utf-8'))
        specs = [tuple(x) for x in rec['case']['specs']]
        ck.case(('corpus', fn), nontrivial=True)
        ck.stat('corpus.cases')
        res = evaluate_specs(specs)
        expect = rec.get('expect')
        if res[0] != 'ok':
            ck.stat('corpus.not_evaluated')
            ck.hist('corpus.not_evaluated', '%s: %s' % (fn, res[0]))
            continue
        _ok, found, skipped = res
        if skipped:
            ck.stat('example.embeds_catch_all_not_judged', skipped)
        for what, sig, detail in found:
            ck.failing_input(what, sig, dict(detail, suite='corpus', seed_file='corpus/%s/%s' % (ck.prop, fn), specs=specs))
        if expect == NOT_JUDGED:
            ck.hist('corpus.seed', 'not-judged-as-expected' if skipped and not found else 'not-judged-seed-changed: ' + fn)
        elif isinstance(expect, dict):
            hit = any(all(sig.get(k) == v for k, v in expect.items()) for _w, sig, _d in found)
            ck.hist('corpus.seed', 'fails-as-recorded' if hit else 'no-longer-fails-as-recorded: ' + fn)
        else:
            ck.hist('corpus.seed', 'holds' if not found else 'fails: ' + fn)


# ==================================================================================================
# replay
# ==================================================================================================
def replay(ck, path):
    rec = json.load(open(path))
    case = rec.get('case', {})
    print(json.dumps({k: case[k] for k in case if k != 'specs'}, indent=1, default=repr)[:3000])
    if 'specs' not in case:
        print('replay: nothing executable recorded (%s)' % rec.get('what', rec.get('broken')))
        return 0
    specs = [tuple(s) for s in case['specs']]
    for p, t in specs:
        print('--- %s\n%s' % (p, t))
    out = compile_outcome(specs, fast=False)
    print('compiler:', out[0], '' if out[0] == 'ok' else out[1])
    if out[0] != 'ok':
        return 0
    try:
        built = pygen.build_python(specs)
    except Exception as e:  # noqa: BLE001
        print('python_types:', type(e).__name__, (getattr(e, 'traceback', '') or str(e))[-600:])
        return 1
    found = 0
    suite = case.get('suite', '')
    if suite == 'corpus':
        res = evaluate_specs(specs)
        for what, sig, detail in res[1]:
            found += 1
            print('FAILS:', what, sig, {k: v for k, v in detail.items() if k != 'specs'})
        if res[2]:
            print('NOT JUDGED: %d example(s) use a catch-all tag' % res[2])
    elif 'default' in suite:
        from stone.ir import Struct
        for ns in built.api.namespaces.values():
            for dt in ns.data_types:
                if isinstance(dt, Struct) and ('struct' not in case or ref_of(dt) == case['struct']):
                    for f in dt.fields:
                        if f.has_default and ('field' not in case or f.name == case['field']):
                            vias = [None] + [d for d in descendants_of(built.api, dt)
                                             if 'read_on' not in case or ref_of(d) == case['read_on']]
                            for via in vias:
                                for what, sig, detail in judge_default(built, dt, f, via=via):
                                    found += 1
                                    print('FAILS:', what, sig, detail, '' if via is None else '(read on %s)' % ref_of(via))
    else:
        for ns in built.api.namespaces.values():
            for dt in ns.data_types:
                if 'type' in case and '.' in str(case['type']) and ref_of(dt) != case['type']:
                    continue
                if suite == 'example-grid' and not dt.name.startswith('S'):
                    continue
                for label, ex in dt.get_examples().items():
                    if case.get('label', label) != label or is_implicit_catch_all_example(dt, label):
                        continue
                    problems, _o, back = judge_example(built, dt, label, ex.value, case.get('perms', []))
                    print('example', ref_of(dt), label, json.dumps(plain_json(ex.value)), '->', json.dumps(back))
                    if problems is NOT_JUDGED:
                        print('NOT JUDGED: the document uses a catch-all tag')
                        continue
                    for what, sig, detail in problems:
                        found += 1
                        print('FAILS:', what, sig, detail)
    print('replay: %d failure(s) reproduced' % found)
    return 1 if found else 0
