"""decl.py.* - C09: the modules written by the python_types backend load and expose the whole API.

Three independent looks at one generated package:

(a) correspondence `decl.py.stmts`: every generated `<ns>.py` is parsed with `ast`, each top-level statement is reduced
    to what it binds and which generated names it evaluates at import time (`reduce_module`), and the list is compared
    with the Lean model's `pyTypesStmts` for a dump of the same `stone.ir.Api` (`api_dump`); the model's verdicts
    (`apiWF`, `acyclic`, `importAll` per first module) are compared with what the real interpreter does;
(b) direct oracle 1: `py_compile` of every module and one fresh interpreter per namespace-as-first-import;
(c) direct oracle 2: in-process introspection of the imported modules against a reading of the property text that is
    driven by the IR only (classes, bases, field attributes get / set / delete, constructor parameters, union helpers,
    validators, routes, ROUTES).

A failure of (b) or (c) is a failing input of the property (`ck.failing_input`, with a signature that names the stage,
the exception class and a cause derived from the IR); a difference in (a) is a model / implementation disagreement.
"""
import ast
import builtins
import concurrent.futures
import datetime
import glob
import importlib
import inspect
import itertools
import json
import os
import py_compile
import re
import sys
import traceback

from harness import core, irdump, pygen, values

_counter = itertools.count()
RUNTIME_NAMES = ('bb', 'bv')
_BUILTINS = frozenset(dir(builtins))

RULE = ('hand-written multi-namespace seeds (cross-namespace parents / defaults / aliases, forward references, enumerated '
        'subtypes, omitted callers, redactors, docs with references, unicode and quoting characters) and generated specs '
        '(presets rt / routes / default with Python-safe names, plus unsteered profiles) x every namespace as first import; '
        'per spec: statement lists of every module vs model, py_compile, one fresh interpreter per first module, '
        'introspection of every class / field / tag / alias / route')


# ------------------------------------------------------------------------------------------------------------------
# spec sources
# ------------------------------------------------------------------------------------------------------------------
def _read_dir(d):
    return [(os.path.basename(p), open(p, encoding='utf-8').read()) for p in sorted(glob.glob(os.path.join(d, '*.stone')))]


def hand_specs():
    """[(label, [(path, text)])]: harness/specs/c09/<set>/*.stone plus the older shared seeds."""
    base = os.path.join(core.VERIF, 'harness', 'specs')
    out = []
    for d in sorted(glob.glob(os.path.join(base, 'c09', '*'))):
        if os.path.isdir(d):
            out.append(('hand:c09/' + os.path.basename(d), _read_dir(d)))
    cfg = os.path.join(base, 'stone_cfg.stone')
    for sub in ('multi', 'basic', 'docs'):
        d = os.path.join(base, sub)
        if os.path.isdir(d):
            files = _read_dir(d)
            if os.path.exists(cfg) and not any('namespace stone_cfg' in t for _p, t in files):
                files.append(('stone_cfg.stone', open(cfg, encoding='utf-8').read()))
            out.append(('hand:' + sub, files))
    for group in (['rt1.stone', 'rt2.stone'], ['rt3.stone']):
        files = [(p, open(os.path.join(base, p), encoding='utf-8').read()) for p in group if os.path.exists(os.path.join(base, p))]
        if files:
            out.append(('hand:' + '+'.join(group), files))
    return out


# Minimal inputs for breakages of the generator that the `rt` preset steers away from (reported by the author of the
# spec generator and re-found here). Each must stay reachable: they are always run. Several have been repaired in the
# tree under test since (alias order below List / Map / ?, alias validator names, three-namespace cycles - now refused
# by the compiler; string defaults with blanks, parameterless annotation types, Timestamp route attributes, class aliases
# and subtype roots whose names fmt_class changes); those stay as regression inputs. Union-tag route attributes are a
# listed finding (printing them as `[ns.]U.tag` was withdrawn: the import it needs can close an import cycle).
DEFECT_SEEDS = [
    ('string-default-with-blank', [('n.stone', 'namespace n\nstruct S\n    f String = "a b"\n')]),
    ('annotation-type-without-params', [('n.stone', 'namespace n\nannotation_type T\n    "doc"\n')]),
    ('tagref-route-attr', [('stone_cfg.stone', 'namespace stone_cfg\nimport m\nstruct Route\n    mode m.U = x\n'),
                           ('m.stone', 'namespace m\nunion U\n    x\n    y\nroute r(Void, Void, Void)\n    attrs\n        mode = y\n')]),
    ('timestamp-route-attr', [('stone_cfg.stone', 'namespace stone_cfg\nstruct Route\n    ts Timestamp("%Y")?\n'),
                              ('n.stone', 'namespace n\nroute r(Void, Void, Void)\n    attrs\n        ts = "2020"\n')]),
    ('alias-order-list-nullable', [('n.stone', 'namespace n\nalias A = List(B?)\nalias B = String\n')]),
    ('alias-order-nullable', [('n.stone', 'namespace n\nalias A = Z?\nalias Z = String\n')]),
    ('alias-order-map', [('n.stone', 'namespace n\nalias A = Map(String, Z)\nalias Z = String\n')]),
    ('alias-name-AS', [('n.stone', 'namespace n\nalias AS = String\nstruct S\n    f AS\n')]),
    ('alias-name-HTTPCode', [('n.stone', 'namespace n\nalias HTTPCode = Int32\nstruct S\n    f HTTPCode\n')]),
    ('class-alias-name-default', [('n.stone', 'namespace n\nunion U\n    x\n    y\nalias HTTPUnion = U\nstruct S\n    f HTTPUnion = x\n')]),
    ('class-alias-name-alias-of-alias', [('n.stone', 'namespace n\nstruct T\n    g String\nalias HTTPAlias = T\nalias Z = HTTPAlias\n')]),
    ('subtypes-root-name-HTTPRoot', [('n.stone', 'namespace n\nstruct HTTPRoot\n    union\n        x HTTPLeaf\n'
                                                 'struct HTTPLeaf extends HTTPRoot\n    f String\n')]),
    ('three-namespace-cycle', [('a.stone', 'namespace na\nimport nb\nstruct A\n    f nb.B\n'),
                               ('b.stone', 'namespace nb\nimport nc\nstruct B\n    f nc.C\n'),
                               ('c.stone', 'namespace nc\nimport na\nstruct C\n    f na.A\n')]),
    ('route-named-bv', [('n.stone', 'namespace n\nroute bv(Void, Void, Void)\nroute zz(Void, Void, Void)\n')]),
    ('namespace-named-bb', [('bb.stone', 'namespace bb\nstruct S\n    f String\n'),
                            ('n.stone', 'namespace n\nimport bb\nstruct T\n    f bb.S\n')]),
    ('alias-named-like-validator', [('n.stone', 'namespace n\nstruct Foo\n    f String\nalias Foo_validator = Foo\n'
                                                'struct T\n    g Foo\n')]),
]

# profiles: Python-safe identifiers everywhere (the property excludes reserved words); `loadable` ones additionally steer
# away from the known breakages above, the others do not (so that the breakages stay reachable by search).
PROFILES = [
    ('rt', 'rt', 5),
    ('routes-loadable', dict(base='routes', py_safe=True, py_loadable=True, name='routes-loadable'), 4),
    ('default-loadable', dict(base='default', py_safe=True, py_loadable=True, p_weird_name=0.0, p_route_path=0.0,
                              p_route_exotic=0.0, name='default-loadable'), 4),
    ('fe-loadable', dict(base='fe', py_safe=True, py_loadable=True, p_weird_name=0.0, p_route_path=0.0,
                         p_route_exotic=0.0, name='fe-loadable'), 2),
    ('py_safe', 'py_safe', 2),
    ('routes', 'routes', 2),
]


def generated_specs(ck, n):
    from harness import specgen
    total = sum(w for _l, _p, w in PROFILES)
    out = []
    for label, prof, w in PROFILES:
        k = max(1, (n * w) // total)
        for i in range(k):
            model = specgen.gen_model(ck.rng, prof)
            out.append(('gen:%s#%d' % (label, i), specgen.render(model, None)))
    return out


# ------------------------------------------------------------------------------------------------------------------
# real toolchain
# ------------------------------------------------------------------------------------------------------------------
class Package:
    def __init__(self, label, specs):
        self.label = label
        self.specs = specs
        self.api = None
        self.pkg = 'c09gen%d_%d' % (os.getpid(), next(_counter))
        self.root = core.scratch('stone-verif-c09-')
        self.out = os.path.join(self.root, self.pkg)
        self.mods = {}
        self.stage_error = None      # (stage, exception class name, text)

    def compile(self):
        self.api = pygen.compile_specs(self.specs)

    def generate(self):
        pygen.generate(self.api, 'python_types', ['--package', self.pkg], self.out)

    def module_names(self):
        from stone.backends.python_helpers import fmt_namespace
        return [fmt_namespace(ns) for ns in self.api.namespaces]

    def path_of(self, module):
        return os.path.join(self.out, module + '.py')

    def import_here(self):
        sys.path.insert(0, self.root)
        try:
            importlib.invalidate_caches()
            from stone.backends.python_helpers import fmt_namespace
            for ns in self.api.namespaces:
                self.mods[ns] = importlib.import_module(self.pkg + '.' + fmt_namespace(ns))
        finally:
            sys.path.remove(self.root)
        return self.mods

    def built(self):
        return pygen.Built(self.specs, self.api, self.pkg, self.root, self.out, self.mods)


# ------------------------------------------------------------------------------------------------------------------
# (a) IR dump for the model, AST reduction of the generated modules
# ------------------------------------------------------------------------------------------------------------------
def _ty(t):
    from stone.ir import Alias, List, Map, Nullable, Struct, Union, Void
    if isinstance(t, Nullable):
        return ['nullable', _ty(t.data_type)]
    if isinstance(t, Alias):
        return ['alias', t.namespace.name, t.name]
    if isinstance(t, List):
        return ['list', _ty(t.data_type)]
    if isinstance(t, Map):
        return ['map', _ty(t.key_data_type), _ty(t.value_data_type)]
    if isinstance(t, (Struct, Union)):
        return ['user', t.namespace.name, t.name]
    if isinstance(t, Void):
        return ['void']
    return ['prim']


def _attr_kind(v):
    from stone.ir.data_types import TagRef
    if isinstance(v, TagRef):
        return 'tagRef'
    if isinstance(v, (datetime.datetime, datetime.date)):
        return 'timestamp'
    return 'plain'


def api_dump(api):
    """The part of the Api the python_types generator reads, in the orders it reads it."""
    from stone.ir import Struct
    from stone.ir.data_types import TagRef
    schema_fields = [f.name for f in api.route_schema.fields] if api.route_schema is not None else []
    nss = []
    for ns in api.namespaces.values():
        types = []
        for dt in ns.linearize_data_types():
            fields = []
            for f in dt.fields:
                dflt = None
                if getattr(f, 'has_default', False):
                    v = f.default
                    dflt = ['tag', _ty(v.union_data_type), v.tag_name] if isinstance(v, TagRef) else ['lit']
                fields.append({'name': f.name, 'ty': _ty(f.data_type), 'dflt': dflt, 'caller': f.omitted_caller or None,
                               'redact': f.redactor is not None})
            is_struct = isinstance(dt, Struct)
            subtypes = []
            if is_struct and dt.has_enumerated_subtypes():
                subtypes = [[s.namespace.name, s.name] for _tags, s in dt.get_all_subtypes_with_tags()]
            types.append({'struct': is_struct, 'name': dt.name,
                          'parent': [dt.parent_type.namespace.name, dt.parent_type.name] if dt.parent_type else None,
                          'fields': fields, 'subtypes': subtypes,
                          'catchAll': (not is_struct) and dt.catch_all_field is not None})
        nss.append({
            'name': ns.name,
            'imports': [m.name for m in ns.get_imported_namespaces(consider_annotation_types=True)],
            'annTypes': [{'name': a.name, 'params': [p.name for p in a.params]} for a in ns.annotation_types],
            'types': types,
            'aliases': [{'name': a.name, 'ty': _ty(a.data_type), 'redact': a.redactor is not None}
                        for a in ns.linearize_aliases()],
            'routes': [{'name': r.name, 'version': r.version, 'deprecated': r.deprecated is not None,
                        'arg': _ty(r.arg_data_type), 'result': _ty(r.result_data_type), 'error': _ty(r.error_data_type),
                        'attrs': [[k, _attr_kind(r.attrs.get(k))] for k in schema_fields]} for r in ns.routes],
        })
    return {'namespaces': nss}


def _chain(node):
    """Name / Attribute chain -> (root id, [attrs]) or None"""
    attrs = []
    cur = node
    while isinstance(cur, ast.Attribute):
        attrs.append(cur.attr)
        cur = cur.value
    if isinstance(cur, ast.Name):
        attrs.reverse()
        return cur.id, attrs
    return None


class _Reducer:
    def __init__(self, package_modules=()):
        self.package_modules = set(package_modules)   # modules of the generated package (a reference `m.X` to one of
        self.bound = set()                            # them is module-qualified even when `m` was never imported)
        self.runtime = set(RUNTIME_NAMES)   # `bb`, `bv`, and `datetime` once the module has imported it
        self.modules = set()      # local names bound by `from pkg import m`
        self.classes = set()      # generated classes defined so far

    def ref(self, root, attrs):
        """(mod, name, attr) or None for runtime names / builtins"""
        if root in self.runtime or (root in _BUILTINS and root not in self.classes and root not in self.modules):
            return None
        if attrs and (root in self.modules or (root in self.package_modules and root not in self.bound)):
            return (root, attrs[0], '.'.join(attrs[1:]) or None)
        return (None, root, '.'.join(attrs) or None)

    def loads(self, node, out):
        if isinstance(node, (ast.Name, ast.Attribute)):
            ch = _chain(node)
            if ch is not None:
                r = self.ref(*ch)
                if r is not None:
                    out.append(r)
                return
            self.loads(node.value, out)
            return
        if isinstance(node, ast.Call):
            f = node.func
            if isinstance(f, ast.Name) and f.id == 'TagRef' and node.args and isinstance(node.args[0], ast.Call):
                # a printed `TagRef(Union('ns.U', [UnionField(...), ...]), 'tag')`: the model tracks the three
                # constructor names every such text starts with (a spec may itself define a type called TagRef)
                out.append((None, 'TagRef', None))
                inner = node.args[0]
                if isinstance(inner.func, ast.Name):
                    out.append((None, inner.func.id, None))
                    if len(inner.args) > 1 and isinstance(inner.args[1], ast.List):
                        for e in inner.args[1].elts:
                            if isinstance(e, ast.Call) and isinstance(e.func, ast.Name):
                                out.append((None, e.func.id, None))
                return
            ch = _chain(f) if isinstance(f, (ast.Name, ast.Attribute)) else None
            if ch is not None:
                root, attrs = ch
                if isinstance(f, ast.Attribute) and root not in self.runtime:
                    attrs = attrs[:-1]          # a method call: the object is what is evaluated
                r = self.ref(root, attrs)
                if r is not None:
                    out.append(r)
                    if isinstance(f, ast.Name) and root in self.classes:
                        out.append((None, root, '_tagmap'))      # Union.__init__ looks the tag up
                    elif isinstance(f, ast.Name) and root not in self.modules:
                        return      # a call of a name nothing binds (`TagRef(...)`): evaluation stops at the name
            else:
                self.loads(f, out)
            for a in node.args:
                self.loads(a, out)
            for k in node.keywords:
                self.loads(k.value, out)
            return
        for child in ast.iter_child_nodes(node):
            self.loads(child, out)

    def reduce(self, text):
        tree = ast.parse(text)
        out = []
        for i, node in enumerate(tree.body):
            if isinstance(node, ast.Expr) and isinstance(node.value, ast.Constant) and isinstance(node.value.value, str):
                continue                                       # module docstring
            if isinstance(node, ast.ImportFrom):
                if node.module == '__future__' or (node.module or '').startswith('stone.backends.python_rsrc'):
                    continue                                   # runtime preamble
                for al in node.names:
                    name = al.asname or al.name
                    self.modules.add(name)
                    out.append(('imp', name))
                continue
            if isinstance(node, ast.Import) and [al.name for al in node.names] == ['datetime']:
                self.runtime.add('datetime')                   # runtime preamble of a module with Timestamp attributes
                continue
            if isinstance(node, ast.ClassDef):
                base = None
                if node.bases:
                    ch = _chain(node.bases[0])
                    if ch is not None:
                        base = self.ref(*ch)
                body = []
                ctor = None
                for b in node.body:
                    if isinstance(b, ast.Expr) and isinstance(b.value, ast.Constant):
                        continue
                    if isinstance(b, ast.Assign):
                        body.extend(t.id for t in b.targets if isinstance(t, ast.Name))
                    elif isinstance(b, ast.FunctionDef):
                        body.append(b.name)
                        if b.name == '__init__':
                            ctor = tuple(a.arg for a in b.args.args[1:])
                    elif isinstance(b, ast.Pass):
                        continue
                    else:
                        body.append('?' + type(b).__name__)
                self.classes.add(node.name)
                self.bound.add(node.name)
                out.append(('cls', node.name, base, tuple(body), ctor))
                continue
            if isinstance(node, ast.Assign) and len(node.targets) == 1:
                ch = _chain(node.targets[0])
                if ch is None:
                    out.append(('other', ast.dump(node)[:80]))
                    continue
                root, attrs = ch
                uses = []
                copy = None
                if attrs:
                    r = self.ref(root, attrs[:-1])
                    if r is not None:
                        uses.append(r)
                elif isinstance(node.value, (ast.Name, ast.Attribute)):
                    vch = _chain(node.value)
                    if vch is not None:
                        copy = self.ref(*vch)
                self.loads(node.value, uses)
                if not attrs:
                    self.bound.add(root)
                out.append(('assign', root, '.'.join(attrs) or None, copy, tuple(sorted(set(uses), key=_refkey))))
                continue
            if isinstance(node, ast.Expr):
                uses = []
                self.loads(node.value, uses)
                out.append(('expr', tuple(sorted(set(uses), key=_refkey))))
                continue
            out.append(('other', type(node).__name__))
        return out


def _refkey(r):
    return tuple('' if x is None else x for x in r)


def reduce_module(text, package_modules=()):
    return _Reducer(package_modules).reduce(text)


def model_stmt(j):
    def ref(r):
        return None if r is None else tuple(r)
    k = j['k']
    if k == 'imp':
        return ('imp', j['m'])
    if k == 'cls':
        return ('cls', j['name'], ref(j['base']), tuple(j['body']), None if j['ctor'] is None else tuple(j['ctor']))
    if k == 'assign':
        return ('assign', j['t'], j['a'], ref(j['copy']) if j['a'] is None else None,
                tuple(sorted(set(tuple(r) for r in j['uses']), key=_refkey)))
    return ('expr', tuple(sorted(set(tuple(r) for r in j['uses']), key=_refkey)))


def import_graph_cyclic(api):
    """own reading: is there a cycle among the modules' `from pkg import` edges"""
    edges = {ns.name: [m.name for m in ns.get_imported_namespaces(consider_annotation_types=True)]
             for ns in api.namespaces.values()}
    state = {}

    def visit(n):
        if state.get(n) == 1:
            return True
        if state.get(n) == 2:
            return False
        state[n] = 1
        for m in edges.get(n, ()):
            if visit(m):
                return True
        state[n] = 2
        return False
    return any(visit(n) for n in list(edges))


# ------------------------------------------------------------------------------------------------------------------
# (b) oracle 1: compile + fresh-interpreter imports
# ------------------------------------------------------------------------------------------------------------------
_NAME_RE = re.compile(r"name '([^']+)' is not defined")
_ATTR_RE = re.compile(r"has no attribute '([^']+)'")


def _last_exc(stderr):
    lines = [l for l in stderr.strip().splitlines() if l.strip()]
    for l in reversed(lines):
        m = re.match(r'^([A-Za-z_][A-Za-z0-9_.]*(?:Error|Exception|Warning|Interrupt))\b:? ?(.*)$', l)
        if m and not m.group(1).endswith('Warning'):
            return m.group(1).split('.')[-1], m.group(2)
    return 'unknown', (lines[-1] if lines else '')


def classify(pk, stage, exc, text):
    """Cause of a failed stage from features of the IR (so that a different failure gets a different signature)."""
    from stone.backends.python_helpers import fmt_class
    from stone.ir import Struct
    api = pk.api
    if stage == 'generate':
        for ns in api.namespaces.values():
            for dt in ns.data_types:
                for f in dt.fields:
                    if getattr(f, 'has_default', False) and isinstance(f.default, str) and re.search(r'\S\s+\S', f.default):
                        return 'string-default-with-blank'
            for a in ns.annotation_types:
                for p in a.params:
                    if p.has_default and isinstance(p.default, str) and re.search(r'\S\s+\S', p.default):
                        return 'string-default-with-blank'
        names = {}
        from stone.backends.python_helpers import fmt_func
        for ns in api.namespaces.values():
            for r in ns.routes:
                key = (ns.name, fmt_func(r.name, version=r.version))
                if key in names:
                    return 'route-function-name-conflict'
                names[key] = r
        return 'unclassified'
    if stage == 'compile':
        if any(not a.params for ns in api.namespaces.values() for a in ns.annotation_types):
            return 'annotation-type-without-params'
        return 'unclassified'
    if stage == 'import':
        m = _NAME_RE.search(text)
        missing = m.group(1) if m else None
        from stone.ir.data_types import TagRef
        tag_attrs = [(ns, v) for ns in api.namespaces.values() for r in ns.routes for v in (r.attrs or {}).values()
                     if isinstance(v, TagRef)]
        if missing in ('TagRef', 'Union', 'UnionField') and tag_attrs:
            return 'tagref-route-attr'
        for ns, v in tag_attrs:
            uns = v.union_data_type.namespace
            if uns is not ns and missing == uns.name and uns not in ns.get_imported_namespaces(consider_annotation_types=True):
                return 'route-attr-union-namespace-not-imported'
        if missing == 'datetime':
            return 'timestamp-route-attr'
        if 'partially initialized module' in text or (exc == 'AttributeError' and import_graph_cyclic(api)):
            return 'import-cycle'
        for ns in api.namespaces.values():
            for a in ns.aliases:
                if fmt_class(a.name) != a.name and missing == fmt_class(a.name):
                    return 'class-alias-name-not-fixed-by-fmt_class'
                if fmt_class(a.name) != a.name and missing == fmt_class(a.name) + '_validator':
                    return 'alias-validator-name-not-fixed-by-fmt_class'
            for dt in ns.data_types:
                if isinstance(dt, Struct) and dt.has_enumerated_subtypes() and fmt_class(dt.name) != dt.name \
                        and missing == dt.name:
                    return 'subtypes-root-name-not-fixed-by-fmt_class'
            for a in ns.aliases:
                if missing == fmt_class(a.name) + '_validator':
                    return 'alias-used-before-definition'
            for r in ns.routes:
                from stone.backends.python_helpers import fmt_func
                if fmt_func(r.name, version=r.version) in RUNTIME_NAMES:
                    return 'route-shadows-runtime-module'
            if ns.name in RUNTIME_NAMES and exc == 'AttributeError':
                return 'namespace-shadows-runtime-module'
        return 'unclassified'
    return 'unclassified'


def _import_job(args):
    root, pkg, first, others = args
    try:
        return pygen.import_in_subprocess(root, pkg, first, others, timeout=120)
    except Exception as e:  # noqa: BLE001
        return False, 'harness: %s: %s' % (type(e).__name__, e)


def _case(pk, **kw):
    d = {'suite': 'decl.py', 'label': pk.label, 'specs': [list(s) for s in pk.specs]}
    d.update(kw)
    return d


def prepare(ck, label, specs):
    """compile + generate + py_compile. Returns Package (stage_error set when a stage failed) or None when the
    compiler refuses the spec (not an accepted spec: not judged here)."""
    pk = Package(label, specs)
    try:
        pk.compile()
    except Exception as e:  # noqa: BLE001
        ck.stat('spec_not_accepted')
        ck.note('spec not accepted by the compiler (%s: %s): %s' % (type(e).__name__, str(e)[:100], label))
        return None
    try:
        pk.generate()
    except Exception as e:  # noqa: BLE001
        cause = e.__cause__ or e.__context__ or e
        tb = traceback.format_exc()
        m = re.findall(r'(\w+(?:Error|Exception)):?', tb)
        inner = type(cause).__name__ if cause is not e else (m[0] if m else type(e).__name__)
        pk.stage_error = ('generate', inner, tb[-1200:])
        return pk
    for mod in pk.module_names():
        try:
            py_compile.compile(pk.path_of(mod), cfile=os.path.join(pk.root, 'cc_' + mod + '.pyc'), doraise=True)
        except py_compile.PyCompileError as e:
            pk.stage_error = ('compile', getattr(e, 'exc_type_name', 'SyntaxError'), str(e)[-600:])
            return pk
        except Exception as e:  # noqa: BLE001
            pk.stage_error = ('compile', type(e).__name__, str(e)[-600:])
            return pk
    return pk


def report_stage_error(ck, pk):
    stage, exc, text = pk.stage_error
    cause = classify(pk, stage, exc, text)
    ck.failing_input('python_types output cannot be %s: %s (%s)' % (
        {'generate': 'generated', 'compile': 'compiled'}[stage], exc, cause),
        {'stage': stage, 'exc': exc, 'cause': cause}, _case(pk, stage=stage, detail=text))
    ck.hist('c09.failures', '%s/%s' % (stage, cause))


def oracle_imports(ck, pks, pool):
    """one fresh interpreter per (package, first module); returns {id(pk): {first: (ok, stderr)}}"""
    jobs = []
    for pk in pks:
        mods = pk.module_names()
        for first in mods:
            jobs.append((pk, first, (pk.root, pk.pkg, first, [m for m in mods if m != first])))
    results = list(pool.map(_import_job, [j[2] for j in jobs]))
    out = {}
    for (pk, first, _a), (ok, err) in zip(jobs, results):
        out.setdefault(id(pk), {})[first] = (ok, err)
        ck.case(('import', pk.label, first, hash(tuple(t for _p, t in pk.specs))), nontrivial=True)
        ck.stat('imports.ok' if ok else 'imports.failed')
        if not ok:
            exc, text = _last_exc(err)
            cause = classify(pk, 'import', exc, text)
            ck.failing_input('generated package does not import (first = %s): %s: %s' % (first, exc, text[:160]),
                             {'stage': 'import', 'exc': exc, 'cause': cause}, _case(pk, first=first, stderr=err[-1200:]))
            ck.hist('c09.failures', 'import/%s' % cause)
    return out


# ------------------------------------------------------------------------------------------------------------------
# (c) oracle 2: introspection
# ------------------------------------------------------------------------------------------------------------------
def expected_shape(pk, t):
    """validator tree the property text implies for IR type t"""
    from stone.ir import (Alias, Boolean, Bytes, Float32, Float64, Int32, Int64, List, Map, Nullable, String, Struct,
                          Timestamp, UInt32, UInt64, Union, Void)
    from stone.backends.python_rsrc import stone_validators as bv
    if isinstance(t, Nullable):
        return ('Nullable', expected_shape(pk, t.data_type))
    if isinstance(t, Alias):
        return expected_shape(pk, t.data_type)
    if isinstance(t, List):
        return ('List', expected_shape(pk, t.data_type), t.min_items, t.max_items)
    if isinstance(t, Map):
        return ('Map', expected_shape(pk, t.key_data_type), expected_shape(pk, t.value_data_type))
    if isinstance(t, Struct):
        return ('StructTree' if t.has_enumerated_subtypes() else 'Struct', irdump.ref_of(t))
    if isinstance(t, Union):
        return ('Union', irdump.ref_of(t))
    if isinstance(t, (Int32, UInt32, Int64, UInt64)):
        vcls = getattr(bv, t.name)
        return (t.name, vcls.default_minimum if t.min_value is None else t.min_value,
                vcls.default_maximum if t.max_value is None else t.max_value)
    if isinstance(t, (Float32, Float64)):
        vcls = getattr(bv, t.name)
        return (t.name, vcls.default_minimum if t.min_value is None else float(t.min_value),
                vcls.default_maximum if t.max_value is None else float(t.max_value))
    if isinstance(t, String):
        return ('String', t.min_length, t.max_length, t.pattern)
    if isinstance(t, Timestamp):
        return ('Timestamp', t.format)
    if isinstance(t, (Bytes, Boolean, Void)):
        return (t.name,)
    raise TypeError(t)


def actual_shape(built, v):
    from stone.backends.python_rsrc import stone_validators as bv
    if isinstance(v, bv.Nullable):
        return ('Nullable', actual_shape(built, v.validator))
    if isinstance(v, bv.List):
        return ('List', actual_shape(built, v.item_validator), v.min_items, v.max_items)
    if isinstance(v, bv.Map):
        return ('Map', actual_shape(built, v.key_validator), actual_shape(built, v.value_validator))
    if isinstance(v, bv.StructTree):
        return ('StructTree', built.ref_by_cls.get(v.definition, repr(v.definition)))
    if isinstance(v, bv.Struct):
        return ('Struct', built.ref_by_cls.get(v.definition, repr(v.definition)))
    if isinstance(v, bv.Union):
        return ('Union', built.ref_by_cls.get(v.definition, repr(v.definition)))
    if isinstance(v, (bv.Integer, bv.Real)):
        return (type(v).__name__, v.minimum, v.maximum)
    if isinstance(v, bv.String):
        return ('String', v.min_length, v.max_length, v.pattern)
    if isinstance(v, bv.Timestamp):
        return ('Timestamp', v.format)
    if isinstance(v, (bv.Bytes, bv.Boolean, bv.Void)):
        return (type(v).__name__,)
    return ('?', type(v).__name__)


def _is_required(f):
    from stone.ir import Nullable
    return not isinstance(f.data_type, Nullable) and not getattr(f, 'has_default', False)


def introspect(ck, pk, n_values):
    """yields (what, signature, detail) for every promise of the property text the imported modules break"""
    from stone.backends.python_helpers import fmt_class, fmt_func, fmt_var
    from stone.backends.python_rsrc import stone_base as bb, stone_validators as bv
    from stone.ir import Struct, Union, Void, Nullable
    api = pk.api
    built = pk.built()
    ts = values.TsRegistry()
    codec = values.Codec(built, ts)
    gen = values.ValueGen(ck.rng, api, ts)
    problems = []

    def bad(kind, where, detail):
        problems.append(('module does not expose the API as promised: %s at %s' % (kind, where),
                         {'stage': 'introspect', 'kind': kind}, {'where': where, 'detail': str(detail)[:400]}))

    def value_for(t):
        try:
            tv = gen.valid(t)
            if tv is None:
                return False, None
            return True, codec.build_checked(tv) if tv[0] in ('S', 'U', 'l', 'd', 'u') else codec.to_py(tv)
        except Exception:  # noqa: BLE001 - no value could be drawn: the field is simply not exercised
            return False, None

    for ns in api.namespaces.values():
        mod = pk.mods[ns.name]
        for dt in ns.data_types:
            ref = irdump.ref_of(dt)
            cname = fmt_class(dt.name)
            cls = getattr(mod, cname, None)
            ck.case(('class', pk.label, ref))
            if not isinstance(cls, type):
                bad('class-missing', ref, cname)
                continue
            is_struct = isinstance(dt, Struct)
            # inheritance mirrors the spec
            if dt.parent_type is not None:
                pcls = getattr(pk.mods[dt.parent_type.namespace.name], fmt_class(dt.parent_type.name), None)
                want_bases = (pcls,)
            else:
                want_bases = (bb.Struct,) if is_struct else (bb.Union,)
            if cls.__bases__ != want_bases:
                bad('bases', ref, '%r != %r' % (cls.__bases__, want_bases))
            # <Name>_validator
            v = getattr(mod, cname + '_validator', None)
            want_v = bv.StructTree if (is_struct and dt.has_enumerated_subtypes()) else (bv.Struct if is_struct else bv.Union)
            if type(v) is not want_v or getattr(v, 'definition', None) is not cls:
                bad('type-validator', ref, '%r' % (v,))
            levels = irdump.chain(dt)
            members = [f for c in levels for f in c.fields]
            if is_struct:
                want_params = [fmt_var(f.name) for f in members if _is_required(f)] + \
                              [fmt_var(f.name) for f in members if not _is_required(f)]
                try:
                    params = list(inspect.signature(cls.__init__).parameters)[1:]
                except (TypeError, ValueError) as e:
                    params = ['<%s>' % e]
                if params != want_params:
                    bad('constructor-parameters', ref, '%r != %r' % (params, want_params))
                try:
                    obj = cls()
                except Exception as e:  # noqa: BLE001
                    bad('constructor-no-args', ref, '%s: %s' % (type(e).__name__, e))
                    continue
                given = {}
                for f in members:
                    attr = fmt_var(f.name)
                    ck.case(('field', pk.label, ref, f.name), nontrivial=False)
                    desc = inspect.getattr_static(cls, attr, None)
                    if not isinstance(desc, bb.Attribute):
                        bad('field-attribute-missing', '%s.%s' % (ref, f.name), repr(desc))
                        continue
                    # readable before anything is set: a declared default is what an unset field reads as
                    if getattr(f, 'has_default', False) and not isinstance(f.data_type, Nullable):
                        from stone.ir.data_types import TagRef
                        try:
                            got = getattr(obj, attr)
                            if isinstance(f.default, TagRef):
                                tagm = getattr(got, 'is_' + fmt_func(f.default.tag_name), None)
                                if not isinstance(got, bb.Union) or not callable(tagm) or not tagm():
                                    bad('field-default-read', '%s.%s' % (ref, f.name), repr(got))
                            elif not (got == f.default and isinstance(got, bool) == isinstance(f.default, bool)):
                                bad('field-default-read', '%s.%s' % (ref, f.name), '%r != %r' % (got, f.default))
                        except Exception as e:  # noqa: BLE001
                            bad('field-default-read', '%s.%s' % (ref, f.name), '%s: %s' % (type(e).__name__, e))
                    for _ in range(n_values):
                        okv, val = value_for(f.data_type)
                        if not okv:
                            ck.stat('introspect.no_value')
                            break
                        try:
                            setattr(obj, attr, val)
                            back = getattr(obj, attr)
                            if not (back == val or (back is None and val is None)):
                                bad('field-read-back', '%s.%s' % (ref, f.name), '%r != %r' % (back, val))
                            delattr(obj, attr)
                            if getattr(obj, '_%s_value' % attr) is not bb.NOT_SET:
                                bad('field-delete', '%s.%s' % (ref, f.name), 'slot still set')
                            setattr(obj, attr, val)
                            if val is not None:
                                given[attr] = val
                        except Exception as e:  # noqa: BLE001
                            bad('field-access', '%s.%s' % (ref, f.name), '%s: %s' % (type(e).__name__, e))
                            break
                if given:
                    try:
                        obj2 = cls(**given)
                        for k, val in given.items():
                            if not getattr(obj2, k) == val:
                                bad('constructor-sets-field', '%s.%s' % (ref, k), '%r != %r' % (getattr(obj2, k), val))
                    except Exception as e:  # noqa: BLE001
                        bad('constructor-call', ref, '%s: %s' % (type(e).__name__, e))
            else:
                tag_names = [fmt_func(f.name) for f in members]
                for f in members:
                    tag = fmt_func(f.name)
                    where = '%s.%s' % (ref, f.name)
                    ck.case(('tag', pk.label, ref, f.name), nontrivial=False)
                    if not callable(getattr(cls, 'is_' + tag, None)):
                        bad('is-method-missing', where, 'is_' + tag)
                        continue
                    if isinstance(f.data_type, Void):
                        inst = getattr(cls, fmt_var(f.name), None)
                        if not isinstance(inst, bb.Union) or not issubclass(cls, type(inst)):
                            bad('void-tag-instance', where, repr(inst))
                            continue
                        try:
                            on = [t for t in tag_names if callable(getattr(inst, 'is_' + t, None)) and getattr(inst, 'is_' + t)()]
                        except Exception as e:  # noqa: BLE001
                            bad('is-method-call', where, '%s: %s' % (type(e).__name__, e))
                            continue
                        if on != [tag]:
                            bad('void-tag-instance-tag', where, on)
                    else:
                        if not callable(getattr(cls, 'get_' + tag, None)):
                            bad('get-method-missing', where, 'get_' + tag)
                        owner = next((c for c in cls.__mro__ if tag in vars(c)), None)
                        if owner is None or not isinstance(vars(owner)[tag], classmethod):
                            bad('constructor-method-missing', where, tag)
                            continue
                        inner = f.data_type.data_type if isinstance(f.data_type, Nullable) else f.data_type
                        okv, val = value_for(inner)
                        if not okv or val is None:
                            ck.stat('introspect.no_value')
                            continue
                        try:
                            u = getattr(cls, tag)(val)
                            if not isinstance(u, cls) or not getattr(u, 'is_' + tag)() or not getattr(u, 'get_' + tag)() == val:
                                bad('constructor-method-result', where, repr(u))
                        except Exception as e:  # noqa: BLE001
                            bad('constructor-method-call', where, '%s: %s' % (type(e).__name__, e))
        for a in ns.aliases:
            ck.case(('alias', pk.label, ns.name, a.name))
            v = getattr(mod, fmt_class(a.name) + '_validator', None)
            if v is None or not isinstance(v, bv.Validator):
                bad('alias-validator-missing', '%s.%s' % (ns.name, a.name), repr(v))
                continue
            want = expected_shape(pk, a.data_type)
            got = actual_shape(built, v)
            if want != got:
                bad('alias-validator-shape', '%s.%s' % (ns.name, a.name), '%r != %r' % (got, want))
        schema = api.route_schema
        routes_tbl = getattr(mod, 'ROUTES', None)
        if not isinstance(routes_tbl, dict):
            bad('ROUTES-missing', ns.name, repr(routes_tbl))
            routes_tbl = {}
        want_keys = set()
        for r in ns.routes:
            where = '%s.%s:%d' % (ns.name, r.name, r.version)
            ck.case(('route', pk.label, where))
            obj = getattr(mod, fmt_func(r.name, version=r.version), None)
            key = r.name if r.version == 1 else '%s:%d' % (r.name, r.version)
            want_keys.add(key)
            if not isinstance(obj, bb.Route):
                bad('route-object-missing', where, repr(obj))
                continue
            if obj.name != r.name or obj.version != r.version or obj.deprecated is not (r.deprecated is not None):
                bad('route-identity', where, '%r %r %r' % (obj.name, obj.version, obj.deprecated))
            for part in ('arg', 'result', 'error'):
                want = expected_shape(pk, getattr(r, part + '_data_type'))
                got = actual_shape(built, getattr(obj, part + '_type'))
                if want != got:
                    bad('route-%s-validator' % part, where, '%r != %r' % (got, want))
            # attrs: what the spec says, restricted to / completed by the schema
            given = {}
            for an in (r._ast_node.attrs or []):
                given[an.name] = an.value
            want_attrs = {}
            skip = set()       # attributes whose value is not compared (Timestamp / Bytes / unknown literal kinds)
            for f in (schema.fields if schema is not None else []):
                if f.name in given:
                    val = given[f.name]
                    from stone.ir import Timestamp, Bytes
                    from stone.ir.data_types import TagRef
                    inner = f.data_type.data_type if isinstance(f.data_type, Nullable) else f.data_type
                    if isinstance(inner, (Timestamp, Bytes)):
                        skip.add(f.name)
                    elif val is not None and not isinstance(val, (bool, int, float, str)):
                        tag = getattr(val, 'tag', None)
                        if isinstance(tag, str) and isinstance(r.attrs.get(f.name), TagRef):
                            val = r.attrs[f.name]      # a union tag: compared by its tag name below
                            if val.tag_name != tag:
                                skip.add(f.name)
                        else:
                            skip.add(f.name)
                    want_attrs[f.name] = val
                elif f.has_default:
                    want_attrs[f.name] = f.default
                else:
                    want_attrs[f.name] = None
            if not isinstance(obj.attrs, dict) or set(obj.attrs) != set(want_attrs):
                bad('route-attrs-keys', where, '%r != %r' % (sorted(obj.attrs) if isinstance(obj.attrs, dict) else obj.attrs, sorted(want_attrs)))
            else:
                from stone.ir.data_types import TagRef
                for k, wv in want_attrs.items():
                    if k in skip:
                        continue
                    if isinstance(wv, TagRef):
                        gv = obj.attrs[k]
                        m_ = getattr(gv, 'is_' + fmt_func(wv.tag_name), None)
                        if not isinstance(gv, bb.Union) or not callable(m_) or not m_():
                            bad('route-attrs-value', '%s attr %s' % (where, k), repr(gv))
                        continue
                    gv = obj.attrs[k]
                    if not (gv == wv and (isinstance(gv, bool) == isinstance(wv, bool))):
                        bad('route-attrs-value', '%s attr %s' % (where, k), '%r != %r' % (gv, wv))
            if routes_tbl.get(key) is not obj:
                bad('ROUTES-entry', where, repr(routes_tbl.get(key)))
        if set(routes_tbl) != want_keys:
            bad('ROUTES-keys', ns.name, '%r != %r' % (sorted(routes_tbl), sorted(want_keys)))
    return problems


# ------------------------------------------------------------------------------------------------------------------
# the suites
# ------------------------------------------------------------------------------------------------------------------
def suite_fmt(ck):
    """naming functions: real `fmt_class` / `fmt_func` / `fmt_var` / `fmt_namespace` vs the model"""
    from stone.backends.python_helpers import fmt_class, fmt_func, fmt_var, fmt_namespace
    rng = ck.rng
    names = ['HTTPCode', 'AS', 'get_file', 'GetFile', '_Hidden', 'a/b_c', 'URLSpec', 'T1', 'IOError2', 'camelCase', 'class',
             'x-y', 'A1B2', 'aBC', 'ABc9D', 'snake_type', 'for', 'async', 'pass', 'a__b', 'a_', '_', 'A', 'a', 'AB', 'Ab', 'aB',
             'ABCdef', 'abcDEF', 'abcDEFgh', 'X9', '9x', 'x9Y', 'HTTP2Server', 'getHTTPResponseCode', 'get/HTTP-code_v2',
             'list_folder/continue', 'while', 'break', 'continue', 'Foo_validator', 'UPPER_CASE', 'Mixed_Case_Name', 'a1B2c3',
             'A_B', 'aA', 'AAa', 'AaA', 'aAa', 'AAAa1', 'a-b/c_d', 'x--y', '/x', 'x/']
    alphabet = 'abcxyzABCXYZ019_-/'
    for _ in range(ck.scale(400, 4000)):
        n = rng.randint(1, 10)
        names.append(''.join(rng.choice(alphabet) for _ in range(n)))
    names = [n for n in dict.fromkeys(names) if n]
    rep = ck.driver([{'op': 'decl.py.fmt', 'names': names}])[0]
    if 'ok' not in rep:
        ck.disagree('decl.py.fmt', {'names': names[:5]}, 'answer', rep)
        return
    for n, got in zip(names, rep['ok']):
        real = [fmt_class(n), fmt_func(n), fmt_var(n), fmt_func(n, check_reserved=True), fmt_var(n, True),
                fmt_func(n, version=2), fmt_namespace(n)]
        ck.case(('fmt', n))
        if real == got:
            ck.agree('decl.py.fmt')
        else:
            ck.disagree('decl.py.fmt', {'name': n}, real, got)


def correspondence(ck, pk, import_results):
    """(a): statement lists, and the model's verdicts against the real interpreter"""
    from stone.backends.python_helpers import fmt_func
    if any(ns.name in RUNTIME_NAMES or any(fmt_func(r.name, version=r.version) in RUNTIME_NAMES for r in ns.routes)
           for ns in pk.api.namespaces.values()):
        # the model (like the AST reduction) takes `bb` / `bv` to be the runtime modules; a spec that rebinds them is
        # judged by the direct oracles only
        ck.stat('correspondence.skipped_runtime_name_rebound')
        return None
    dump = api_dump(pk.api)
    rep = ck.driver([{'op': 'decl.py.stmts', 'api': dump}])[0]
    if 'modules' not in rep:
        ck.disagree('decl.py.stmts', {'label': pk.label}, 'statement lists', rep)
        return None
    model = {m: [model_stmt(s) for s in stmts] for m, stmts in rep['modules']}
    for mod in pk.module_names():
        real = reduce_module(open(pk.path_of(mod), encoding='utf-8').read(), pk.module_names())
        got = model.get(mod)
        ck.case(('stmts', pk.label, mod, len(real)))
        ck.hist('c09.statements_per_module', min(len(real) // 25 * 25, 300))
        if got == real:
            ck.agree('decl.py.stmts')
        else:
            i = next((k for k in range(min(len(real), len(got or []))) if real[k] != got[k]), min(len(real), len(got or [])))
            ck.disagree('decl.py.stmts', _case(pk, module=mod, index=i),
                        repr(real[i:i + 2]), repr((got or [])[i:i + 2]))
    # the model's import verdict per first module vs the fresh interpreters
    if import_results is not None:
        for first, verdict in rep['imports']:
            ok_real = import_results.get(first, (None, ''))[0]
            if ok_real is None:
                continue
            ck.case(('verdict', pk.label, first), nontrivial=False)
            if (verdict == 'ok') == bool(ok_real):
                ck.agree('decl.py.import_verdict')
            else:
                ck.disagree('decl.py.import_verdict', _case(pk, first=first),
                            'imports' if ok_real else import_results[first][1][-300:], verdict)
        # import_safe's hypotheses must hold of everything the compiler accepts and that really imports
        all_ok = all(v[0] for v in import_results.values())
        ck.case(('wf', pk.label), nontrivial=False)
        wf = bool(rep['apiWF']) and bool(rep['acyclic'])
        ck.hist('c09.apiWF', '%s/%s' % ('wf' if wf else 'not-wf', 'imports' if all_ok else 'fails'))
        if wf and not all_ok:
            ck.disagree('decl.py.wf_implies_import', _case(pk), 'some first import fails', 'apiWF and acyclic hold')
        elif wf:
            ck.agree('decl.py.wf_implies_import')
    return rep


def run_specs(ck, sources, n_values=2, workers=12, expect_fail=False):
    pks = []
    for label, specs in sources:
        pk = prepare(ck, label, specs)
        if pk is None:
            continue
        ck.hist('c09.namespaces', len(pk.api.namespaces))
        ck.hist('c09.source', label.split('#')[0])
        if pk.stage_error is not None:
            ck.case(('stage', label))
            report_stage_error(ck, pk)
            continue
        pks.append(pk)
    with concurrent.futures.ThreadPoolExecutor(max_workers=workers) as pool:
        results = oracle_imports(ck, pks, pool)
    for pk in pks:
        res = results.get(id(pk), {})
        correspondence(ck, pk, res)
        if all(v[0] for v in res.values()):
            try:
                pk.import_here()
            except Exception as e:  # noqa: BLE001 - the subprocess imported it: an in-process failure is ours
                ck.note('in-process import failed after subprocess success (%s): %s' % (type(e).__name__, pk.label))
                continue
            for what, sig, detail in introspect(ck, pk, n_values):
                ck.failing_input(what, sig, _case(pk, **detail))
                ck.hist('c09.failures', 'introspect/%s' % sig['kind'])
            ck.stat('introspected')
    if pks:
        ck.sample({'label': pks[0].label, 'modules': pks[0].module_names()})
    return pks


def suite_all(ck):
    suite_fmt(ck)
    run_specs(ck, hand_specs(), n_values=ck.scale(2, 4))
    run_specs(ck, [('defect:' + name, specs) for name, specs in DEFECT_SEEDS])
    run_specs(ck, generated_specs(ck, ck.scale(26, 400)), n_values=ck.scale(1, 3))


def replay(ck, path):
    rec = json.load(open(path))
    case = rec.get('case', {})
    print(json.dumps({k: case[k] for k in case if k != 'specs'}, indent=1, default=repr)[:3000])
    if 'specs' not in case:
        print('replay: nothing executable recorded (%s)' % rec.get('what', rec.get('broken')))
        return 0
    ck.build()
    specs = [tuple(s) for s in case['specs']]
    for p, t in specs:
        print('--- %s\n%s' % (p, t))
    run_specs(ck, [(case.get('label', 'replay'), specs)])
    for v in ck.violations:
        print('still failing:', v['what'])
    for k, what in ck.known_hits:
        print('known finding:', k, what)
    for name, s in ck.suites.items():
        if s['disagreements']:
            print('disagreement %s: %s' % (name, json.dumps(s['first'][:1], default=repr)[:1500]))
    return 1 if ck.violations else 0
