"""Suite `layout` (C11, part B and the stdin oracle of part C): DIFFERENTIAL TESTING on the real toolchain.

Nothing here is a proof.  For generated models (harness/specgen.py) and for the hand-written specs under
harness/specs, the reference layout is compiled with the real `specs_to_ir`, the canonical signature of the Api
(harness/apisig.py) is taken, and then the same model is presented under many other layouts:

  file-perm   every permutation of the file list when there are <= 4 files, random ones beyond
  def-perm    random permutations of the top-level definitions inside each file
  resplit     every namespace re-partitioned into 1-6 files (definitions shuffled, imports repeated at random,
              the namespace doc kept in ONE file: docs of several files concatenate in file order - documented)
  insert      a blank / space-only / comment-only line at EVERY line boundary outside string literals (one variant
              per boundary for small specs, random subsets of boundaries for big ones), trailing blanks / comments
  doc-trail   blanks / tabs at the end of a line INSIDE a multi-line documentation string (an empty line between two
              paragraphs included): one line at a time, and every such line at once (doc-trail-all); the parser trims
              every line of a doc, so the Api must not change
  brk         continuation-line variants of parenthesised lists
  noise       all of the text-level changes at once
  mixed       `specgen.gen_layout`: everything at once, plus nested definitions and equivalent syntax

and the signature must not change.  For a subset the built-in backends are run on reference and variant into two
scratch folders and the outputs are compared byte for byte.  `suite_stdin` feeds the concatenated files through
`stone.cli.main`'s standard input and compares the Api a capturing backend receives with the file-based run.

A difference is reported through `ck.failing_input` with both file sets, shrunk by dropping files and definitions
while the difference persists.  Differences that are confined to one of the order-of-declaration components that
`apisig.MASKABLE` names are reported under that component's own signature (`{'kind': 'layout-order', 'component': ..}`)
so that each is one finding and the rest of the Api stays under test.
"""
import contextlib
import functools
import importlib
import io
import itertools
import os
import re
import shutil
import sys

from harness import core
from harness import apisig
from harness.suites import fe_lex

SPEC_DIR = os.path.join(core.VERIF, 'harness', 'specs', 'c11')


# ------------------------------------------------------------------------------------------------ compiling

FAST = [True]          # reuse one ParserFactory (ply rebuilds its LALR tables for every specs_to_ir call: 50 ms)
_FACTORY = []


class _SharedFactory:
    """stands in for `ParserFactory` inside `stone.frontend.frontend` while `specs_to_ir` runs: the same factory object
    every time, reset the way a new one would be.  Every difference found on this fast path is re-evaluated with the
    untouched `specs_to_ir` before it is reported (`confirmed`)."""
    def __new__(cls, debug=False):
        from stone.frontend import parser as sp
        from stone.frontend.lexer import Lexer
        if not _FACTORY:
            _FACTORY.append(sp.ParserFactory(debug=debug))
        pf = _FACTORY[0]
        pf.errors = []
        pf.lexer = Lexer()
        pf.path = None
        pf.anony_defs = []
        pf.exhausted = True
        return pf


def compile_files(files, fast=None):
    """-> ('ok', api) | ('invalid', msg) | ('crash', exception type name)"""
    from stone.frontend import frontend
    from stone.frontend.exception import InvalidSpec
    fast = FAST[0] if fast is None else fast
    real = frontend.ParserFactory
    if fast:
        frontend.ParserFactory = _SharedFactory
    try:
        with contextlib.redirect_stdout(io.StringIO()), contextlib.redirect_stderr(io.StringIO()):
            api = frontend.specs_to_ir([(p, t) for p, t in files])
    except InvalidSpec as e:
        return ('invalid', '%s' % (e.msg,))
    except RecursionError:
        return ('crash', 'RecursionError')
    except Exception as e:                       # noqa: C03 judges escapes; here only "same outcome" matters
        return ('crash', type(e).__name__)
    finally:
        frontend.ParserFactory = real
    if api is None:
        return ('invalid', 'parse errors')
    return ('ok', api)


def slow_mode():
    """from here on compile with the untouched specs_to_ir (used while a difference is confirmed, shrunk, reported)"""
    FAST[0] = False
    _compiled.cache_clear()
    _outcome.cache_clear()


def fast_mode():
    FAST[0] = True
    _compiled.cache_clear()
    _outcome.cache_clear()


@functools.lru_cache(maxsize=24)
def _compiled(key):
    return compile_files(key)


@functools.lru_cache(maxsize=96)
def _outcome(key, mask):
    st = _compiled(key)
    if st[0] == 'ok':
        return ('ok', apisig.signature(st[1], mask=mask))
    return st


def outcome(files, mask=()):
    """('ok', signature) | ('invalid', msg) | ('crash', type); compiled once per file set (the signature never
    writes to the Api; backends get their own fresh compilation)"""
    return _outcome(tuple((p, t) for p, t in files), tuple(mask))


def generalise(path):
    """a diff path without indices / names: 'namespaces[].data_types[].fields[].doc'"""
    if not path:
        return ''
    head = path.split(': ')[0]
    head = re.sub(r'<[^>]*>', '', head)
    return re.sub(r'\[[^\]]*\]', '[]', head)[:120]


def involved_components(ref_files, var_files):
    """which MASKABLE components carry the difference between two compilable file sets.
    -> (components, residual): residual = first difference that remains with every component masked (or None).
    Without a residual, component m is involved iff un-masking m alone makes the signatures differ.  With a residual
    a component is named only if un-masking it changes the first difference (best effort: the residual is a
    violation of its own anyway)."""
    full = tuple(apisig.MASKABLE)
    a, b = outcome(ref_files, full), outcome(var_files, full)
    residual = None
    if a != b:
        residual = apisig.diff(a[1], b[1]) if a[0] == b[0] == 'ok' else '%s vs %s' % (a[0], b[0])
    comps = []
    for m in full:
        rest = tuple(x for x in full if x != m)
        a, b = outcome(ref_files, rest), outcome(var_files, rest)
        if a == b:
            continue
        if residual is None:
            comps.append(m)
        elif a[0] == b[0] == 'ok' and apisig.diff(a[1], b[1]) != residual:
            comps.append(m)
    return comps, residual


def differs(ref_files, var_files, mask=()):
    a, b = outcome(ref_files, mask), outcome(var_files, mask)
    return a != b


# ------------------------------------------------------------------------------------------------ text blocks

HEADER_RE = re.compile(r'^[A-Za-z_]')


def block_key(line):
    """'struct Foo', 'patch struct Foo', 'route get:2', 'alias X', 'annotation A', ..."""
    s = line.split('#')[0]
    s = re.sub(r'[(=].*$', '', s).strip()
    words = s.split()
    if not words:
        return None
    n = 3 if words[0] == 'patch' else 2
    return ' '.join(words[:n])


def parse_blocks(text):
    """-> (head_lines, blocks): head = everything up to the first definition (namespace line, its doc, imports,
    comments); blocks = [(key, [lines])].  Line-based; only used on texts without column-0 string continuation
    lines or as a best-effort shrinker (a wrong cut yields a text that does not compile and is discarded)."""
    lines = text.split('\n')
    if lines and lines[-1] == '':
        lines.pop()
    head, blocks = [], []
    cur = None
    for ln in lines:
        if HEADER_RE.match(ln) and ln.split()[0] not in ('namespace', 'import'):
            cur = (block_key(ln), [ln])
            blocks.append(cur)
        elif cur is None:
            head.append(ln)
        else:
            cur[1].append(ln)
    return head, blocks


def unparse(head, blocks):
    out = list(head)
    for _k, ls in blocks:
        out.extend(ls)
    return '\n'.join(out) + '\n'


def text_variants(rng, files, n):
    """layout variants of hand-written file sets, made on the text: definition permutations, re-splits, file
    permutations (used where no specgen model exists)"""
    out = []
    parsed = [(p, parse_blocks(t)) for p, t in files]
    for k in range(n):
        kind = ('def-perm', 'resplit', 'file-perm')[k % 3]
        new = []
        for p, (head, blocks) in parsed:
            bl = list(blocks)
            if kind == 'def-perm':
                rng.shuffle(bl)
                new.append((p, unparse(head, bl)))
            elif kind == 'resplit' and len(bl) >= 2:
                rng.shuffle(bl)
                parts = rng.randint(2, min(6, len(bl)))
                cuts = sorted(rng.sample(range(1, len(bl)), parts - 1))
                pieces = [bl[a:b] for a, b in zip([0] + cuts, cuts + [len(bl)])]
                # the namespace line and the imports go into every piece; a namespace doc (indented lines after
                # the namespace line) only into the first
                ns_line = [h for h in head if h.startswith('namespace')][:1]
                imports = [h for h in head if h.startswith('import')]
                for i, piece in enumerate(pieces):
                    hd = list(head) if i == 0 else ns_line + [''] + imports + ['']
                    new.append(('%s_%d.stone' % (p[:-6], i), unparse(hd, piece)))
            else:
                new.append((p, unparse(head, bl)))
        if kind == 'file-perm' or rng.random() < 0.5:
            rng.shuffle(new)
        out.append((kind, new))
    return out


# ------------------------------------------------------------------------------------------------ shrinking

def shrink(ref_files, var_files, still_fails, budget=120):
    """drop files, then definitions (by header, from both sides) while `still_fails(ref, var)` holds"""
    ref, var = list(ref_files), list(var_files)
    spent = 0
    # whole namespaces' worth of files: try dropping every file whose namespace line is the same
    def ns_of(t):
        m = re.search(r'^\s*namespace\s+(\S+)', t, re.M)
        return m.group(1) if m else None
    changed = True
    while changed and spent < budget:
        changed = False
        for ns in sorted({ns_of(t) for _p, t in ref} - {None}):
            r2 = [(p, t) for p, t in ref if ns_of(t) != ns]
            v2 = [(p, t) for p, t in var if ns_of(t) != ns]
            if not r2 or not v2:
                continue
            spent += 1
            try:
                if still_fails(r2, v2):
                    ref, var, changed = r2, v2, True
                    break
            except Exception:                         # noqa
                pass
            if spent >= budget:
                break
    changed = True
    while changed and spent < budget:
        changed = False
        keys = []
        for _p, t in ref:
            keys.extend(k for k, _ls in parse_blocks(t)[1] if k)
        for key in keys:
            def without(files):
                out = []
                for p, t in files:
                    head, blocks = parse_blocks(t)
                    out.append((p, unparse(head, [b for b in blocks if b[0] != key])))
                return out
            r2, v2 = without(ref), without(var)
            if r2 == ref:
                continue
            spent += 1
            try:
                if still_fails(r2, v2):
                    ref, var, changed = r2, v2, True
                    break
            except Exception:                         # noqa
                pass
            if spent >= budget:
                break
    return ref, var


# ------------------------------------------------------------------------------------------------ the judgement

def report(ck, what, sig, make_case):
    """ck.failing_input, but the (expensive, shrinking) case is only built for the first report of a signature that is
    not a listed finding"""
    import json
    key = json.dumps(sig, sort_keys=True, default=repr)
    if ck._match_finding(sig) is not None or key in [v['key'] for v in ck.violations]:
        return ck.failing_input(what, sig, {})
    return ck.failing_input(what, sig, make_case())


def judge_pair(ck, ref_files, var_files, vkind, extra=None, do_shrink=True):
    """compare the Api of two layouts of one model; report; -> True if they agree"""
    ref_files = [list(x) for x in ref_files]
    var_files = [list(x) for x in var_files]
    a = outcome(ref_files)
    b = outcome(var_files)
    if a[0] != 'ok':
        if b[0] != 'ok':
            ck.stat('layout.neither_layout_compiles')
            return True
        # acceptance depends on the layout, the other way round: judge with the roles exchanged
        ck.stat('layout.reference_rejected_variant_accepted')
        ref_files, var_files, a, b = var_files, ref_files, b, a
        vkind = vkind + '-reversed'
    if FAST[0]:
        ck.case(('layout', vkind, tuple(t for _p, t in var_files)))
        ck.stat('layout.variant.%s' % vkind)
    if a == b:
        ck.agree('layout.sig')
        return True
    if FAST[0]:
        # confirm with the untouched compiler, and stay on it while the difference is analysed and shrunk
        slow_mode()
        try:
            ok = judge_pair(ck, ref_files, var_files, vkind, extra, do_shrink)
            if ok:
                ck.stat('layout.fast_path_artefact')
            return ok
        finally:
            fast_mode()
    case = {'suite': 'layout', 'mode': 'sig', 'variant_kind': vkind}
    if extra:
        case.update(extra)
    if b[0] != 'ok':
        def mk():
            fails = lambda r, v: outcome(r)[0] == 'ok' and outcome(v)[0] != 'ok'      # noqa: E731
            r2, v2 = shrink(ref_files, var_files, fails) if do_shrink else (ref_files, var_files)
            return dict(case, reference=r2, variant=v2, first_difference='variant %s: %s' % (b[0], b[1]))
        report(ck, 'C11: a layout variant (%s) of a compilable specification is rejected: %s' % (vkind, b[1]),
               {'kind': 'layout', 'component': 'accept', 'variant': vkind}, mk)
        ck.stat('layout.sig.differences')
        return False
    comps, residual = involved_components(ref_files, var_files)
    for m in comps:
        ck.hist('layout.order_component', m)
        rest = tuple(x for x in apisig.MASKABLE if x != m)
        d0 = apisig.diff(outcome(ref_files, rest)[1], outcome(var_files, rest)[1])

        def mk(m=m, rest=rest):
            fails = lambda r, v: outcome(r)[0] == 'ok' and m_differs(r, v, m)         # noqa: E731
            r2, v2 = shrink(ref_files, var_files, fails) if do_shrink else (ref_files, var_files)
            d = apisig.diff(outcome(r2, rest)[1], outcome(v2, rest)[1])
            return dict(case, reference=r2, variant=v2, first_difference=d, component=m)
        report(ck, 'C11: the Api depends on the layout (%s) in its component `%s`: %s' % (vkind, m, d0),
               {'kind': 'layout-order', 'component': m}, mk)
    if residual is not None:
        def mk():
            fails = lambda r, v: outcome(r)[0] == 'ok' and differs(r, v, apisig.MASKABLE)          # noqa: E731
            r2, v2 = shrink(ref_files, var_files, fails) if do_shrink else (ref_files, var_files)
            oa, ob = outcome(r2, apisig.MASKABLE), outcome(v2, apisig.MASKABLE)
            d = apisig.diff(oa[1], ob[1]) if oa[0] == ob[0] == 'ok' else '%s vs %s' % (oa[0], ob[0])
            return dict(case, reference=r2, variant=v2, first_difference=d)
        report(ck, 'C11: the Api depends on the layout (%s): %s' % (vkind, residual),
               {'kind': 'layout', 'component': 'api', 'where': generalise(residual)}, mk)
    if not comps and residual is None:
        # unmasked signatures differ but no component explains it (cannot happen; keep the evidence)
        ck.failing_input('C11: the Api depends on the layout (%s)' % vkind, {'kind': 'layout', 'component': 'api'},
                         dict(case, reference=ref_files, variant=var_files,
                              first_difference=apisig.diff(a[1], b[1])))
    ck.stat('layout.sig.differences')
    return False


def m_differs(ref_files, var_files, m):
    """the two file sets differ in component m (everything else masked) but agree with m masked as well"""
    rest = tuple(x for x in apisig.MASKABLE if x != m)
    a, b = outcome(ref_files, rest), outcome(var_files, rest)
    return a[0] == b[0] == 'ok' and a != b and outcome(ref_files, apisig.MASKABLE) == outcome(var_files, apisig.MASKABLE)


# ------------------------------------------------------------------------------------------------ layouts of a model

def layouts_of(rng, sg, m, n_layouts):
    """[(kind, Layout)] for a generated model"""
    import copy
    ref = sg.reference_layout(m)
    out = []
    # file permutations
    order = list(ref.file_order)
    if len(order) <= 4:
        perms = [list(p) for p in itertools.permutations(order)][1:]
    else:
        perms = []
        for _ in range(max(4, n_layouts // 2)):
            p = list(order)
            rng.shuffle(p)
            perms.append(p)
    for p in perms:
        lay = copy.deepcopy(ref)
        lay.file_order = p
        out.append(('file-perm', lay))
    # definition permutations inside each file
    for _ in range(max(2, n_layouts // 6)):
        lay = copy.deepcopy(ref)
        for nsn, files in lay.files.items():
            for f in files:
                rng.shuffle(f)
        if rng.random() < 0.5:
            rng.shuffle(lay.file_order)
        out.append(('def-perm', lay))
    # re-splits into 1-6 files
    for _ in range(max(3, n_layouts // 4)):
        lay = sg.gen_layout(rng, m, noise=False)
        lay.inline = []
        out.append(('resplit', lay))
    # text-level noise on the reference files
    for kind, nz in (('brk', dict(brk=1.0)), ('brk', dict(brk=0.5)),
                     ('noise', dict(blank=0.2, comment=0.15, trail_ws=0.15, trail_comment=0.1, brk=0.4)),
                     ('noise', dict(blank=1.0, comment=0.0)), ('noise', dict(blank=0.0, comment=1.0))):
        lay = copy.deepcopy(ref)
        lay.noise = dict(dict(seed=rng.getrandbits(32), blank=0.0, comment=0.0, trail_ws=0.0, trail_comment=0.0,
                              brk=0.0, syntax=0.0), **nz)
        if nz.get('blank', 0) + nz.get('comment', 0) >= 1.0:
            # rate 1.0 would never stop inserting: specgen's filler loops while r < p_blank + p_comment
            lay.noise['blank'] = min(lay.noise['blank'], 0.6)
            lay.noise['comment'] = min(lay.noise['comment'], 0.6) if nz.get('comment') else 0.0
        out.append((kind, lay))
    # everything at once
    for _ in range(max(2, n_layouts // 6)):
        out.append(('mixed', sg.gen_layout(rng, m)))
    return out


def insertion_variants(rng, files, per_boundary_cap, subsets):
    """[(kind, files)]: one inserted line per boundary (all boundaries of small specs), plus `subsets` variants that
    insert at a random subset of ALL boundaries of ALL files at once (and one that inserts at every boundary);
    white space appended to lines inside documentation strings (`fe_lex.doc_trail_variants`, and mixed into the
    subsets)"""
    out = []
    total = sum(t.count('\n') + 1 for _p, t in files)
    cap = total if total <= per_boundary_cap else max(1, per_boundary_cap // max(1, len(files)))
    for i, (p, t) in enumerate(files):
        for kind, where, filler, vt in fe_lex.insert_variants(rng, t, cap):
            out.append(('insert' if kind == 'insert' else 'trail',
                        [(q, vt if j == i else u) for j, (q, u) in enumerate(files)]))
    # whitespace at the end of a line INSIDE a multi-line documentation string (the parser trims every doc line)
    for i, (p, t) in enumerate(files):
        for kind, _where, _tail, vt in fe_lex.doc_trail_variants(rng, t, cap):
            out.append((kind, [(q, vt if j == i else u) for j, (q, u) in enumerate(files)]))
    fillers = ['', '  ', '    ', '# c', '        # struct Foo', '#', '\t', '            ']
    for s in range(subsets):
        rate = 1.0 if s == 0 else rng.choice((0.2, 0.5, 0.8))
        new = []
        for p, t in files:
            recs, _info = fe_lex.abstract(t)
            raw = (t + '\n').split('\n')[:-1]
            ok = set(fe_lex.closed_boundaries(recs))
            doc_lines = set(fe_lex.doc_interior_lines(t))
            lines = []
            for b in range(len(raw) + 1):
                if b in ok and rng.random() < rate:
                    for _ in range(rng.choice((1, 1, 2))):
                        lines.append(rng.choice(fillers))
                if b < len(raw):
                    r = recs[b]
                    ln = raw[b]
                    if r['k'] == 'g' and not r['open'] and rng.random() < rate * 0.5:
                        ln += rng.choice((' ', '   ', '  # t', ' #', '\t'))
                    elif b in doc_lines and rng.random() < rate * 0.5:
                        ln += rng.choice(fe_lex.DOC_TAILS)
                    lines.append(ln)
            new.append((p, '\n'.join(lines) + '\n'))
        out.append(('insert-many', new))
    return out


# ------------------------------------------------------------------------------------------------ backends

def backend_runs(all_arg_sets=True):
    """(backend, args, needs template) from the C18 table; `all_arg_sets` False = the first argument set per backend"""
    from harness.suites import be
    runs = [(n, a, t) for n, a, t, refused in be.BACKEND_RUNS if not refused and '..' not in ' '.join(a)]
    if not all_arg_sets:
        seen, first = set(), []
        for r in runs:
            if r[0] not in seen:
                seen.add(r[0])
                first.append(r)
        runs = first
    return runs, be.TEMPLATE


def _clear_files(out):
    """empty `out` of files but keep its directories (rmdir costs 80 ms on this file system; stale empty folders do
    not take part in the byte comparison)"""
    os.makedirs(out, exist_ok=True)
    for r, _d, fs in os.walk(out):
        for f in fs:
            os.unlink(os.path.join(r, f))


def run_backend(files, name, args, template_text, out):
    """-> ('ok', {relative path: bytes}) | ('exc', exception type name)"""
    from stone.compiler import Compiler, BackendException
    st = compile_files(files, fast=False)
    if st[0] != 'ok':
        return ('spec-' + st[0], st[1])
    _clear_files(out)
    if template_text is not None:
        with open(os.path.join(out, 't.template'), 'w') as fh:
            fh.write(template_text)
    home = os.getcwd()
    try:
        mod = importlib.import_module('stone.backends.' + name)
        c = Compiler(st[1], mod, list(args), out)
        with contextlib.redirect_stdout(io.StringIO()), contextlib.redirect_stderr(io.StringIO()):
            c.build()
    except BackendException as e:
        last = (e.traceback or '').strip().splitlines()[-1:] or ['']
        return ('exc', last[0].split(':')[0][:60])
    except SystemExit as e:
        return ('exc', 'SystemExit %s' % (e.code,))
    except Exception as e:                       # noqa
        return ('exc', type(e).__name__)
    finally:
        os.chdir(home)
    res = {}
    for r, _d, fs in os.walk(out):
        for f in fs:
            p = os.path.join(r, f)
            with open(p, 'rb') as fh:
                res[os.path.relpath(p, out)] = fh.read()
    return ('ok', res)


def first_byte_difference(a, b):
    for k in sorted(set(a) | set(b)):
        if a.get(k) != b.get(k):
            if k not in a or k not in b:
                return '%s: only in %s' % (k, 'variant' if k not in a else 'reference')
            x, y = a[k].decode('utf-8', 'replace').splitlines(), b[k].decode('utf-8', 'replace').splitlines()
            for i, (l1, l2) in enumerate(itertools.zip_longest(x, y)):
                if l1 != l2:
                    return '%s line %d: %r != %r' % (k, i + 1, l1, l2)
            return '%s: differ in line ends' % k
    return None


def judge_backends(ck, ref_files, var_files, vkind, backends, scratch, do_shrink=True):
    runs, template = backend_runs(all_arg_sets=ck.tier == 'thorough')
    for name, args, needs_template in runs:
        if backends is not None and name not in backends:
            continue
        tt = template if needs_template else None
        a = run_backend(ref_files, name, args, tt, os.path.join(scratch, 'ref'))
        b = run_backend(var_files, name, args, tt, os.path.join(scratch, 'var'))
        ck.case(('backend', name, tuple(args), tuple(t for _p, t in var_files)), nontrivial=a[0] == 'ok')
        ck.hist('layout.backend.outcome', '%s:%s' % (name, a[0] if a[0] != 'exc' else 'exc ' + a[1]))
        if a == b:
            ck.agree('layout.bytes')
            continue
        if a[0].startswith('spec-') or b[0].startswith('spec-'):
            ck.stat('layout.bytes.variant_not_compilable')     # reported by judge_pair as an `accept` difference
            continue
        sigs_equal = outcome(ref_files) == outcome(var_files)
        diff = first_byte_difference(a[1], b[1]) if a[0] == b[0] == 'ok' else '%s vs %s' % (a[:2], b[:2])

        def mk(name=name, args=args, tt=tt, a=a, diff=diff, needs_template=needs_template):
            def fails(r, v):
                x = run_backend(r, name, args, tt, os.path.join(scratch, 'sref'))
                y = run_backend(v, name, args, tt, os.path.join(scratch, 'svar'))
                return x[0] == a[0] and x != y
            r2, v2 = shrink(ref_files, var_files, fails, budget=60) if do_shrink else (ref_files, var_files)
            return {'suite': 'layout', 'mode': 'backend', 'backend': name, 'args': list(args),
                    'template': needs_template, 'variant_kind': vkind, 'reference': [list(x) for x in r2],
                    'variant': [list(x) for x in v2], 'first_difference': diff}
        if sigs_equal:
            report(ck, 'C11: backend %s writes different bytes for two layouts (%s) with the same Api signature: %s'
                   % (name, vkind, diff), {'kind': 'layout', 'component': 'bytes', 'backend': name}, mk)
        else:
            # the Apis differ (reported by judge_pair); the bytes are attributed only when one component explains it
            comps, residual = involved_components(ref_files, var_files)
            if len(comps) == 1 and residual is None:
                report(ck, 'C11: backend %s writes different bytes for two layouts (%s); the Apis differ in `%s`: %s'
                       % (name, vkind, comps[0], diff),
                       {'kind': 'layout-order', 'component': comps[0], 'backend': name}, mk)
            elif residual is not None:
                report(ck, 'C11: backend %s writes different bytes for two layouts (%s): %s' % (name, vkind, diff),
                       {'kind': 'layout', 'component': 'api', 'where': generalise(residual), 'backend': name}, mk)
            else:
                ck.stat('layout.bytes.differences_with_several_api_components')
        ck.stat('layout.bytes.differences')


# ------------------------------------------------------------------------------------------------ the suite

def load_hand_specs():
    cfg = open(os.path.join(SPEC_DIR, 'stone_cfg.stone'), encoding='utf-8').read()
    out = []
    for d in ('basic', 'docs', 'multi'):
        p = os.path.join(SPEC_DIR, d)
        if os.path.isdir(p):
            files = [(f, open(os.path.join(p, f), encoding='utf-8').read()) for f in sorted(os.listdir(p))
                     if f.endswith('.stone')]
            out.append((d, [('stone_cfg.stone', cfg)] + files))
    return out


def suite_layout(ck, n_models, n_layouts, backends=None):
    """backends: None = every built-in backend, or a collection of backend names; `n_backend_models` models (about a
    quarter) also get the byte comparison"""
    from harness import specgen as sg
    scratch = core.scratch('stone-verif-c11-')
    n_backend_models = max(2, n_models // ck.scale(7, 10))
    # hand-written specs: every backend can run on them (route attributes style / auth / host present)
    for label, files in load_hand_specs():
        tv = text_variants(ck.rng, files, ck.scale(6, 18))
        iv = insertion_variants(ck.rng, files, ck.scale(60, 200), 3)
        for vkind, vf in tv + iv:
            judge_pair(ck, files, vf, 'hand-' + vkind, {'spec': label})
        for vkind, vf in tv[:ck.scale(2, 9)] + iv[-ck.scale(1, 3):] + [v for v in iv if v[0] == 'doc-trail-all'][:1]:
            judge_backends(ck, files, vf, 'hand-' + vkind, backends, scratch)
    ck.note('swift_client / obj_c_* / python_client need route attributes (style, auth, host) and struct-typed route '
            'arguments that generated models do not carry: their byte comparison runs on the hand-written specs '
            '(harness/specs/c11: basic, docs, multi); on generated models a backend that raises on the reference layout must '
            'raise the same exception type on the variant')
    for k in range(n_models):
        profile = ('fe', 'default', 'fe', 'routes', 'small')[k % 5]
        m = sg.gen_model(ck.rng, profile)
        ref_files = sg.render(m, None)
        if outcome(ref_files)[0] != 'ok':
            # the generator promises a legal model: either it is wrong, or acceptance depends on the layout - look for
            # a layout of the same model that compiles
            ck.stat('layout.reference_not_compilable')
            for kind, lay in layouts_of(ck.rng, sg, m, 6)[:12]:
                if kind in ('file-perm', 'def-perm', 'resplit'):
                    judge_pair(ck, ref_files, sg.render(m, lay), kind, {'profile': profile})
            continue
        ck.hist('layout.files_per_model', len(ref_files))
        variants = []
        for kind, lay in layouts_of(ck.rng, sg, m, n_layouts):
            try:
                variants.append((kind, sg.render(m, lay)))
            except Exception as e:                     # noqa: a renderer failure is not the toolchain's
                ck.stat('layout.render_failed')
                ck.note('specgen.render failed for a %s layout: %s' % (kind, e)) if ck.stats['layout.render_failed'] < 3 else None
        total_lines = sum(t.count('\n') for _p, t in ref_files)
        small = total_lines <= ck.scale(40, 120)
        variants += insertion_variants(ck.rng, ref_files, ck.scale(40, 120) if small else ck.scale(10, 40), ck.scale(2, 4))
        ck.hist('layout.every_boundary', 'yes' if small else 'sampled')
        for vkind, vf in variants:
            judge_pair(ck, ref_files, vf, vkind, {'profile': profile})
        if k < n_backend_models:
            pick = [v for v in variants if v[0] in ('mixed', 'resplit', 'def-perm', 'file-perm')]
            ck.rng.shuffle(pick)
            for vkind, vf in pick[:ck.scale(1, 3)]:
                judge_backends(ck, ref_files, vf, vkind, backends, scratch)


# ------------------------------------------------------------------------------------------------ seeds

FIRST_LINE_SEEDS = [
    # (reference, variant, what): the lexer never checks the indentation of the first line of a file
    ('    namespace a\nstruct S\n    f String\n', '\n    namespace a\nstruct S\n    f String\n', 'blank line before an indented first line'),
    ('# c\n    namespace a\nstruct S\n    f String\n', '# c\n# d\n    namespace a\nstruct S\n    f String\n',
     'second comment line before an indented first definition'),
]

ORDER_SEEDS = [
    ('annotation_types_order',
     'namespace ns\nannotation_type T1\n    x Int32 = 1\nannotation_type T2\n    y Int32 = 2\n',
     'namespace ns\nannotation_type T2\n    y Int32 = 2\nannotation_type T1\n    x Int32 = 1\n'),
    ('recursive_custom_annotations',
     'namespace ns\nannotation_type T\n    x Int32 = 1\nannotation An = T()\nstruct A\n    b B?\nstruct B\n    a A?\n    s String\n        @An\n',
     'namespace ns\nannotation_type T\n    x Int32 = 1\nannotation An = T()\nstruct B\n    a A?\n    s String\n        @An\nstruct A\n    b B?\n'),
    ('subtypes_order',
     'namespace ns\nstruct P\n    a String\nstruct C1 extends P\n    b String\nstruct C2 extends P\n    c String\n',
     'namespace ns\nstruct P\n    a String\nstruct C2 extends P\n    c String\nstruct C1 extends P\n    b String\n'),
    ('route_schema_ns_order',
     'namespace stone_cfg\nalias A1 = String\nalias A2 = String\nstruct Route\n    x A1 = "a"\n    y A2 = "b"\n',
     'namespace stone_cfg\nalias A2 = String\nalias A1 = String\nstruct Route\n    x A1 = "a"\n    y A2 = "b"\n'),
    # the same component through the annotations and the annotation types of stone_cfg alone (the aliases in one order)
    ('route_schema_ns_order',
     'namespace stone_cfg\nannotation_type T1\n    x Int32 = 1\nannotation_type T2\n    y Int32 = 2\nannotation N1 = T1()\n'
     'annotation N2 = T2()\nalias A1 = String\nstruct Route\n    x A1 = "a"\n',
     'namespace stone_cfg\nannotation_type T2\n    y Int32 = 2\nannotation_type T1\n    x Int32 = 1\nannotation N2 = T2()\n'
     'annotation N1 = T1()\nalias A1 = String\nstruct Route\n    x A1 = "a"\n'),
    ('route_schema_ns_order',
     'namespace stone_cfg\nannotation_type T1\n    x Int32 = 1\nannotation N1 = T1()\nannotation N2 = T1(x=2)\n'
     'struct Route\n    x String = "a"\n',
     'namespace stone_cfg\nannotation_type T1\n    x Int32 = 1\nannotation N2 = T1(x=2)\nannotation N1 = T1()\n'
     'struct Route\n    x String = "a"\n'),
]


# (component, files in one order, the same files in another order)
FILE_ORDER_SEEDS = [
    # a struct extended from two namespaces by structs of the SAME name: only (namespace, name) orders its subtypes
    ('subtypes_order',
     [['ns.stone', 'namespace ns\nstruct P\n    a String\nstruct C extends P\n    b String\n'],
      ['b.stone', 'namespace b\nimport ns\nstruct C extends ns.P\n    c String\n']],
     [['b.stone', 'namespace b\nimport ns\nstruct C extends ns.P\n    c String\n'],
      ['ns.stone', 'namespace ns\nstruct P\n    a String\nstruct C extends P\n    b String\n']]),
]


def suite_seeds(ck):
    """hand seeds, always evaluated: the first-line indentation quirk and the four order-of-declaration components"""
    for ref, var, what in FIRST_LINE_SEEDS:
        a, b = outcome([('a.stone', ref)]), outcome([('a.stone', var)])
        ck.case(('seed', var))
        if a[0] == 'ok' and b[0] != 'ok':
            ck.failing_input('C11: a specification whose first line is indented compiles, the same text after a %s is '
                             'rejected (%s): the lexer never checks the indentation of the first line' % (what, b[1]),
                             {'kind': 'layout', 'component': 'accept', 'variant': 'first-line-indent'},
                             {'suite': 'layout', 'mode': 'sig', 'variant_kind': 'first-line-indent',
                              'reference': [['a.stone', ref]], 'variant': [['a.stone', var]],
                              'first_difference': 'variant %s: %s' % (b[0], b[1])})
        else:
            ck.agree('layout.seed')
    for comp, ref, var in ORDER_SEEDS:
        name = 'stone_cfg.stone' if 'stone_cfg' in ref else 'ns.stone'
        extra = [] if name != 'stone_cfg.stone' else [['m.stone', 'namespace m\nroute r(Void, Void, Void)\n']]
        judge_pair(ck, [[name, ref]] + extra, [[name, var]] + extra, 'seed-def-perm', {'seed': comp}, do_shrink=False)
        # what the order dependence does to generated code (python backends; the others never print these components)
        judge_backends(ck, [(name, ref)] + [tuple(x) for x in extra], [(name, var)] + [tuple(x) for x in extra],
                       'seed-def-perm', ('python_types', 'python_type_stubs'), core.scratch('stone-verif-c11-seed-'),
                       do_shrink=False)
    for comp, ref_files, var_files in FILE_ORDER_SEEDS:
        judge_pair(ck, ref_files, var_files, 'seed-file-perm', {'seed': comp}, do_shrink=False)


# ------------------------------------------------------------------------------------------------ stdin

CAPTURE_BACKEND = '''from stone.backend import Backend
CAPTURED = []
class Capture(Backend):
    def generate(self, api):
        CAPTURED.append(api)
'''


class _Stdin:
    def __init__(self, data):
        self.buffer = io.BytesIO(data)


def run_cli(root, files, via_stdin):
    """stone.cli.main in-process with a capturing backend -> ('ok', signature) | ('exit', code)"""
    from stone import cli
    os.makedirs(root, exist_ok=True)
    backend = os.path.join(root, 'capture.stoneg.py')
    if not os.path.exists(backend):
        with open(backend, 'w') as fh:
            fh.write(CAPTURE_BACKEND)
    argv = ['stone-verif', backend, os.path.join(root, 'out')]
    old_argv, old_stdin = sys.argv, sys.stdin
    if via_stdin:
        text = ''.join(t if t.endswith('\n') else t + '\n' for _p, t in files)
        sys.stdin = _Stdin(text.encode('utf-8'))
    else:
        d = os.path.join(root, 'specs')
        _clear_files(d)
        for i, (p, t) in enumerate(files):
            q = os.path.join(d, '%03d_%s' % (i, os.path.basename(p)))
            with open(q, 'w', encoding='utf-8', newline='') as fh:
                fh.write(t)
            argv.append(q)
    sys.argv = argv + ['-a', ':all']
    mod = sys.modules.get('capture_stoneg_py')
    if mod is not None:
        del mod.CAPTURED[:]
    try:
        with contextlib.redirect_stderr(io.StringIO()) as err, contextlib.redirect_stdout(io.StringIO()):
            cli.main()
    except SystemExit as e:
        return ('exit', e.code, err.getvalue()[-300:])
    except Exception as e:                       # noqa
        return ('exit', 'exception:%s' % type(e).__name__, str(e)[:300])
    finally:
        sys.argv, sys.stdin = old_argv, old_stdin
    mod = sys.modules.get('capture_stoneg_py')
    if mod is None or not mod.CAPTURED:
        return ('exit', 'no-capture', '')
    return ('ok', apisig.signature(mod.CAPTURED[-1]))


STDIN_SEEDS = [
    # the substring `namespace` away from the start of a line (defect D14, repaired by commit de8ede2 of the repository:
    # these must now come through unchanged)
    ('identifier', 'namespace a\nstruct S\n    namespace_id String\n'),
    ('doc', 'namespace a\n    "The namespace of things."\nstruct S\n    f String\n'),
    ('comment', 'namespace a\n# types of this namespace\nstruct S\n    f String\n'),
    ('route-name', 'namespace a\nroute get_namespace(Void, Void, Void)\n'),
    ('preamble', '# a comment before the first namespace line\n\nnamespace a\nstruct S\n    f String\n'),
    # a LINE that begins with the word, inside a multi-line documentation string: still cut (stdin_split_witness)
    ('doc-line', 'namespace a\n    "Types of this\nnamespace and others."\nstruct S\n    f String\n'),
]


def judge_stdin(ck, root, files, label, trigger=None):
    a = run_cli(root, files, via_stdin=False)
    b = run_cli(root, files, via_stdin=True)
    ck.case(('stdin', tuple(t for _p, t in files)))
    ck.stat('layout.stdin.%s' % label)
    if a[0] != 'ok':
        ck.stat('layout.stdin.files_run_failed')
        return True
    if a == b:
        ck.agree('layout.stdin')
        return True
    text = ''.join(t if t.endswith('\n') else t + '\n' for _p, t in files)
    # lines that begin with the keyword beyond one namespace declaration per file
    extra_kw = len(re.findall(r'(?m)^namespace\b', text)) - len(files)
    d = apisig.diff(a[1], b[1]) if b[0] == 'ok' else 'stdin run: exit %s %s' % (b[1], b[2][-160:])
    case = {'suite': 'layout', 'mode': 'stdin', 'reference': [list(x) for x in files], 'variant': [['-', text]],
            'first_difference': d, 'extra_lines_beginning_with_namespace': extra_kw,
            'occurrences_of_substring_namespace': text.count('namespace')}
    if extra_kw > 0:
        ck.failing_input('C11: the same specification compiles from a file but not through standard input: stone.cli.main '
                         'starts a new spec at every line that begins with `namespace` (%s): %s' % (trigger or 'generated text', d),
                         {'kind': 'stdin-split', 'trigger': 'line-begins-with-namespace'}, case)
    elif text.count('namespace') > len(files):
        ck.failing_input('C11: the same specification compiles from a file but not through standard input although no other '
                         'line begins with `namespace` (%s): %s' % (trigger or 'generated text', d),
                         {'kind': 'stdin-split', 'trigger': 'substring-namespace'}, case)
    else:
        ck.failing_input('C11: stdin delivery changes the Api: %s' % d,
                         {'kind': 'stdin', 'component': 'api'}, case)
    ck.stat('layout.stdin.differences')
    return False


def suite_stdin(ck, n_models):
    from harness import specgen as sg
    root = core.scratch('stone-verif-c11-stdin-')
    for trig, text in STDIN_SEEDS:
        judge_stdin(ck, root, [('a.stone', text)], 'seed', trigger=trig)
    for label, files in load_hand_specs():
        judge_stdin(ck, root, files, 'hand')
    for k in range(n_models):
        m = sg.gen_model(ck.rng, ('fe', 'default', 'routes')[k % 3])
        files = sg.render(m, None)
        if compile_files(files)[0] != 'ok':
            continue
        judge_stdin(ck, root, files, 'reference')
        lay = sg.gen_layout(ck.rng, m)
        judge_stdin(ck, root, sg.render(m, lay), 'layout')


class _Captured(Exception):
    pass


def real_stdin_specs(text):
    """the (name, text) list stone.cli.main hands to specs_to_ir when `text` arrives on standard input"""
    from stone import cli
    got = []

    def recorder(specs, **_kw):
        got.extend(specs)
        raise _Captured()
    old_argv, old_stdin, old_fn = sys.argv, sys.stdin, cli.specs_to_ir
    sys.argv = ['stone-verif', 'python_types', '/nonexistent-stone-verif-out']
    sys.stdin = _Stdin(text.encode('utf-8'))
    cli.specs_to_ir = recorder
    try:
        with contextlib.redirect_stderr(io.StringIO()), contextlib.redirect_stdout(io.StringIO()):
            cli.main()
    except _Captured:
        pass
    except SystemExit:
        return None
    finally:
        sys.argv, sys.stdin, cli.specs_to_ir = old_argv, old_stdin, old_fn
    return [[n, t] for n, t in got]


def gen_stdin_text(rng):
    pool = ['namespace a', 'namespace b', 'namespace', 'namespace_id String', '    namespace_id String', 'namespace-x',
            'namespace\tq', 'namespace(', ' namespace c', '# namespace d', 'struct S', '    f String', '', '   ', 'namespaces',
            'namespace9', 'Namespace a', 'x namespace a', '    "doc', 'namespace in a doc"', 'import a', 'namespace.x',
            'namespace"', 'namespace#c', 'name', 'space', 'namespac', 'namespace a\rnamespace b']
    n = rng.randrange(0, 9)
    return '\n'.join(rng.choice(pool) for _ in range(n)) + rng.choice(['', '\n', '\n\n'])


def suite_stdin_split(ck):
    """correspondence of the stdin splitter model (Model/Stdin.lean, op fe.stdin) with the real stdin branch of
    stone.cli.main (its specs_to_ir argument is captured)"""
    texts = [t for _n, t in STDIN_SEEDS] + ['', 'namespace', 'namespace\n', 'x\nnamespace', 'namespace a\nnamespace b\n']
    for _ in range(ck.scale(400, 5000)):
        texts.append(gen_stdin_text(ck.rng))
    try:
        from harness import specgen as sg
        for k in range(ck.scale(6, 40)):
            m = sg.gen_model(ck.rng, 'fe')
            files = sg.render(m, sg.gen_layout(ck.rng, m) if k % 2 else None)
            texts.append(''.join(t if t.endswith('\n') else t + '\n' for _p, t in files))
    except Exception as e:                        # noqa
        ck.note('fe.stdin: spec generator unavailable: %s' % e)
    # the model is about `stdin_text`, i.e. after TextIOWrapper's universal-newline translation (\r\n, \r -> \n)
    replies = ck.driver([{'op': 'fe.stdin', 'text': t.replace('\r\n', '\n').replace('\r', '\n')} for t in texts])
    for t, rep in zip(texts, replies):
        real = real_stdin_specs(t)
        ck.case(('fe.stdin', t), nontrivial=t.count('namespace') > 0)
        if real is None or 'protocol_error' in rep:
            ck.disagree('fe.stdin', {'text': t}, real, rep)
            continue
        model = [['stdin.%d' % k, x] for k, x in rep['specs']]
        # the model reads a non-ASCII character right after a line-initial `namespace` as a word character
        if re.search(r'(?m)^namespace[^\x00-\x7f]', t):
            ck.stat('fe.stdin.non_ascii_after_keyword_not_judged')
            continue
        if real == model:
            ck.agree('fe.stdin')
            ck.hist('fe.stdin.parts', len(real))
        else:
            ck.disagree('fe.stdin', {'text': t}, real, model)


# ------------------------------------------------------------------------------------------------ replay

def replay_case(ck, case):
    mode = case.get('mode', 'sig')
    ref = [tuple(x) for x in case['reference']]
    var = [tuple(x) for x in case['variant']]
    if mode == 'sig':
        judge_pair(ck, ref, var, case.get('variant_kind', 'replay'), do_shrink=False)
    elif mode == 'backend':
        scratch = core.scratch('stone-verif-c11-replay-')
        judge_backends(ck, ref, var, case.get('variant_kind', 'replay'), [case['backend']], scratch, do_shrink=False)
    elif mode == 'stdin':
        judge_stdin(ck, core.scratch('stone-verif-c11-replay-'), ref, 'replay')
