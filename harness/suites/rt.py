"""rt.* correspondence suites and direct oracles for the Python JSON runtime (C04-C08, C10, C13)."""
import copy
import json
import os

from harness import core, pygen, irdump, values
from harness.values import canon, json_to_tagged, tagged_to_json


class Perms:
    def __init__(self, perms):
        self._p = list(perms)

    @property
    def permissions(self):
        return self._p


def outcome(fn):
    """Run real code; classify. ValidationError -> verr; anything else -> crash(<class name>)."""
    from stone.backends.python_rsrc import stone_validators as bv
    try:
        return ('ok', fn())
    except bv.ValidationError as e:
        return ('verr', str(e)[:200])
    except RecursionError:
        raise
    except Exception as e:  # noqa: BLE001 - the class of what escapes is exactly what is compared
        return ('crash', type(e).__name__)


def model_outcome(rep):
    if 'ok' in rep:
        return ('ok', rep['ok'])
    if 'verr' in rep:
        return ('verr', rep['verr'])
    if 'crash' in rep:
        return ('crash', rep['crash'])
    return ('protocol', rep)


def same(real, model, conv=canon):
    if real[0] != model[0]:
        return False
    if real[0] == 'ok':
        return conv(real[1]) == conv(model[1])
    return True


HAND_SPECS = [['rt1.stone', 'rt2.stone'], ['rt3.stone'], ['rt4.stone'], ['rt5.stone'], ['rt6a.stone', 'rt6b.stone']]


def hand_specs():
    d = os.path.join(core.VERIF, 'harness', 'specs')
    return [[(p, open(os.path.join(d, p), encoding='utf-8').read()) for p in group] for group in HAND_SPECS]


_SESSION_BY_SPECS = {}


def _ts_ids(x, out):
    if isinstance(x, (list, tuple)):
        if len(x) >= 2 and x[0] == 't' and isinstance(x[1], int) and not isinstance(x[1], bool):
            out.add(x[1])
        for y in x:
            _ts_ids(y, out)
    elif isinstance(x, dict):
        for y in x.values():
            _ts_ids(y, out)


def _replay_ctx(case):
    """Values name timestamps by their id in the session's registry: a replay file carries the ones it refers to."""
    ses = _SESSION_BY_SPECS.get(id(case.get('specs'))) if isinstance(case, dict) else None
    if ses is None:
        return case
    ids = set()
    _ts_ids({k: v for k, v in case.items() if k != 'specs'}, ids)
    if not ids:
        return case
    case = dict(case)
    case['timestamps'] = {str(i): ses.ts.by_id[i].isoformat() for i in sorted(ids) if i < len(ses.ts.by_id)}
    return case


class Session:
    """One compiled spec: real generated classes + the model's environment."""

    def __init__(self, ck, specs):
        self.ck = ck
        self.specs = specs
        self.built = pygen.build_python(specs)
        self.api = self.built.api
        self.env = irdump.env_of(self.api)
        self.ts = values.TsRegistry()
        _SESSION_BY_SPECS[id(specs)] = self
        ck.replay_ctx = _replay_ctx
        self.codec = values.Codec(self.built, self.ts)
        self.gen = values.ValueGen(ck.rng, self.api, self.ts)
        self.types = irdump.top_level_types(self.api)
        self._validators = {}
        self.ambiguous = {}

    def validator(self, label, ir):
        if label not in self._validators:
            self._validators[label] = self.built.validator_for(ir)
        return self._validators[label]

    def run(self, ops, items, extra_types=()):
        """ops: driver requests (without ctx); items: every tagged value/doc mentioned (for Ext)."""
        ext = values.ext_tables(self.env, items, self.ts, extra_types)
        ctx = {'op': 'rt.ctx', 'env': self.env, 'ext': ext}
        rep = self.ck.driver([ctx] + ops)
        if 'ok' not in rep[0]:
            raise RuntimeError('rt.ctx refused: %r' % (rep[0],))
        # the theorems assume envWF; it must hold of every environment an accepted spec produces
        # and so must every other decidable environment hypothesis a theorem takes ("hyps"); "restrict" entries
        # delimit _partial theorems: their frequency shows how much of the input space lies outside the proved part
        if not getattr(self, '_hyps_checked', False):
            self._hyps_checked = True
            self.ck.case(('envwf', id(self)), nontrivial=False)
            hyps = rep[0].get('hyps', {'envWF': rep[0].get('envWF')})
            bad = sorted(k for k, v in hyps.items() if not v)
            if not bad:
                self.ck.agree('rt.envwf')
            else:
                self.ck.disagree('rt.envwf', {'specs': self.specs}, 'accepted by the compiler',
                                 {'false_hypotheses': bad, 'notWF': rep[0].get('notWF')})
            for k, v in rep[0].get('restrict', {}).items():
                self.ck.hist('rt.env.restrict.' + k, v)
        return rep[1:]

    # ---- real side ----------------------------------------------------------------------------
    def real_encode(self, validator, obj, perms=(), redact=False, via_string=False):
        from stone.backends.python_rsrc import stone_serializers as ss
        p = Perms(perms) if perms else None
        if via_string:
            return outcome(lambda: json_to_tagged(json.loads(ss.json_encode(validator, obj, caller_permissions=p, should_redact=redact))))
        return outcome(lambda: json_to_tagged(ss.json_compat_obj_encode(validator, obj, caller_permissions=p, should_redact=redact)))

    def real_decode(self, validator, doc_tagged, perms=(), strict=True, via_string=False):
        from stone.backends.python_rsrc import stone_serializers as ss
        p = Perms(perms) if perms else None
        doc = tagged_to_json(doc_tagged)
        if via_string:
            return outcome(lambda: self.codec.to_tagged(ss.json_decode(validator, json.dumps(doc), caller_permissions=p, strict=strict)))
        return outcome(lambda: self.codec.to_tagged(ss.json_compat_obj_decode(validator, doc, caller_permissions=p, strict=strict)))


def spec_source(ck, n_generated, preset='rt'):
    """Hand-written seeds first, then generated specs (when the generator is available)."""
    out = list(hand_specs())
    try:
        from harness import specgen
    except ImportError:
        ck.note('specgen not available: hand-written specs only')
        return out
    for _ in range(n_generated):
        model = specgen.gen_model(ck.rng, preset)
        out.append(specgen.render(model, None))
    return out


def suite_encdec(ck, sessions, n_values, judge=()):
    """For every top-level type x valid values: real encode vs model; real decode (strict, lenient) of
    the real encoding vs model. `judge` selects direct oracles: 'C04' round trip."""
    for ses in sessions:
        cases = []
        for label, ir in ses.types:
            validator = ses.validator(label, ir)
            irt = irdump.ir_ty(ir)
            for _ in range(n_values):
                tv = ses.gen.valid(ir)
                if tv is None:
                    ck.stat('no_valid_value_drawn')
                    continue
                built = outcome(lambda: ses.codec.build_checked(tv))
                if built[0] != 'ok':
                    ck.stat('valid_value_refused_by_constructor')
                    if 'C08' in judge or 'C04' in judge:
                        ck.failing_input('a value valid for the declared type is refused by the generated classes',
                                         {'kind': 'valid-refused', 'type': label.split()[0]},
                                         {'specs': ses.specs, 'type': label, 'value': tv, 'outcome': list(built)})
                    continue
                obj = built[1]
                stored = ses.codec.to_tagged(obj)
                cases.append((label, ir, irt, validator, obj, stored))
        # phase 1: encode
        ops = [{'op': 'rt.enc', 'ty': irt, 'v': stored, 'perms': [], 'redact': False} for (_l, _i, irt, _v, _o, stored) in cases]
        ops += [{'op': 'rt.wire', 'ty': irt, 'v': stored} for (_l, _i, irt, _v, _o, stored) in cases]
        reps = ses.run(ops, [c[5] for c in cases], extra_types=[c[2] for c in cases])
        reps, flagreps = reps[:len(cases)], reps[len(cases):]
        # the documented ambiguity (D7) may sit anywhere inside the value: the model's decidable `ambiguousEmpty`
        # (the excluded hypothesis of C04.decode_wire) classifies it
        for case, fr in zip(cases, flagreps):
            ses.ambiguous[id(case[4])] = bool(fr.get('ambiguousEmpty'))
        docs = []
        for case, rep in zip(cases, reps):
            label, ir, irt, validator, obj, stored = case
            real = ses.real_encode(validator, obj)
            mo = model_outcome(rep)
            ck.case(('enc', label, json.dumps(stored, sort_keys=True)), nontrivial=stored[0] in 'SUld')
            ck.hist('rt.enc.kind', stored[0])
            ck.hist('rt.enc.outcome', real[0])
            if same(real, mo):
                ck.agree('rt.enc')
            else:
                ck.disagree('rt.enc', {'type': label, 'value': stored}, list(real), list(mo))
            if real[0] == 'ok':
                docs.append((case, real[1]))
            elif 'C04' in judge:
                ck.failing_input('a valid value cannot be encoded',
                                 {'kind': 'encode-fails', 'outcome': real[0], 'detail': real[1] if real[0] == 'crash' else ''},
                                 {'specs': ses.specs, 'type': label, 'value': stored, 'outcome': list(real)})
            if len(ck.samples) < 4 and stored[0] in 'SU' and real[0] == 'ok':
                ck.sample({'type': label, 'value': stored, 'encoded': tagged_to_json(real[1])})
        # phase 2: decode what was encoded
        ops, meta = [], []
        for (case, doc) in docs:
            for strict in (True, False):
                ops.append({'op': 'rt.dec', 'ty': case[2], 'doc': doc, 'perms': [], 'strict': strict})
                meta.append((case, doc, strict))
        reps = ses.run(ops, [d for _c, d in docs], extra_types=[c[2] for c, _d in docs])
        for (case, doc, strict), rep in zip(meta, reps):
            label, ir, irt, validator, obj, stored = case
            real = ses.real_decode(validator, doc, strict=strict)
            mo = model_outcome(rep)
            ck.case(('dec', label, strict, json.dumps(doc, sort_keys=True)), nontrivial=doc[0] in 'oa')
            ck.hist('rt.dec.outcome', real[0])
            if same(real, mo):
                ck.agree('rt.dec')
            else:
                ck.disagree('rt.dec', {'type': label, 'doc': doc, 'strict': strict}, list(real), list(mo))
            if 'C04' in judge:
                oracle_roundtrip(ck, ses, case, doc, strict)


def oracle_roundtrip(ck, ses, case, doc, strict):
    """C04 on the real code: decode(encode(v)) == v and encode(decode(encode(v))) == encode(v), through
    both entry-point pairs."""
    label, ir, irt, validator, obj, stored = case
    for via_string in (False, True):
        handed_in = tagged_to_json(doc)
        pristine = copy.deepcopy(handed_in)
        dec = outcome(lambda: _raw_decode(validator, doc, strict, via_string, handed_in))
        why = None
        if dec[0] != 'ok':
            why = 'decode of own encoding fails (%s)' % dec[0]
        elif not via_string and canon_json(handed_in) != canon_json(pristine):
            # "the JSON produced by encoding" must still be that JSON after it was decoded: a decoder that consumes
            # parts of the object it is handed makes every later use of the encoding (a second decode, a comparison
            # with a re-encoding) fail
            why = 'decoding changes the JSON object handed in'
        else:
            back = dec[1]
            try:
                eq = (back == obj)
            except Exception as e:  # noqa: BLE001
                eq = False
                why = '== raised %s' % type(e).__name__
            if not eq and why is None:
                why = 'decoded value differs from the original'
            if why is None:
                re_enc = ses.real_encode(validator, back, via_string=via_string)
                # "the same JSON again": compared as parsed JSON - an integer given for a Float member is written as
                # 3 the first time and as 3.0 after the decoder stored a float, which is the same JSON number
                if re_enc[0] != 'ok' or not json_equiv(re_enc[1], doc):
                    why = 're-encoding differs'
        if why:
            shape = 'nullable-all-optional-struct-member-empty' if ses.ambiguous.get(id(obj)) else shape_sig(ses, ir, stored)
            sig = {'kind': 'roundtrip', 'why': why.split(' (')[0], 'shape': shape}
            ck.failing_input('C04 round trip: %s' % why, sig,
                             {'specs': ses.specs, 'type': label, 'value': stored, 'doc': doc, 'strict': strict,
                              'via_string': via_string})
        ck.stat('roundtrip_checked')


def canon_json(x):
    return json.dumps(x, sort_keys=True, default=repr)


def _raw_decode(validator, doc_tagged, strict, via_string, doc=None):
    from stone.backends.python_rsrc import stone_serializers as ss
    if doc is None:
        doc = tagged_to_json(doc_tagged)
    if via_string:
        return ss.json_decode(validator, json.dumps(doc), strict=strict)
    return ss.json_compat_obj_decode(validator, doc, strict=strict)


def shape_sig(ses, ir, stored):
    """A coarse description of where a failure sits, for matching known findings."""
    from stone.ir import Nullable, Struct, Union, unwrap
    dt, _n, _a = unwrap(ir)
    if stored[0] == 'U':
        u = ses.built.ir_by_ref.get(stored[1])
        tag = stored[2]
        f = next((f for f in u.all_fields if f.name == tag), None) if u is not None else None
        if f is not None:
            inner, nullable, _ = unwrap(f.data_type)
            if nullable and isinstance(inner, Struct) and not inner.has_enumerated_subtypes() and \
                    not inner.all_required_fields and stored[3][0] == 'S' and not stored[3][2]:
                return 'nullable-all-optional-struct-member-empty'
    return type(dt).__name__


# ==================================================================================================
# C08: validators, assignment, union construction, primitive decode
# ==================================================================================================
def prim_grid():
    """Every primitive type x parameter combinations at the type's extremes (fixed, seed independent)."""
    from stone.ir import (Boolean, Bytes, Float32, Float64, Int32, Int64, List, Map, Nullable, String, Timestamp,
                          UInt32, UInt64, Void)
    out = []
    for cls in (Int32, UInt32, Int64, UInt64):
        lo, hi = cls.minimum, cls.maximum
        for mn, mx in [(None, None), (lo, hi), (lo, None), (None, hi), (0, 0), (max(lo, -5), 5), (hi, hi), (lo, lo), (1, 10)]:
            out.append(cls(min_value=mn, max_value=mx))
    for cls in (Float32, Float64):
        for mn, mx in [(None, None), (-1.5, 2.5), (0, None), (None, 0), (1e30, 1e31), (-3.40282e38, 3.40282e38), (2, 2)]:
            out.append(cls(min_value=mn, max_value=mx))
    for mn, mx, pat in [(None, None, None), (0, 1, None), (2, 2, None), (None, 3, None), (1, None, None), (None, None, '[a-z]{2,4}'),
                        (3, 5, '[a-z]+'), (None, None, 'ab|abXY'), (None, None, '^ab$'), (None, None, 'a.c'), (None, None, '')]:
        out.append(String(min_length=mn, max_length=mx, pattern=pat))
    out += [Boolean(), Bytes(), Void(), Timestamp('%Y-%m-%dT%H:%M:%SZ'), Timestamp('%Y-%m-%d'), Timestamp('%H:%M')]
    out += [List(Int32()), List(Int32(), min_items=1, max_items=2), List(String(max_length=2), max_items=1),
            List(Float64()), List(List(UInt32(), max_items=1)), List(Nullable(Boolean())),
            Map(String(), Int32()), Map(String(min_length=1), List(Float32())), Nullable(Int64()), Nullable(List(String())),
            Nullable(Map(String(), Nullable(Float64())))]
    return out


def grid_values(gen, t):
    """bound-1 / bound / bound+1 and wrong Python types for one grid type."""
    from harness.values import invalidate
    vals = []
    for _ in range(4):
        v = gen.valid(t)
        if v is not None:
            vals.append(v)
    base = vals[0] if vals else ['n']
    vals += invalidate(gen, t, base)
    vals += [['n'], ['b', True], ['i', 0], ['i', -1], ['i', 2 ** 31 - 1], ['i', 2 ** 31], ['i', -2 ** 31], ['i', -2 ** 31 - 1],
             ['i', 2 ** 32 - 1], ['i', 2 ** 32], ['i', 2 ** 63 - 1], ['i', 2 ** 63], ['i', -2 ** 63], ['i', -2 ** 63 - 1],
             ['i', 2 ** 64 - 1], ['i', 2 ** 64], ['f', values.fbits(0.0)], ['f', values.fbits(-0.0)], ['f', values.fbits(2.5)],
             ['f', values.fbits(3.40282e38)], ['f', values.fbits(3.4028235e38)], ['f', values.fbits(1e39)], ['f', values.fbits(-3.40282e38)],
             ['s', ''], ['s', 'ab'], ['s', 'abc'], ['s', 'abXY'], ['s', 'a\nc'], ['s', 'ab\n'], ['y', ''], ['y', '00'],
             ['l', []], ['u', []], ['d', []], ['o', 'set'], ['l', [['i', 1]]], ['l', [['i', 1], ['i', 2], ['i', 3]]],
             ['d', [[['s', ''], ['i', 1]]]], ['d', [[['s', 'k'], ['l', [['i', 1]]]]]]]
    seen, out = set(), []
    for v in vals:
        key = json.dumps(v)
        if key not in seen:
            seen.add(key)
            out.append(v)
    return out


class _DummyNs:
    name = '__none__'


def suite_prim_grid(ck, judge=True):
    """rt.val on the fixed grid + top-level decode of primitives; oracle = reference predicate."""
    from stone.backends.python_types import generate_validator_constructor
    from stone.backends.python_rsrc import stone_validators as bv
    from harness.values import sat_ir, normalise
    ts = values.TsRegistry()
    gen = values.ValueGen(ck.rng, None, ts)
    codec = values.Codec(None, ts)
    env = {'structs': [], 'unions': []}
    ops, meta, items, types = [], [], [], []
    for t in prim_grid():
        irt = irdump.ir_ty(t)
        validator = eval(generate_validator_constructor(_DummyNs, t), {'bv': bv})  # noqa: S307
        types.append(irt)
        for v in grid_values(gen, t):
            ops.append({'op': 'rt.val', 'ty': irt, 'v': v})
            meta.append((t, irt, validator, v))
            items.append(v)
    ext = values.ext_tables(env, items, ts, types)
    sat_ops = [{'op': 'rt.sat', 'ty': o['ty'], 'v': o['v']} for o in ops]
    allrep = ck.driver([{'op': 'rt.ctx', 'env': env, 'ext': ext}] + ops + sat_ops)[1:]
    rep, satrep = allrep[:len(ops)], allrep[len(ops):]
    for (t, irt, validator, v), sr in zip(meta, satrep):
        # the theorem validate_iff_sat is about satB: it must agree with the harness's independent predicate
        expect = sat_ir({}, t, v)
        if expect is None or 'sat' not in sr:
            continue
        if bool(sr['sat']) == bool(expect) and (not expect or canon(sr['norm']) == canon(normalise(t, v))):
            ck.agree('rt.satB')
        else:
            ck.disagree('rt.satB', {'ty': irt, 'v': v}, {'reference': expect, 'norm': normalise(t, v)}, sr)
    for (t, irt, validator, v), r in zip(meta, rep):
        pv = codec.to_py(v)
        real = outcome(lambda: codec.to_tagged(validator.validate(pv)))
        mo = model_outcome(r)
        ck.case(('val', json.dumps(irt), json.dumps(v)), nontrivial=True)
        ck.hist('rt.val.type', irt[0])
        ck.hist('rt.val.outcome', real[0])
        if same(real, mo):
            ck.agree('rt.val')
        else:
            ck.disagree('rt.val', {'ty': irt, 'v': v}, list(real), list(mo))
        if judge:
            expect = sat_ir({}, t, v)
            bad = None
            if real[0] == 'crash':
                bad = 'refusal is not the validation error (%s)' % real[1]
            elif expect is True and real[0] != 'ok':
                bad = 'value satisfying the declared type is refused'
            elif expect is False and real[0] == 'ok':
                bad = 'value violating the declared type is accepted'
            elif expect is True and canon(real[1]) != canon(normalise(t, v)):
                bad = 'accepted value is not returned equal (up to the documented normalisations)'
            if bad:
                ck.failing_input('C08 validate: ' + bad, {'kind': 'validate', 'why': bad.split(' (')[0], 'type': irt[0]},
                                 {'ty': irt, 'value': v, 'real': list(real)})
        if len(ck.samples) < 3:
            ck.sample({'ty': irt, 'value': v, 'real': list(real)})


def _as_built(ses, v):
    """A struct / union value is handed to the real code as an object built through the public constructors and
    setters, which normalise what they store (an int in a float member becomes a float, at any depth). The model and
    the oracle must be given the value that object holds, not the generator's description of it."""
    if v[0] not in 'SU':
        return v
    built = outcome(lambda: ses.codec.build_checked(v))
    if built[0] != 'ok':
        return v
    return ses.codec.to_tagged(built[1])


def _ancestor_union_values(ses, t):
    """A member declared with a union that extends others also holds instances of every ancestor union, however far up
    (the value carries one of the tags the declared union inherits): one value per ancestor class."""
    from stone.ir import Union, unwrap
    dt = unwrap(t)[0]
    out = []
    if isinstance(dt, Union):
        anc = dt.parent_type
        while anc is not None:
            v = ses.gen.valid_union(anc, 3)
            if v is not None:
                out.append(v)
            anc = anc.parent_type
    return out


def suite_assign(ck, sessions, n_values, judge=True):
    """setattr / getattr / del on generated struct instances, union constructors: real vs model,
    and (judge) real vs the reference predicate."""
    from stone.ir import Struct, Union, Nullable, Void
    from harness.values import sat_ir, normalise, invalidate
    for ses in sessions:
        api_index = ses.built.ir_by_ref
        ops, meta, items = [], [], []
        for ref, dt in ses.built.ir_by_ref.items():
            if isinstance(dt, Struct):
                for c in irdump.chain(dt):
                    for f in c.fields:
                        vals = []
                        for _ in range(n_values):
                            v = ses.gen.valid(f.data_type)
                            if v is not None:
                                vals.append(v)
                        if vals:
                            vals += invalidate(ses.gen, f.data_type, vals[0])[:n_values + 2]
                        vals.append(ses.gen.junk())
                        vals += _ancestor_union_values(ses, f.data_type)
                        vals = [_as_built(ses, v) for v in vals]
                        for v in vals:
                            ops.append({'op': 'rt.set', 'obj': ['S', ref, []], 'field': f.name, 'v': v})
                            meta.append(('set', ref, dt, f, v))
                            items.append(v)
            elif isinstance(dt, Union):
                for f in dt.all_fields:
                    vals = []
                    for _ in range(n_values):
                        v = ses.gen.valid(f.data_type)
                        if v is not None:
                            vals.append(v)
                    if vals and not isinstance(f.data_type, Void):
                        vals += invalidate(ses.gen, f.data_type, vals[0])[:n_values + 1]
                    vals.append(ses.gen.junk())
                    vals += _ancestor_union_values(ses, f.data_type)
                    vals = [_as_built(ses, v) for v in vals]
                    for v in vals:
                        ops.append({'op': 'rt.mkunion', 'cls': ref, 'tag': f.name, 'v': v})
                        meta.append(('mk', ref, dt, f, v))
                        items.append(v)
                ops.append({'op': 'rt.mkunion', 'cls': ref, 'tag': 'no_such_tag', 'v': ['n']})
                meta.append(('mk', ref, dt, None, ['n']))
        reps = ses.run(ops, items)
        for (kind, ref, dt, f, v), r in zip(meta, reps):
            cls = ses.built.cls_by_ref[ref]
            mo = model_outcome(r)
            if kind == 'set':
                def do():
                    obj = cls()
                    setattr(obj, f.name, ses.codec.build_checked(v) if v[0] in 'SU' else ses.codec.to_py(v))
                    return ['u', [ses.codec.to_tagged(obj), ses.codec.to_tagged(getattr(obj, f.name))]]
                real = outcome(do)
                suite = 'rt.set'
            else:
                tag = f.name if f is not None else 'no_such_tag'
                real = outcome(lambda: ses.codec.to_tagged(cls(tag, ses.codec.to_py(v))))
                suite = 'rt.mkunion'
            ck.case((kind, ref, f.name if f else None, json.dumps(v)), nontrivial=True)
            ck.hist(suite + '.outcome', real[0])
            if same(real, mo):
                ck.agree(suite)
            else:
                ck.disagree(suite, {'cls': ref, 'member': f.name if f else None, 'v': v}, list(real), list(mo))
            if not judge:
                continue
            bad = None
            if f is None:
                if real[0] != 'verr':
                    bad = 'unknown tag is not refused by the validation error (%s)' % real[0]
            else:
                expect = sat_ir(api_index, f.data_type, v)
                if real[0] == 'crash':
                    bad = 'refusal is not the validation error (%s)' % real[1]
                elif expect is True and real[0] != 'ok':
                    bad = 'value satisfying the declared type is refused'
                elif expect is False and real[0] == 'ok':
                    bad = 'value violating the declared type is accepted'
                elif expect is True and kind == 'set':
                    want = normalise(f.data_type, v)
                    got = real[1][1][1]
                    if canon(got) != canon(want) and not (isinstance(f.data_type, Nullable) and v[0] == 'n'):
                        bad = 'assigned value does not read back equal (up to the documented normalisations)'
            if bad:
                from stone.ir import unwrap
                ck.failing_input('C08 %s: %s' % ('assignment' if kind == 'set' else 'union construction', bad),
                                 {'kind': kind, 'why': bad.split(' (')[0],
                                  'value_kind': 'object-instance' if v == ['o', 'object'] else v[0],
                                  'declared': type(unwrap(f.data_type)[0]).__name__ if f is not None else None},
                                 {'specs': ses.specs, 'cls': ref, 'member': f.name if f else None, 'value': v, 'real': list(real)})


# ==================================================================================================
# C06: decoder on reference encodings, targeted mutations (classified), arbitrary small documents
# ==================================================================================================
WRONG_KIND = {
    'int': ['s', 'x'], 'float': ['s', 'x'], 'str': ['i', 5], 'bool': ['s', 'true'], 'list': ['o', [['k', ['i', 1]]]],
    'map': ['a', [['i', 1]]], 'struct': ['a', [['i', 1]]], 'union': ['i', 5], 'ts': ['i', 5], 'bytes': ['i', 5],
}


def _kind(t):
    from stone.ir import (Boolean, Bytes, Float32, Float64, Int32, Int64, List, Map, String, Struct, Timestamp,
                          UInt32, UInt64, Union, Void)
    if isinstance(t, (Int32, UInt32, Int64, UInt64)):
        return 'int'
    if isinstance(t, (Float32, Float64)):
        return 'float'
    for c, k in ((String, 'str'), (Boolean, 'bool'), (List, 'list'), (Map, 'map'), (Struct, 'struct'), (Union, 'union'),
                 (Timestamp, 'ts'), (Bytes, 'bytes'), (Void, 'void')):
        if isinstance(t, c):
            return k
    raise TypeError(t)


def _strip(t):
    from stone.ir import Alias, Nullable
    nullable = False
    while isinstance(t, (Alias, Nullable)):
        if isinstance(t, Nullable):
            nullable = True
        t = t.data_type
    return t, nullable


def classified_mutations(ses, t, doc, rng, depth=0, top=False):
    """Mutations of a reference encoding `doc` of declared type `t` with a known verdict.
    Yields (doc', verdict, why); verdict: 'reject' (both modes) | 'reject-strict' | 'accept'."""
    from stone.ir import List, Map, Struct, Union, Void, Nullable
    out = []
    core_t, nullable = _strip(t)
    k = _kind(core_t)
    if doc[0] == 'n' and nullable:
        return out
    if k != 'void':
        out.append((WRONG_KIND[k], 'reject', 'wrong JSON kind for %s' % k))
    if k == 'int' and doc[0] == 'i':
        from harness.values import _int_bounds
        lo, hi = _int_bounds(core_t)
        out.append((['i', hi + 1], 'reject', 'integer above bound'))
        out.append((['i', lo - 1], 'reject', 'integer below bound'))
    elif k == 'str' and doc[0] == 's':
        if core_t.max_length is not None:
            out.append((['s', 'q' * (core_t.max_length + 1)], 'reject', 'string too long'))
        if core_t.min_length:
            out.append((['s', 'q' * (core_t.min_length - 1)], 'reject', 'string too short'))
        if core_t.pattern:
            # the pattern must cover the WHOLE string: a line feed after (or before) a matching text is not covered
            import re as _re
            for extra, why in ((doc[1] + '\n', 'trailing line feed after a string that matches the pattern'),
                               ('\n' + doc[1], 'leading line feed before a string that matches the pattern')):
                try:
                    if _re.fullmatch(core_t.pattern, extra) is None and \
                            (core_t.max_length is None or len(extra) <= core_t.max_length):
                        out.append((['s', extra], 'reject', why))
                except _re.error:
                    pass
    elif k == 'ts' and doc[0] == 's':
        # texts of the ISO 8601 family that are NOT in the declared format (reference: strptime with that format)
        import datetime as _dt
        t0 = doc[1]
        for cand in (t0[:-1] + '.250Z' if t0.endswith('Z') else t0 + '.250', t0[:10] + 'Z', t0.replace('T', ' '),
                     t0.replace('-', '').replace(':', ''), t0[:-1] + '+05:00Z' if t0.endswith('Z') else t0 + '+05:00',
                     t0 + ' ', ' ' + t0):
            if cand == t0:
                continue
            try:
                _dt.datetime.strptime(cand, core_t.format)
            except ValueError:
                out.append((['s', cand], 'reject', 'timestamp text that is not in the declared format'))
    elif k == 'list' and doc[0] == 'a':
        items = doc[1]
        if core_t.max_items is not None and items:
            out.append((['a', items + [items[0]] * (core_t.max_items + 1 - len(items))], 'reject', 'too many items'))
        if core_t.min_items and len(items) >= core_t.min_items:
            out.append((['a', items[:core_t.min_items - 1]], 'reject', 'too few items'))
        if items and depth < 4:
            i = rng.randrange(len(items))
            for d2, v, why in classified_mutations(ses, core_t.data_type, items[i], rng, depth + 1):
                out.append((['a', items[:i] + [d2] + items[i + 1:]], v, 'list item: ' + why))
    elif k == 'map' and doc[0] == 'o':
        if doc[1] and depth < 4:
            i = rng.randrange(len(doc[1]))
            key, val = doc[1][i]
            for d2, v, why in classified_mutations(ses, core_t.value_data_type, val, rng, depth + 1):
                out.append((['o', doc[1][:i] + [[key, d2]] + doc[1][i + 1:]], v, 'map value: ' + why))
    elif k == 'struct' and doc[0] == 'o':
        target = core_t
        members = dict((a, b) for a, b in doc[1])
        if core_t.has_enumerated_subtypes():
            tag = members.get('.tag')
            sub = None
            if tag and tag[0] == 's':
                for f in core_t.get_enumerated_subtypes():
                    if f.name == tag[1]:
                        sub = f.data_type
            if sub is None or sub.has_enumerated_subtypes():
                return out
            target = sub
            out.append((['o', [[a, b] for a, b in doc[1] if a != '.tag']], 'reject', "enumerated subtype without '.tag'"))
            out.append((['o', [[a, (['s', 'zz_unknown_subtype'] if a == '.tag' else b)] for a, b in doc[1]]],
                        'reject-strict' if core_t.is_catch_all() else 'reject', 'unknown subtype'))
        fields = [f for c in irdump.chain(target) for f in c.fields if not f.omitted_caller]
        for f in fields:
            fcore = _strip(f.data_type)[0]
            # a field of struct type none of whose fields is required is filled with a default instance when absent
            # (pinned by the project's own tests; classed unspecified, see DESIGN 5 C06 reading): not "required" here
            all_optional_struct = isinstance(fcore, Struct) and not fcore.has_enumerated_subtypes() and \
                not fcore.all_required_fields
            required = not isinstance(f.data_type, Nullable) and not f.has_default and \
                not _strip(f.data_type)[1] and not all_optional_struct
            if f.name in members:
                if required:
                    out.append((['o', [[a, b] for a, b in doc[1] if a != f.name]], 'reject', 'required field omitted'))
                if depth < 4 and rng.random() < 0.7:
                    for d2, v, why in classified_mutations(ses, f.data_type, members[f.name], rng, depth + 1):
                        out.append((['o', [[a, (d2 if a == f.name else b)] for a, b in doc[1]]], v, 'field %s: %s' % (f.name, why)))
            elif _strip(f.data_type)[1]:
                out.append((['o', doc[1] + [[f.name, ['n']]]], 'accept', 'explicit null for a nullable field'))
        out.append((['o', doc[1] + [['zz_unknown_field', ['i', 1]]]], 'reject-strict', 'unknown field'))
    elif k == 'union' and doc[0] == 'o':
        members = dict((a, b) for a, b in doc[1])
        tag = members.get('.tag')
        if not tag or tag[0] != 's':
            return out
        f = next((f for f in core_t.all_fields if f.name == tag[1]), None)
        if f is None:
            return out
        catch_all = next((g.name for g in core_t.all_fields if g.catch_all), None)
        out.append((['o', [[a, (['s', 'zz_unknown_tag'] if a == '.tag' else b)] for a, b in doc[1] if a in ('.tag',)]],
                    'reject-strict' if catch_all else 'reject', 'unknown tag'))
        if catch_all:
            out.append((['o', [['.tag', ['s', catch_all]]]], 'reject', 'the catch-all tag itself'))
            out.append((['s', catch_all], 'reject', 'the catch-all tag itself (string form)'))
        out.append((['o', [[a, b] for a, b in doc[1] if a != '.tag']], 'reject', "union object without '.tag'"))
        ft, fnull = _strip(f.data_type)
        if isinstance(ft, Void):
            out.append((['s', f.name], 'accept', 'bare-string form of a void tag'))
        elif fnull and len(doc[1]) == 1:
            out.append((['s', f.name], 'accept', 'bare-string form of a tag-only nullable member'))
        elif isinstance(ft, Struct) and not ft.has_enumerated_subtypes():
            if depth < 4:
                rest = ['o', [[a, b] for a, b in doc[1] if a != '.tag']]
                for d2, v, why in classified_mutations(ses, ft, rest, rng, depth + 1):
                    if d2[0] == 'o' and v != 'accept':
                        if fnull and not d2[1]:
                            continue      # only `.tag` is left: that IS the valid tag-only form of a nullable member
                        out.append((['o', [['.tag', tag]] + d2[1]], v, 'struct member %s: %s' % (f.name, why)))
        elif f.name in members and depth < 4:
            for d2, v, why in classified_mutations(ses, ft, members[f.name], rng, depth + 1):
                out.append((['o', [[a, (d2 if a == f.name else b)] for a, b in doc[1]]], v, 'member %s: %s' % (f.name, why)))
            if not fnull:
                out.append((['o', [['.tag', tag]]], 'reject', 'payload of a non-nullable member omitted'))
    return out


SMALL_ATOMS = [['n'], ['b', True], ['i', 0], ['i', 1], ['f', values.fbits(1.5)], ['s', ''], ['s', 'a'], ['s', '.tag'], ['s', 'other'],
               ['s', 'é'], ['a', []], ['o', []]]


def small_docs(rng, ses, ir, n):
    """Arbitrary small JSON documents, biased to shapes that reach the decoder's branches for `ir`."""
    from stone.ir import Struct, Union
    core_t, _ = _strip(ir)
    names = ['.tag', 'a', 'other']
    if isinstance(core_t, Struct):
        names += [f.name for f in core_t.all_fields][:4]
        if core_t.has_enumerated_subtypes():
            names += [f.name for f in core_t.get_enumerated_subtypes()][:3]
    if isinstance(core_t, Union):
        names += [f.name for f in core_t.all_fields][:5]
    names = list(dict.fromkeys(names))      # a member may be called `a` or `other`: a JSON object has each key once
    tagvals = [['s', x] for x in names if x != '.tag']
    out = list(SMALL_ATOMS) + tagvals
    for _ in range(n):
        r = rng.random()
        if r < 0.35:
            ks = rng.sample(names, min(len(names), rng.randint(1, 3)))
            out.append(['o', [[k, (rng.choice(tagvals) if k == '.tag' and rng.random() < 0.8 else rng.choice(SMALL_ATOMS))] for k in ks]])
        elif r < 0.55:
            out.append(['a', [rng.choice(SMALL_ATOMS + tagvals) for _ in range(rng.randint(1, 3))]])
        elif r < 0.8:
            ks = rng.sample(names, min(len(names), 2))
            inner = ['o', [[k, rng.choice(SMALL_ATOMS + tagvals)] for k in ks]]
            out.append(['o', [['.tag', rng.choice(tagvals)], [rng.choice(names[1:]), inner]]])
        else:
            out.append(rng.choice(SMALL_ATOMS + tagvals))
    return out


def valid_deep(ses, t, v):
    """Is the decoded value valid for t?  reference predicate, recursing into struct fields and union
    payloads (required fields present, every set field valid). None = unspecified."""
    from stone.ir import Struct, Union, Nullable, Void, List, Map
    from harness.values import sat_ir
    core_t, nullable = _strip(t)
    if v[0] == 'n' and nullable:
        return True
    r = sat_ir(ses.built.ir_by_ref, t, v)
    if r is False:
        return False
    res = [r]
    if v[0] == 'S':
        dt = ses.built.ir_by_ref.get(v[1])
        slots = dict((a, b) for a, b in v[2])
        for c in irdump.chain(dt):
            for f in c.fields:
                if f.name in slots:
                    if slots[f.name][0] == 'n' and _strip(f.data_type)[1]:
                        continue
                    res.append(valid_deep(ses, f.data_type, slots[f.name]))
                elif not (isinstance(f.data_type, Nullable) or f.has_default or f.omitted_caller):
                    # lenient decoding of an unknown subtype yields the base struct; everything else must be complete
                    res.append(False)
    elif v[0] == 'U':
        dt = ses.built.ir_by_ref.get(v[1])
        f = next((f for f in dt.all_fields if f.name == v[2]), None)
        if f is None:
            res.append(False)
        elif isinstance(f.data_type, Void):
            res.append(v[3][0] == 'n')
        else:
            res.append(valid_deep(ses, f.data_type, v[3]))
    elif v[0] == 'l' and isinstance(core_t, List):
        res += [valid_deep(ses, core_t.data_type, x) for x in v[1]]
    elif v[0] == 'd' and isinstance(core_t, Map):
        res += [valid_deep(ses, core_t.value_data_type, b) for _a, b in v[1]]
    if False in res:
        return False
    return None if None in res else True


def suite_decode(ck, sessions, n_values, n_small, judge=True):
    """rt.dec on reference encodings, classified mutations and arbitrary small documents, strict and
    lenient; oracle: no crash, decoded values valid, must-accept / must-reject classes."""
    for ses in sessions:
        work = []   # (label, ir, irt, validator, doc, verdict, why)
        for label, ir in ses.types:
            validator = ses.validator(label, ir)
            irt = irdump.ir_ty(ir)
            for _ in range(n_values):
                tv = ses.gen.valid(ir)
                if tv is None:
                    continue
                built = outcome(lambda: ses.codec.build_checked(tv))
                if built[0] != 'ok':
                    continue
                enc = ses.real_encode(validator, built[1])
                if enc[0] != 'ok':
                    continue
                doc = enc[1]
                stored = ses.codec.to_tagged(built[1])
                ambiguous = shape_sig(ses, ir, stored) == 'nullable-all-optional-struct-member-empty'
                work.append((label, ir, irt, validator, doc, 'accept' if not ambiguous else 'unspec', 'reference encoding'))
                for d2, verdict, why in classified_mutations(ses, ir, doc, ck.rng, top=True):
                    work.append((label, ir, irt, validator, d2, verdict, why))
            for d in small_docs(ck.rng, ses, ir, n_small):
                work.append((label, ir, irt, validator, d, 'unspec', 'arbitrary small document'))
        ops, meta = [], []
        for w in work:
            for strict in (True, False):
                ops.append({'op': 'rt.dec', 'ty': w[2], 'doc': w[4], 'perms': [], 'strict': strict})
                meta.append((w, strict))
        reps = ses.run(ops, [w[4] for w in work], extra_types=[w[2] for w in work])
        for (w, strict), rep in zip(meta, reps):
            label, ir, irt, validator, doc, verdict, why = w
            real = ses.real_decode(validator, doc, strict=strict)
            mo = model_outcome(rep)
            ck.case(('dec', label, strict, json.dumps(doc, sort_keys=True)), nontrivial=doc[0] in 'oa')
            ck.hist('rt.dec.class', verdict)
            ck.hist('rt.dec.outcome', '%s/%s' % (verdict, real[0]))
            if same(real, mo):
                ck.agree('rt.dec')
            else:
                ck.disagree('rt.dec', {'type': label, 'doc': doc, 'strict': strict, 'why': why}, list(real), list(mo))
            if not judge:
                continue
            bad = None
            if real[0] == 'crash':
                bad = ('an exception other than the validation error escapes the decoder', real[1])
            elif real[0] == 'ok':
                if verdict == 'reject' or (verdict == 'reject-strict' and strict):
                    bad = ('a document that must be rejected is accepted', why.split(': ')[-1])
                else:
                    vd = valid_deep(ses, ir, real[1])
                    if vd is False:
                        bad = ('the decoder returns a value that is not valid for the type', _kind(_strip(ir)[0]))
            elif real[0] == 'verr' and verdict == 'accept':
                bad = ('a valid serialisation is rejected', why)
            if bad:
                ck.failing_input('C06: %s (%s)' % bad, {'kind': 'decode', 'why': bad[0], 'detail': bad[1]},
                                 {'specs': ses.specs, 'type': label, 'doc': doc, 'strict': strict, 'mutation': why,
                                  'real': list(real)})
            if len(ck.samples) < 4 and verdict != 'unspec' and doc[0] == 'o':
                ck.sample({'type': label, 'doc': tagged_to_json(doc), 'strict': strict, 'class': verdict, 'why': why, 'real': real[0]})


# ==================================================================================================
# C13: permissions (Omitted) and redaction
# ==================================================================================================
def declared_callers(api):
    out = set()
    for ns in api.namespaces.values():
        for dt in ns.data_types:
            for f in dt.fields:
                if f.omitted_caller:
                    out.add(f.omitted_caller)
    return sorted(out)


def subsets(xs):
    out = [[]]
    for x in xs:
        out += [s + [x] for s in out]
    return out


class Sentinels:
    def __init__(self):
        self.n = 0

    def fresh(self):
        self.n += 1
        return 's%dntX' % self.n        # contains "nt" after a digit; BlotRe "(se)(nt)" does not match it

    CORES = ('sent', 'secret', 'abc', 'axc', '2024', '7', 'me@', 'x', 'a1', 'ab', 'user@example.com')

    def __init_matches(self):
        if not hasattr(self, 'matched'):
            self.matched = {}        # sentinel -> (matched text, groups): what the redactor's regex selects in it

    def matching(self, regex):
        """A unique string the redactor's regex matches (the path that prints the regex groups instead of the mask);
        the unique part sits after the match, outside every group. Cores that carry the counter come first, so that
        the matched text itself is unique where the regex allows it. None when no simple candidate matches."""
        import re
        self.__init_matches()
        self.n += 1
        unique = ('%d' % (9000000 + self.n), 'w%dw@' % (9000000 + self.n))
        for core in unique + self.CORES:
            s = '%sQ%dZ' % (core, self.n)
            try:
                m = re.search(regex, s)
            except re.error:
                return None
            if m and m.end() <= len(core):
                self.matched[s] = (m.group(0), tuple(g for g in m.groups() if g))
                return s
        return None


def mark(ses, t, v, sent, omitted_for, redacted, acc, depth=0):
    """Walk value v of declared type t; replace unconstrained strings at omitted / redacted positions by
    unique sentinels. acc: {'omitted': [(sentinel, caller)], 'redacted': [sentinel]}"""
    from stone.ir import Alias, Nullable, String, List, Map, Struct, Union
    from harness.values import sat_ir
    cur = t
    while isinstance(cur, (Alias, Nullable)):
        if isinstance(cur, Alias) and irdump.effective_redactor(cur) is not None:
            redacted = irdump.effective_redactor(cur)      # what the generated validator object carries (see irdump)
        cur = cur.data_type
    k = v[0]
    if k == 's' and isinstance(cur, String):
        if omitted_for or redacted:
            s = None
            rx = getattr(redacted, 'regex', None)
            if rx and sent.n % 2 == 0:
                s = sent.matching(rx)            # every other redacted string is one the redactor's regex matches
                if s is not None and not sat_ir({}, cur, ['s', s]):
                    s = None
            if s is None:
                s = sent.fresh()
            if sat_ir({}, cur, ['s', s]):
                if omitted_for:
                    acc['omitted'].append((s, omitted_for))
                if redacted:
                    acc['redacted'].append(s)
                return ['s', s]
        return v
    if k in ('l', 'u') and isinstance(cur, List):
        return [k, [mark(ses, cur.data_type, x, sent, omitted_for, redacted, acc, depth + 1) for x in v[1]]]
    if k == 'd' and isinstance(cur, Map):
        return ['d', [[a, mark(ses, cur.value_data_type, b, sent, omitted_for, redacted, acc, depth + 1)] for a, b in v[1]]]
    if k == 'S':
        dt = ses.built.ir_by_ref[v[1]]
        fields = {f.name: f for c in irdump.chain(dt) for f in c.fields}
        out = []
        for a, b in v[2]:
            f = fields[a]
            out.append([a, mark(ses, f.data_type, b, sent, omitted_for or f.omitted_caller,
                                redacted or f.redactor or False, acc, depth + 1)])
        return ['S', v[1], out]
    if k == 'U':
        dt = ses.built.ir_by_ref[v[1]]
        f = next((f for f in dt.all_fields if f.name == v[2]), None)
        if f is None:
            return v
        return ['U', v[1], v[2], mark(ses, f.data_type, v[3], sent, omitted_for or f.omitted_caller,
                                      redacted or f.redactor or False, acc, depth + 1)]
    return v


def suite_perms(ck, sessions, n_values, judge=True):
    from stone.ir import Struct, Union
    for ses in sessions:
        callers = declared_callers(ses.api)[:3]
        psets = subsets(callers)
        # a caller's permissions are a list: what it may see must not depend on the order it names them in
        psets += [list(reversed(p)) for p in psets if len(p) > 1]
        # --- class tables: real reflection attributes vs model (code-following) vs specification
        ops, meta = [], []
        for ref, dt in ses.built.ir_by_ref.items():
            for perms in psets:
                ops.append({'op': 'rt.fields' if isinstance(dt, Struct) else 'rt.tags', 'cls': ref, 'perms': perms})
                meta.append((ref, dt, perms))
        for (ref, dt, perms), r in zip(meta, ses.run(ops, [])):
            cls = ses.built.cls_by_ref[ref]
            if isinstance(dt, Struct):
                real = [n for n, _ in cls._all_fields_]
                for p in perms:
                    real += [n for n, _ in getattr(cls, '_all_%s_fields_' % p, [])]
                spec = [f.name for c in irdump.chain(dt) for f in c.fields if not f.omitted_caller or f.omitted_caller in perms]
            else:
                real = list(cls._tagmap)
                for p in perms:
                    real += list(getattr(cls, '_%s_tagmap' % p, {}))
                spec = [f.name for f in dt.all_fields if not f.omitted_caller or f.omitted_caller in perms]
            ck.case(('tables', ref, tuple(perms)), nontrivial=bool(perms))
            if sorted(real) == sorted(r.get('code', ['<protocol>'])):
                ck.agree('rt.tables')
            else:
                ck.disagree('rt.tables', {'cls': ref, 'perms': perms}, real, r)
            if judge and sorted(real) != sorted(spec):
                ck.failing_input('C13: the members a caller holding %r sees are not the declared ones' % (perms,),
                                 {'kind': 'tables', 'struct': isinstance(dt, Struct)},
                                 {'specs': ses.specs, 'cls': ref, 'perms': perms, 'real': sorted(real), 'declared': sorted(spec)})
        # --- values
        sent = Sentinels()
        work = []
        for label, ir in ses.types:
            validator = ses.validator(label, ir)
            irt = irdump.ir_ty(ir)
            for perms in psets:
                gen = values.ValueGen(ck.rng, ses.api, ses.ts, perms=perms)
                for _ in range(n_values):
                    tv = gen.valid(ir)
                    if tv is None:
                        continue
                    acc = {'omitted': [], 'redacted': []}
                    tv = mark(ses, ir, tv, sent, None, False, acc)
                    built = outcome(lambda: ses.codec.build_checked(tv))
                    if built[0] != 'ok':
                        ck.stat('perm_value_refused')
                        continue
                    work.append((label, ir, irt, validator, built[1], ses.codec.to_tagged(built[1]), perms, acc))
        ops, meta = [], []
        for w in work:
            label, ir, irt, validator, obj, stored, vperms, acc = w
            for eperms in psets:
                for redact in (False, True):
                    ops.append({'op': 'rt.enc', 'ty': irt, 'v': stored, 'perms': eperms, 'redact': redact})
                    meta.append((w, eperms, redact))
        reps = ses.run(ops, [w[5] for w in work], extra_types=[w[2] for w in work])
        docs = []
        for (w, eperms, redact), rep in zip(meta, reps):
            label, ir, irt, validator, obj, stored, vperms, acc = w
            real = ses.real_encode(validator, obj, perms=eperms, redact=redact)
            mo = model_outcome(rep)
            ck.case(('penc', label, tuple(eperms), redact, json.dumps(stored, sort_keys=True)),
                    nontrivial=bool(acc['omitted'] or acc['redacted']))
            ck.hist('rt.enc.perms', '%d-of-%d%s' % (len(eperms), len(callers), '+redact' if redact else ''))
            ck.hist('rt.penc.outcome', real[0])
            if same(real, mo):
                ck.agree('rt.enc')
            else:
                ck.disagree('rt.enc', {'type': label, 'value': stored, 'perms': eperms, 'redact': redact}, list(real), list(mo))
            if real[0] == 'crash' and judge:
                ck.failing_input('C13: encoding with permissions / redaction raises %s' % real[1],
                                 {'kind': 'penc-crash', 'exc': real[1]},
                                 {'specs': ses.specs, 'type': label, 'value': stored, 'perms': eperms, 'redact': redact})
            if real[0] == 'verr' and judge and set(eperms) == set(vperms):
                # the value was built by (and is valid for) a caller holding exactly these permissions: every member
                # it sets "is present for callers holding c", so the encoder has nothing to refuse
                ck.failing_input('C13: a value built by a caller holding %r cannot be encoded for that caller' % (list(eperms),),
                                 {'kind': 'penc-refused-for-holder'},
                                 {'specs': ses.specs, 'type': label, 'value': stored, 'perms': eperms, 'redact': redact,
                                  'real': list(real)})
            if real[0] != 'ok':
                continue
            text = json.dumps(tagged_to_json(real[1]), ensure_ascii=False)
            if judge:
                for s, caller in acc['omitted']:
                    if caller not in eperms and s in text:
                        ck.failing_input('C13: a member omitted for %r appears in the encoding for a caller without it' % caller,
                                         {'kind': 'omitted-leak'},
                                         {'specs': ses.specs, 'type': label, 'value': stored, 'perms': eperms, 'redact': redact,
                                          'sentinel': s, 'text': text[:400]})
                    if caller in eperms and s not in text and not (redact and s in acc['redacted']):
                        ck.failing_input('C13: a member omitted for %r is missing for a caller holding it' % caller,
                                         {'kind': 'omitted-missing'},
                                         {'specs': ses.specs, 'type': label, 'value': stored, 'perms': eperms, 'redact': redact,
                                          'sentinel': s, 'text': text[:400]})
                if redact:
                    for s in acc['redacted']:
                        if s in text:
                            ck.failing_input('C13: clear text of a redacted value appears in the output',
                                             {'kind': 'redact-leak'},
                                             {'specs': ses.specs, 'type': label, 'value': stored, 'perms': eperms,
                                              'sentinel': s, 'text': text[:400]})
                        # the part the redactor's regex matched may appear only as far as it lies in a group
                        # ("replaced by the blot mask, by the configured regex groups, or by its hash")
                        hit = getattr(sent, 'matched', {}).get(s)
                        if hit and len(hit[0]) >= 7 and not any(hit[0] in g for g in hit[1]) and hit[0] in text:
                            ck.failing_input('C13: the text a redactor\'s regex matched appears in the output although '
                                             'it is not in a group', {'kind': 'redact-leak-match'},
                                             {'specs': ses.specs, 'type': label, 'value': stored, 'perms': eperms,
                                              'sentinel': s, 'matched': hit[0], 'text': text[:400]})
            if not redact:
                docs.append((w, eperms, real[1]))
            if len(ck.samples) < 4 and (acc['omitted'] or acc['redacted']) and redact:
                ck.sample({'type': label, 'perms': eperms, 'redact': redact, 'encoded': tagged_to_json(real[1]),
                           'omitted_sentinels': acc['omitted'], 'redacted_sentinels': acc['redacted']})
        # --- decode what was produced for callers `eperms`, as a caller holding `dperms`
        ops, meta = [], []
        for (w, eperms, doc) in docs:
            for dperms in psets:
                for strict in (True, False):
                    ops.append({'op': 'rt.dec', 'ty': w[2], 'doc': doc, 'perms': dperms, 'strict': strict})
                    meta.append((w, eperms, doc, dperms, strict))
        reps = ses.run(ops, [d for _w, _e, d in docs], extra_types=[w[2] for w, _e, _d in docs])
        for (w, eperms, doc, dperms, strict), rep in zip(meta, reps):
            label, ir, irt, validator, obj, stored, vperms, acc = w
            real = ses.real_decode(validator, doc, perms=dperms, strict=strict)
            mo = model_outcome(rep)
            ck.case(('pdec', label, tuple(eperms), tuple(dperms), strict, json.dumps(doc, sort_keys=True)), nontrivial=bool(acc['omitted']))
            ck.hist('rt.pdec.outcome', real[0])
            if same(real, mo):
                ck.agree('rt.dec')
            else:
                ck.disagree('rt.dec', {'type': label, 'doc': doc, 'perms': dperms, 'strict': strict}, list(real), list(mo))
            if not judge:
                continue
            text = json.dumps(tagged_to_json(doc), ensure_ascii=False)
            supplied_without = [c for s, c in acc['omitted'] if s in text and c not in dperms]
            if real[0] == 'crash':
                ck.failing_input('C13: decoding with permissions raises %s' % real[1], {'kind': 'pdec-crash', 'exc': real[1]},
                                 {'specs': ses.specs, 'type': label, 'doc': doc, 'perms': dperms, 'strict': strict})
            elif strict and supplied_without and real[0] == 'ok':
                ck.failing_input('C13: a caller without %r supplied a member omitted for it and strict decoding accepted it' % supplied_without[0],
                                 {'kind': 'omitted-supplied'},
                                 {'specs': ses.specs, 'type': label, 'doc': doc, 'perms': dperms})
            elif sorted(dperms) == sorted(eperms) and real[0] != 'ok':
                ck.failing_input('C13: a caller cannot decode what was encoded for the same permissions',
                                 {'kind': 'pdec-refused'},
                                 {'specs': ses.specs, 'type': label, 'doc': doc, 'perms': dperms, 'strict': strict, 'real': list(real)})


# ==================================================================================================
# C05: real encoding vs the specification-level `wire` (and the model's validB on generated values)
# ==================================================================================================
def json_equiv(a, b):
    """Parsed-JSON equality: same kinds (a float and an integer of equal value are the same JSON
    number; booleans are not numbers), objects unordered."""
    ka, kb = a[0], b[0]
    if ka in 'if' and kb in 'if':
        from harness.irdump import bits_to_float
        xa = a[1] if ka == 'i' else bits_to_float(a[1])
        xb = b[1] if kb == 'i' else bits_to_float(b[1])
        return xa == xb
    if ka != kb:
        return False
    if ka == 'a':
        return len(a[1]) == len(b[1]) and all(json_equiv(x, y) for x, y in zip(a[1], b[1]))
    if ka == 'o':
        da, db = dict((k, v) for k, v in a[1]), dict((k, v) for k, v in b[1])
        return len(a[1]) == len(da) and len(b[1]) == len(db) and da.keys() == db.keys() and \
            all(json_equiv(da[k], db[k]) for k in da)
    return a == b


def _boolify(ses, t, v, in_list=False):
    """(value with ['i', 0/1] items of INTEGER lists replaced by ['b', False/True], anything replaced?) - directed by
    the declared type: a bool in a Float list is converted by the validator and written as a float, which is another
    matter"""
    from stone.ir import Alias, Nullable, List, Map, Struct, Union, Int32, Int64, UInt32, UInt64
    cur = t
    while isinstance(cur, (Alias, Nullable)):
        cur = cur.data_type
    k = v[0]
    if k == 'i' and in_list and v[1] in (0, 1) and isinstance(cur, (Int32, Int64, UInt32, UInt64)):
        return ['b', bool(v[1])], True
    if k in ('l', 'u') and isinstance(cur, List):
        out = [_boolify(ses, cur.data_type, x, True) for x in v[1]]
        return [k, [a for a, _ in out]], any(c for _, c in out)
    if k == 'd' and isinstance(cur, Map):
        out = [(a, _boolify(ses, cur.value_data_type, b, in_list)) for a, b in v[1]]
        return ['d', [[a, b] for a, (b, _) in out]], any(c for _, (_b, c) in out)
    if k == 'S':
        dt = ses.built.ir_by_ref.get(v[1])
        if dt is None:
            return v, False
        fields = {f.name: f for c in irdump.chain(dt) for f in c.fields}
        out = [(a, _boolify(ses, fields[a].data_type, b, False) if a in fields else (b, False)) for a, b in v[2]]
        return ['S', v[1], [[a, b] for a, (b, _) in out]], any(c for _, (_b, c) in out)
    if k == 'U':
        dt = ses.built.ir_by_ref.get(v[1])
        f = next((f for f in dt.all_fields if f.name == v[2]), None) if dt is not None else None
        if f is None:
            return v, False
        b, c = _boolify(ses, f.data_type, v[3], False)
        return ['U', v[1], v[2], b], c
    return v, False


def suite_wire(ck, sessions, n_values, judge=True):
    for ses in sessions:
        cases = []
        callers = declared_callers(ses.api)
        gen = values.ValueGen(ck.rng, ses.api, ses.ts, aware_ts=True)
        for label, ir in ses.types:
            validator = ses.validator(label, ir)
            irt = irdump.ir_ty(ir)
            for _ in range(n_values):
                tv = gen.valid(ir)
                if tv is None:
                    continue
                built = outcome(lambda: ses.codec.build_checked(tv))
                if built[0] != 'ok':
                    continue
                cases.append((label, ir, irt, validator, built[1], ses.codec.to_tagged(built[1])))
                # the same value with Python booleans where a list holds the integers 0 / 1: a bool is an int in
                # Python and is valid for an integer type; the wire form is still a JSON number
                tvb, changed = _boolify(ses, ir, tv)
                if changed:
                    builtb = outcome(lambda: ses.codec.build_checked(tvb))
                    if builtb[0] == 'ok':
                        cases.append((label, ir, irt, validator, builtb[1], ses.codec.to_tagged(builtb[1])))
        ops = [{'op': 'rt.wire', 'ty': c[2], 'v': c[5]} for c in cases]
        if callers:
            ops += [{'op': 'rt.enc', 'ty': c[2], 'v': c[5], 'perms': callers, 'redact': False} for c in cases]
        reps = ses.run(ops, [c[5] for c in cases], extra_types=[c[2] for c in cases])
        reps_p = reps[len(cases):] if callers else [None] * len(cases)
        for c, rep, rep_p in zip(cases, reps, reps_p):
            label, ir, irt, validator, obj, stored = c
            real = ses.real_encode(validator, obj)
            ck.case(('wire', label, json.dumps(stored, sort_keys=True)), nontrivial=stored[0] in 'SUld')
            ck.hist('rt.wire.kind', stored[0])
            if 'ok' not in rep:
                ck.disagree('rt.wire', {'type': label, 'value': stored}, list(real), rep)
                continue
            if not rep.get('valid'):
                # the generator's "valid by construction" and the model's validB must agree
                ck.disagree('rt.validB', {'type': label, 'value': stored}, 'generated as valid', rep)
            else:
                ck.agree('rt.validB')
            # C04's theorem: inside its domain (valid, normal, valWF, not the documented ambiguity) the decoder
            # returns exactly `canon v` for the wire form, in both modes
            in_domain = rep.get('valid') and rep.get('normal') and rep.get('valWF') and not rep.get('ambiguousEmpty') \
                and rep.get('tyWF')
            ck.hist('rt.roundtrip_theorem_domain', 'inside' if in_domain else
                    'outside:' + ','.join(k for k in ('valid', 'normal', 'valWF', 'tyWF') if not rep.get(k)) +
                    (',ambiguousEmpty' if rep.get('ambiguousEmpty') else ''))
            if in_domain and real[0] == 'ok' and 'canon' in rep:
                for strict in (True, False):
                    back = ses.real_decode(validator, real[1], strict=strict)
                    if back[0] == 'ok' and canon(back[1]) == canon(rep['canon']):
                        ck.agree('rt.canon')
                    else:
                        ck.disagree('rt.canon', {'type': label, 'value': stored, 'strict': strict}, list(back), rep['canon'])
            if real[0] == 'ok' and json_equiv(real[1], rep['ok']):
                ck.agree('rt.wire')
            else:
                ck.disagree('rt.wire', {'type': label, 'value': stored}, list(real), rep['ok'])
                if judge:
                    # the reference encoder is written from the document: a difference on a valid value is
                    # the property failing on the real code
                    ck.failing_input('C05: the encoding differs from the documented wire format',
                                     {'kind': 'wire', 'shape': stored[0], 'outcome': real[0]},
                                     {'specs': ses.specs, 'type': label, 'value': stored, 'real': list(real),
                                      'wire': rep['ok']})
            # the same value encoded for a caller holding every declared permission: no member that is omitted for a
            # caller class is set in it, so the documented wire form is the same one (an encoder that refuses because a
            # required member of a caller class is unset is not judged here)
            if callers and real[0] == 'ok':
                real_p = ses.real_encode(validator, obj, perms=callers)
                if real_p[0] != 'ok' and model_outcome(rep_p)[0] == real_p[0]:
                    ck.stat('wire.with_all_permissions_refused')        # model and code refuse alike
                elif real_p[0] == 'ok' and json_equiv(real_p[1], rep['ok']):
                    ck.agree('rt.wire')
                else:
                    ck.disagree('rt.wire', {'type': label, 'value': stored, 'perms': callers}, list(real_p), rep['ok'])
                    if judge:
                        ck.failing_input('C05: the encoding for a caller holding every permission differs from the '
                                         'documented wire format',
                                         {'kind': 'wire', 'shape': stored[0], 'outcome': real_p[0], 'perms': 'all'},
                                         {'specs': ses.specs, 'type': label, 'value': stored, 'perms': callers,
                                          'real': list(real_p), 'wire': rep['ok']})
            if len(ck.samples) < 4 and stored[0] in 'SU':
                ck.sample({'type': label, 'value': stored, 'wire': tagged_to_json(rep['ok'])})


# ==================================================================================================
# sessions, replay
# ==================================================================================================
def sessions(ck, specs_list):
    """Compile + generate + import every spec; a spec the real toolchain cannot build is recorded
    (and judged by C09's check, not here)."""
    out = []
    for specs in specs_list:
        try:
            out.append(Session(ck, specs))
        except Exception as e:  # noqa: BLE001
            ck.stat('spec_not_buildable')
            ck.note('spec not buildable (%s: %s): %s' % (type(e).__name__, str(e)[:120], [p for p, _ in specs]))
    ck.hist('rt.sessions', len(out))
    return out


def replay(ck, path):
    """Re-run one recorded case against the current tree and the model."""
    rec = json.load(open(path))
    case = rec.get('case', {})
    print(json.dumps({k: case[k] for k in case if k != 'specs'}, indent=1, default=repr)[:3000])
    if 'specs' not in case:
        print('replay: nothing executable recorded (%s)' % rec.get('what', rec.get('broken')))
        return 0
    ck.build()
    ses = Session(ck, [tuple(s) for s in case['specs']])
    label = case.get('type')
    found = [(l, ir) for l, ir in ses.types if l == label]
    if not found:
        print('replay: type %r not found' % label)
        return 2
    label, ir = found[0]
    if case.get('timestamps'):
        import datetime
        table = {int(k): datetime.datetime.fromisoformat(v) for k, v in case['timestamps'].items()}
        for i in range(max(table) + 1):
            # ids are positions in the registry: fill the gaps so that the recorded ids mean the recorded instants
            dt = table.get(i, datetime.datetime(1971, 1, 1) + datetime.timedelta(seconds=i))
            ses.ts.by_id.append(dt)
            ses.ts.ids[(dt.replace(tzinfo=None), None if dt.tzinfo is None else dt.utcoffset().total_seconds())] = i
    validator = ses.validator(label, ir)
    irt = irdump.ir_ty(ir)
    if 'doc' in case and case['doc'] is not None:
        real = ses.real_decode(validator, case['doc'], perms=case.get('perms', ()), strict=case.get('strict', True))
        rep = ses.run([{'op': 'rt.dec', 'ty': irt, 'doc': case['doc'], 'perms': list(case.get('perms', ())),
                        'strict': case.get('strict', True)}], [case['doc']], [irt])[0]
        print('real decode :', real)
        print('model decode:', model_outcome(rep))
    if 'value' in case:
        obj = ses.codec.to_py(case['value'])
        real = ses.real_encode(validator, obj, perms=case.get('perms', ()), redact=case.get('redact', False))
        rep = ses.run([{'op': 'rt.enc', 'ty': irt, 'v': case['value'], 'perms': list(case.get('perms', ())),
                        'redact': case.get('redact', False)}], [case['value']], [irt])[0]
        print('real encode :', real)
        print('model encode:', model_outcome(rep))
    return 0


# ==================================================================================================
# validator objects of the generated modules vs the model's validatorOf (structural comparison)
# ==================================================================================================
def dump_validator(ses, v):
    """A real validator object in the shape the driver's `rt.vdump` prints a PTy."""
    from stone.backends.python_rsrc import stone_validators as bv

    def red(o):
        r = getattr(o, '_redact', None)
        if r is None:
            return None
        return ['hash' if isinstance(r, bv.HashRedactor) else 'blot', r.regex]
    fl = {'n': False, 'ro': None, 'ri': None}
    core = v
    if isinstance(v, bv.Nullable):
        fl['n'] = True
        fl['ro'] = red(v)
        core = v.validator
    fl['ri'] = red(core)
    name = type(core).__name__
    if isinstance(core, bv.Integer):
        return {'k': name, 'fl': fl, 'lo': core.minimum, 'hi': core.maximum}
    if isinstance(core, bv.Real):
        return {'k': name, 'fl': fl, 'lo': None if core.minimum is None else values.fbits(core.minimum),
                'hi': None if core.maximum is None else values.fbits(core.maximum)}
    if isinstance(core, bv.String):
        return {'k': 'String', 'fl': fl, 'min': core.min_length, 'max': core.max_length, 'pat': core.pattern}
    if isinstance(core, bv.Timestamp):
        return {'k': 'Timestamp', 'fl': fl, 'fmt': core.format}
    if isinstance(core, bv.List):
        return {'k': 'List', 'fl': fl, 'item': dump_validator(ses, core.item_validator), 'min': core.min_items, 'max': core.max_items}
    if isinstance(core, bv.Map):
        return {'k': 'Map', 'fl': fl, 'key': dump_validator(ses, core.key_validator), 'val': dump_validator(ses, core.value_validator)}
    if isinstance(core, (bv.Struct, bv.Union)):
        return {'k': name, 'fl': fl, 'cls': ses.built.ref_by_cls.get(core.definition, '?' + core.definition.__name__)}
    return {'k': name, 'fl': fl}


def suite_vdump(ck, sessions):
    """Every validator object the generated modules hold (top-level types, aliases, route types, every field and tag)
    against `validatorOf` of the declared type: class, bounds, lengths, pattern, item / key / value validators,
    nullability, redactors. This is what catches a dropped or swapped argument in generate_validator_constructor
    for one particular combination, or a validator of the wrong class."""
    from stone.ir import Struct, Union
    for ses in sessions:
        ops, meta = [], []
        for label, ir in ses.types:
            ops.append({'op': 'rt.vdump', 'ty': irdump.ir_ty(ir)})
            meta.append((label, dump_validator(ses, ses.validator(label, ir)), None))
        for ref, dt in ses.built.ir_by_ref.items():
            cls = ses.built.cls_by_ref[ref]
            for f in dt.fields:
                if isinstance(dt, Struct):
                    real = getattr(cls, f.name).validator
                else:
                    real = getattr(cls, '_%s_validator' % f.name)
                ops.append({'op': 'rt.vdump', 'ty': irdump.ir_ty(f.data_type)})
                meta.append(('%s.%s' % (ref, f.name), dump_validator(ses, real), irdump.redactor_of(f.redactor)))
        reps = ses.run(ops, [])
        for (label, real, field_red), rep in zip(meta, reps):
            model = rep.get('ok')
            if model is not None and field_red is not None:
                # the field's own redactor sits on the outermost object of the field's validator
                if model['fl']['n']:
                    model['fl']['ro'] = field_red
                else:
                    model['fl']['ri'] = field_red
            ck.case(('vdump', label, json.dumps(real, sort_keys=True)), nontrivial=real['k'] in ('List', 'Map', 'Struct', 'StructTree', 'Union') or real['fl']['n'])
            ck.hist('rt.vdump.kind', real['k'])
            if model == real:
                ck.agree('rt.vdump')
            else:
                ck.disagree('rt.vdump', {'where': label, 'specs': [p for p, _ in ses.specs]}, real, model)
