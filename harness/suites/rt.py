"""rt.* correspondence suites and direct oracles for the Python JSON runtime (C04-C08, C10, C13)."""
import json
import os

from harness import core, pygen, irdump, values
from harness.values import canon, json_to_tagged, tagged_to_json


class Perms:
    def __init__(self, perms):
        self._p = list(perms)

    @property
    def permissions(self):
        return self._p


def outcome(fn):
    """Run real code; classify. ValidationError -> verr; anything else -> crash(<class name>)."""
    from stone.backends.python_rsrc import stone_validators as bv
    try:
        return ('ok', fn())
    except bv.ValidationError as e:
        return ('verr', str(e)[:200])
    except RecursionError:
        raise
    except Exception as e:  # noqa: BLE001 - the class of what escapes is exactly what is compared
        return ('crash', type(e).__name__)


def model_outcome(rep):
    if 'ok' in rep:
        return ('ok', rep['ok'])
    if 'verr' in rep:
        return ('verr', rep['verr'])
    if 'crash' in rep:
        return ('crash', rep['crash'])
    return ('protocol', rep)


def same(real, model, conv=canon):
    if real[0] != model[0]:
        return False
    if real[0] == 'ok':
        return conv(real[1]) == conv(model[1])
    return True


HAND_SPECS = [['rt1.stone', 'rt2.stone']]


def hand_specs():
    d = os.path.join(core.VERIF, 'harness', 'specs')
    return [[(p, open(os.path.join(d, p), encoding='utf-8').read()) for p in group] for group in HAND_SPECS]


class Session:
    """One compiled spec: real generated classes + the model's environment."""

    def __init__(self, ck, specs):
        self.ck = ck
        self.specs = specs
        self.built = pygen.build_python(specs)
        self.api = self.built.api
        self.env = irdump.env_of(self.api)
        self.ts = values.TsRegistry()
        self.codec = values.Codec(self.built, self.ts)
        self.gen = values.ValueGen(ck.rng, self.api, self.ts)
        self.types = irdump.top_level_types(self.api)
        self._validators = {}

    def validator(self, label, ir):
        if label not in self._validators:
            self._validators[label] = self.built.validator_for(ir)
        return self._validators[label]

    def run(self, ops, items, extra_types=()):
        """ops: driver requests (without ctx); items: every tagged value/doc mentioned (for Ext)."""
        ext = values.ext_tables(self.env, items, self.ts, extra_types)
        ctx = {'op': 'rt.ctx', 'env': self.env, 'ext': ext}
        rep = self.ck.driver([ctx] + ops)
        if 'ok' not in rep[0]:
            raise RuntimeError('rt.ctx refused: %r' % (rep[0],))
        return rep[1:]

    # ---- real side ----------------------------------------------------------------------------
    def real_encode(self, validator, obj, perms=(), redact=False, via_string=False):
        from stone.backends.python_rsrc import stone_serializers as ss
        p = Perms(perms) if perms else None
        if via_string:
            return outcome(lambda: json_to_tagged(json.loads(ss.json_encode(validator, obj, caller_permissions=p, should_redact=redact))))
        return outcome(lambda: json_to_tagged(ss.json_compat_obj_encode(validator, obj, caller_permissions=p, should_redact=redact)))

    def real_decode(self, validator, doc_tagged, perms=(), strict=True, via_string=False):
        from stone.backends.python_rsrc import stone_serializers as ss
        p = Perms(perms) if perms else None
        doc = tagged_to_json(doc_tagged)
        if via_string:
            return outcome(lambda: self.codec.to_tagged(ss.json_decode(validator, json.dumps(doc), caller_permissions=p, strict=strict)))
        return outcome(lambda: self.codec.to_tagged(ss.json_compat_obj_decode(validator, doc, caller_permissions=p, strict=strict)))


def spec_source(ck, n_generated, preset='rt'):
    """Hand-written seeds first, then generated specs (when the generator is available)."""
    out = list(hand_specs())
    try:
        from harness import specgen
    except ImportError:
        ck.note('specgen not available: hand-written specs only')
        return out
    for _ in range(n_generated):
        model = specgen.gen_model(ck.rng, preset)
        out.append(specgen.render(model, None))
    return out


def suite_encdec(ck, sessions, n_values, judge=()):
    """For every top-level type x valid values: real encode vs model; real decode (strict, lenient) of
    the real encoding vs model. `judge` selects direct oracles: 'C04' round trip."""
    for ses in sessions:
        cases = []
        for label, ir in ses.types:
            validator = ses.validator(label, ir)
            irt = irdump.ir_ty(ir)
            for _ in range(n_values):
                tv = ses.gen.valid(ir)
                if tv is None:
                    ck.stat('no_valid_value_drawn')
                    continue
                built = outcome(lambda: ses.codec.build_checked(tv))
                if built[0] != 'ok':
                    ck.stat('valid_value_refused_by_constructor')
                    if 'C08' in judge or 'C04' in judge:
                        ck.failing_input('a value valid for the declared type is refused by the generated classes',
                                         {'kind': 'valid-refused', 'type': label.split()[0]},
                                         {'specs': ses.specs, 'type': label, 'value': tv, 'outcome': list(built)})
                    continue
                obj = built[1]
                stored = ses.codec.to_tagged(obj)
                cases.append((label, ir, irt, validator, obj, stored))
        # phase 1: encode
        ops = [{'op': 'rt.enc', 'ty': irt, 'v': stored, 'perms': [], 'redact': False} for (_l, _i, irt, _v, _o, stored) in cases]
        reps = ses.run(ops, [c[5] for c in cases], extra_types=[c[2] for c in cases])
        docs = []
        for case, rep in zip(cases, reps):
            label, ir, irt, validator, obj, stored = case
            real = ses.real_encode(validator, obj)
            mo = model_outcome(rep)
            ck.case(('enc', label, json.dumps(stored, sort_keys=True)), nontrivial=stored[0] in 'SUld')
            ck.hist('rt.enc.kind', stored[0])
            ck.hist('rt.enc.outcome', real[0])
            if same(real, mo):
                ck.agree('rt.enc')
            else:
                ck.disagree('rt.enc', {'type': label, 'value': stored}, list(real), list(mo))
            if real[0] == 'ok':
                docs.append((case, real[1]))
            elif 'C04' in judge:
                ck.failing_input('a valid value cannot be encoded',
                                 {'kind': 'encode-fails', 'outcome': real[0], 'detail': real[1] if real[0] == 'crash' else ''},
                                 {'specs': ses.specs, 'type': label, 'value': stored, 'outcome': list(real)})
            if len(ck.samples) < 4 and stored[0] in 'SU' and real[0] == 'ok':
                ck.sample({'type': label, 'value': stored, 'encoded': tagged_to_json(real[1])})
        # phase 2: decode what was encoded
        ops, meta = [], []
        for (case, doc) in docs:
            for strict in (True, False):
                ops.append({'op': 'rt.dec', 'ty': case[2], 'doc': doc, 'perms': [], 'strict': strict})
                meta.append((case, doc, strict))
        reps = ses.run(ops, [d for _c, d in docs], extra_types=[c[2] for c, _d in docs])
        for (case, doc, strict), rep in zip(meta, reps):
            label, ir, irt, validator, obj, stored = case
            real = ses.real_decode(validator, doc, strict=strict)
            mo = model_outcome(rep)
            ck.case(('dec', label, strict, json.dumps(doc, sort_keys=True)), nontrivial=doc[0] in 'oa')
            ck.hist('rt.dec.outcome', real[0])
            if same(real, mo):
                ck.agree('rt.dec')
            else:
                ck.disagree('rt.dec', {'type': label, 'doc': doc, 'strict': strict}, list(real), list(mo))
            if 'C04' in judge:
                oracle_roundtrip(ck, ses, case, doc, strict)


def oracle_roundtrip(ck, ses, case, doc, strict):
    """C04 on the real code: decode(encode(v)) == v and encode(decode(encode(v))) == encode(v), through
    both entry-point pairs."""
    label, ir, irt, validator, obj, stored = case
    for via_string in (False, True):
        dec = outcome(lambda: _raw_decode(validator, doc, strict, via_string))
        why = None
        if dec[0] != 'ok':
            why = 'decode of own encoding fails (%s)' % dec[0]
        else:
            back = dec[1]
            try:
                eq = (back == obj)
            except Exception as e:  # noqa: BLE001
                eq = False
                why = '== raised %s' % type(e).__name__
            if not eq and why is None:
                why = 'decoded value differs from the original'
            if why is None:
                re_enc = ses.real_encode(validator, back, via_string=via_string)
                if re_enc[0] != 'ok' or canon(re_enc[1]) != canon(doc):
                    why = 're-encoding differs'
        if why:
            sig = {'kind': 'roundtrip', 'why': why.split(' (')[0], 'shape': shape_sig(ses, ir, stored)}
            ck.failing_input('C04 round trip: %s' % why, sig,
                             {'specs': ses.specs, 'type': label, 'value': stored, 'doc': doc, 'strict': strict,
                              'via_string': via_string})
        ck.stat('roundtrip_checked')


def _raw_decode(validator, doc_tagged, strict, via_string):
    from stone.backends.python_rsrc import stone_serializers as ss
    doc = tagged_to_json(doc_tagged)
    if via_string:
        return ss.json_decode(validator, json.dumps(doc), strict=strict)
    return ss.json_compat_obj_decode(validator, doc, strict=strict)


def shape_sig(ses, ir, stored):
    """A coarse description of where a failure sits, for matching known findings."""
    from stone.ir import Nullable, Struct, Union, unwrap
    dt, _n, _a = unwrap(ir)
    if stored[0] == 'U':
        u = ses.built.ir_by_ref.get(stored[1])
        tag = stored[2]
        f = next((f for f in u.all_fields if f.name == tag), None) if u is not None else None
        if f is not None:
            inner, nullable, _ = unwrap(f.data_type)
            if nullable and isinstance(inner, Struct) and not inner.has_enumerated_subtypes() and \
                    not inner.all_required_fields and stored[3][0] == 'S' and not stored[3][2]:
                return 'nullable-all-optional-struct-member-empty'
    return type(dt).__name__


# ==================================================================================================
# C08: validators, assignment, union construction, primitive decode
# ==================================================================================================
def prim_grid():
    """Every primitive type x parameter combinations at the type's extremes (fixed, seed independent)."""
    from stone.ir import (Boolean, Bytes, Float32, Float64, Int32, Int64, List, Map, Nullable, String, Timestamp,
                          UInt32, UInt64, Void)
    out = []
    for cls in (Int32, UInt32, Int64, UInt64):
        lo, hi = cls.minimum, cls.maximum
        for mn, mx in [(None, None), (lo, hi), (lo, None), (None, hi), (0, 0), (max(lo, -5), 5), (hi, hi), (lo, lo), (1, 10)]:
            out.append(cls(min_value=mn, max_value=mx))
    for cls in (Float32, Float64):
        for mn, mx in [(None, None), (-1.5, 2.5), (0, None), (None, 0), (1e30, 1e31), (-3.40282e38, 3.40282e38), (2, 2)]:
            out.append(cls(min_value=mn, max_value=mx))
    for mn, mx, pat in [(None, None, None), (0, 1, None), (2, 2, None), (None, 3, None), (1, None, None), (None, None, '[a-z]{2,4}'),
                        (3, 5, '[a-z]+'), (None, None, 'ab|abXY'), (None, None, '^ab$'), (None, None, 'a.c'), (None, None, '')]:
        out.append(String(min_length=mn, max_length=mx, pattern=pat))
    out += [Boolean(), Bytes(), Void(), Timestamp('%Y-%m-%dT%H:%M:%SZ'), Timestamp('%Y-%m-%d'), Timestamp('%H:%M')]
    out += [List(Int32()), List(Int32(), min_items=1, max_items=2), List(String(max_length=2), max_items=1),
            List(Float64()), List(List(UInt32(), max_items=1)), List(Nullable(Boolean())),
            Map(String(), Int32()), Map(String(min_length=1), List(Float32())), Nullable(Int64()), Nullable(List(String())),
            Nullable(Map(String(), Nullable(Float64())))]
    return out


def grid_values(gen, t):
    """bound-1 / bound / bound+1 and wrong Python types for one grid type."""
    from harness.values import invalidate
    vals = []
    for _ in range(4):
        v = gen.valid(t)
        if v is not None:
            vals.append(v)
    base = vals[0] if vals else ['n']
    vals += invalidate(gen, t, base)
    vals += [['n'], ['b', True], ['i', 0], ['i', -1], ['i', 2 ** 31 - 1], ['i', 2 ** 31], ['i', -2 ** 31], ['i', -2 ** 31 - 1],
             ['i', 2 ** 32 - 1], ['i', 2 ** 32], ['i', 2 ** 63 - 1], ['i', 2 ** 63], ['i', -2 ** 63], ['i', -2 ** 63 - 1],
             ['i', 2 ** 64 - 1], ['i', 2 ** 64], ['f', values.fbits(0.0)], ['f', values.fbits(-0.0)], ['f', values.fbits(2.5)],
             ['f', values.fbits(3.40282e38)], ['f', values.fbits(3.4028235e38)], ['f', values.fbits(1e39)], ['f', values.fbits(-3.40282e38)],
             ['s', ''], ['s', 'ab'], ['s', 'abc'], ['s', 'abXY'], ['s', 'a\nc'], ['s', 'ab\n'], ['y', ''], ['y', '00'],
             ['l', []], ['u', []], ['d', []], ['o', 'set'], ['l', [['i', 1]]], ['l', [['i', 1], ['i', 2], ['i', 3]]],
             ['d', [[['s', ''], ['i', 1]]]], ['d', [[['s', 'k'], ['l', [['i', 1]]]]]]]
    seen, out = set(), []
    for v in vals:
        key = json.dumps(v)
        if key not in seen:
            seen.add(key)
            out.append(v)
    return out


class _DummyNs:
    name = '__none__'


def suite_prim_grid(ck, judge=True):
    """rt.val on the fixed grid + top-level decode of primitives; oracle = reference predicate."""
    from stone.backends.python_types import generate_validator_constructor
    from stone.backends.python_rsrc import stone_validators as bv
    from harness.values import sat_ir, normalise
    ts = values.TsRegistry()
    gen = values.ValueGen(ck.rng, None, ts)
    codec = values.Codec(None, ts)
    env = {'structs': [], 'unions': []}
    ops, meta, items, types = [], [], [], []
    for t in prim_grid():
        irt = irdump.ir_ty(t)
        validator = eval(generate_validator_constructor(_DummyNs, t), {'bv': bv})  # noqa: S307
        types.append(irt)
        for v in grid_values(gen, t):
            ops.append({'op': 'rt.val', 'ty': irt, 'v': v})
            meta.append((t, irt, validator, v))
            items.append(v)
    ext = values.ext_tables(env, items, ts, types)
    rep = ck.driver([{'op': 'rt.ctx', 'env': env, 'ext': ext}] + ops)[1:]
    for (t, irt, validator, v), r in zip(meta, rep):
        pv = codec.to_py(v)
        real = outcome(lambda: codec.to_tagged(validator.validate(pv)))
        mo = model_outcome(r)
        ck.case(('val', json.dumps(irt), json.dumps(v)), nontrivial=True)
        ck.hist('rt.val.type', irt[0])
        ck.hist('rt.val.outcome', real[0])
        if same(real, mo):
            ck.agree('rt.val')
        else:
            ck.disagree('rt.val', {'ty': irt, 'v': v}, list(real), list(mo))
        if judge:
            expect = sat_ir({}, t, v)
            bad = None
            if real[0] == 'crash':
                bad = 'refusal is not the validation error (%s)' % real[1]
            elif expect is True and real[0] != 'ok':
                bad = 'value satisfying the declared type is refused'
            elif expect is False and real[0] == 'ok':
                bad = 'value violating the declared type is accepted'
            elif expect is True and canon(real[1]) != canon(normalise(t, v)):
                bad = 'accepted value is not returned equal (up to the documented normalisations)'
            if bad:
                ck.failing_input('C08 validate: ' + bad, {'kind': 'validate', 'why': bad.split(' (')[0], 'type': irt[0]},
                                 {'ty': irt, 'value': v, 'real': list(real)})
        if len(ck.samples) < 3:
            ck.sample({'ty': irt, 'value': v, 'real': list(real)})


def suite_assign(ck, sessions, n_values, judge=True):
    """setattr / getattr / del on generated struct instances, union constructors: real vs model,
    and (judge) real vs the reference predicate."""
    from stone.ir import Struct, Union, Nullable, Void
    from harness.values import sat_ir, normalise, invalidate
    for ses in sessions:
        api_index = ses.built.ir_by_ref
        ops, meta, items = [], [], []
        for ref, dt in ses.built.ir_by_ref.items():
            if isinstance(dt, Struct):
                for c in irdump.chain(dt):
                    for f in c.fields:
                        vals = []
                        for _ in range(n_values):
                            v = ses.gen.valid(f.data_type)
                            if v is not None:
                                vals.append(v)
                        if vals:
                            vals += invalidate(ses.gen, f.data_type, vals[0])[:n_values + 2]
                        vals.append(ses.gen.junk())
                        for v in vals:
                            ops.append({'op': 'rt.set', 'obj': ['S', ref, []], 'field': f.name, 'v': v})
                            meta.append(('set', ref, dt, f, v))
                            items.append(v)
            elif isinstance(dt, Union):
                for f in dt.all_fields:
                    vals = []
                    for _ in range(n_values):
                        v = ses.gen.valid(f.data_type)
                        if v is not None:
                            vals.append(v)
                    if vals and not isinstance(f.data_type, Void):
                        vals += invalidate(ses.gen, f.data_type, vals[0])[:n_values + 1]
                    vals.append(ses.gen.junk())
                    for v in vals:
                        ops.append({'op': 'rt.mkunion', 'cls': ref, 'tag': f.name, 'v': v})
                        meta.append(('mk', ref, dt, f, v))
                        items.append(v)
                ops.append({'op': 'rt.mkunion', 'cls': ref, 'tag': 'no_such_tag', 'v': ['n']})
                meta.append(('mk', ref, dt, None, ['n']))
        reps = ses.run(ops, items)
        for (kind, ref, dt, f, v), r in zip(meta, reps):
            cls = ses.built.cls_by_ref[ref]
            mo = model_outcome(r)
            if kind == 'set':
                def do():
                    obj = cls()
                    setattr(obj, f.name, ses.codec.build_checked(v) if v[0] in 'SU' else ses.codec.to_py(v))
                    return ['u', [ses.codec.to_tagged(obj), ses.codec.to_tagged(getattr(obj, f.name))]]
                real = outcome(do)
                suite = 'rt.set'
            else:
                tag = f.name if f is not None else 'no_such_tag'
                real = outcome(lambda: ses.codec.to_tagged(cls(tag, ses.codec.to_py(v))))
                suite = 'rt.mkunion'
            ck.case((kind, ref, f.name if f else None, json.dumps(v)), nontrivial=True)
            ck.hist(suite + '.outcome', real[0])
            if same(real, mo):
                ck.agree(suite)
            else:
                ck.disagree(suite, {'cls': ref, 'member': f.name if f else None, 'v': v}, list(real), list(mo))
            if not judge:
                continue
            bad = None
            if f is None:
                if real[0] != 'verr':
                    bad = 'unknown tag is not refused by the validation error (%s)' % real[0]
            else:
                expect = sat_ir(api_index, f.data_type, v)
                if real[0] == 'crash':
                    bad = 'refusal is not the validation error (%s)' % real[1]
                elif expect is True and real[0] != 'ok':
                    bad = 'value satisfying the declared type is refused'
                elif expect is False and real[0] == 'ok':
                    bad = 'value violating the declared type is accepted'
                elif expect is True and kind == 'set':
                    want = normalise(f.data_type, v)
                    got = real[1][1][1]
                    if canon(got) != canon(want) and not (isinstance(f.data_type, Nullable) and v[0] == 'n'):
                        bad = 'assigned value does not read back equal (up to the documented normalisations)'
            if bad:
                ck.failing_input('C08 %s: %s' % ('assignment' if kind == 'set' else 'union construction', bad),
                                 {'kind': kind, 'why': bad.split(' (')[0]},
                                 {'specs': ses.specs, 'cls': ref, 'member': f.name if f else None, 'value': v, 'real': list(real)})
