"""decl.stub.* correspondence suites and the direct oracle of C15 (type stubs describe exactly what the modules define).

For every spec: compile, run python_types (imported in-process) and python_type_stubs into scratch directories, then

(a) correspondence  - `ast.parse` of every `.pyi` reduced to data (classes with base / `__init__` parameters / annotated members;
    module-level names; imports) against `stubNs` of the Lean model for the same API description; the introspected runtime
    module reduced the same way against `rtNs`; the well-formedness predicates the theorems assume, evaluated by the model on
    the description (`chainsOK`, `directCovered`; `refsCovered` is recorded: it is exactly the hypothesis the real code can
    violate; `aliasNamesStable` is recorded too, it stopped being a hypothesis when D20 was repaired);
(b) direct oracle   - independent of the model: judged names (classes of structs and unions, validators, alias names, route
    objects) of stub vs runtime per namespace; members with inheritance resolved on both sides; bases; constructor parameter
    names; every annotation against an independent Stone-type -> PEP 484 mapping computed from the IR; every name used in an
    annotation resolves to an import or a definition of the same stub (and attribute references into other modules exist).

Inputs: hand seeds, sparse namespaces (see the section of that name: each typing / datetime import is needed by exactly one
emission site of the namespace, so a site that loses its registration is not hidden by its neighbours), generated specs.

Not judged (recorded): type variables `T`/`U`, `ROUTES`, annotation-type classes and their base, unused imports (an import the
stub does not need is not a failure; a needed one that is missing is), private members, text layout.
"""
import ast
import builtins
import datetime as _datetime
import importlib
import inspect
import json
import os
import shutil
import sys
import typing

from harness import core, pygen

PRESETS = ('rt', 'py_safe', 'routes')
PRIM_INT = ('Int32', 'Int64', 'UInt32', 'UInt64')
PRIM_FLOAT = ('Float32', 'Float64')


# ------------------------------------------------------------------------------------------------------------------
# hand-written seeds (always run first)

SEEDS = {
    # D20 (repaired: both sides say As_validator) and D39 (repaired: both sides bind HttpUnion = Un): alias names that
    # fmt_class changes, used as field / tag types and as alias targets
    'alias-not-fmt-class-fixed': [
        ('seed_d20.stone', 'namespace seed_d20\n\nalias AS = String\nalias HTTPCode = Int32\nalias Plain = String\n'
                           'struct Holder\n    p Plain\n    q AS\n    r HTTPCode?\n'
                           'union Un\n    a\n    b Holder\n    c HTTPHolder?\n'
                           'alias HTTPUnion = Un\nalias HTTPHolder = Holder\nalias Second = HTTPUnion\n'
                           'struct User2\n    u HTTPUnion\n    s Second?\n'),
    ],
    # a namespace module needed only through the target of a foreign alias
    'foreign-alias-chain': [
        ('a.stone', 'namespace a\nimport b\nstruct S\n    x b.Al\n    y b.Bl?\nunion V\n    t b.Al\n'),
        ('b.stone', 'namespace b\nimport c\nalias Al = c.Foo\nalias Bl = List(c.Foo)\n'),
        ('c.stone', 'namespace c\nstruct Foo\n    z String\n'),
    ],
    # a namespace module needed only through an inherited field of a foreign parent
    'foreign-inherited-field': [
        ('a.stone', 'namespace a\nimport b\nstruct Child extends b.Base\n    y String\n'),
        ('b.stone', 'namespace b\nimport c\nstruct Base\n    x c.Foo\n    w Foo2\nstruct Foo2\n    q Int32\n'),
        ('c.stone', 'namespace c\nstruct Foo\n    z String\n'),
    ],
    # one of everything
    'kitchen-sink': [
        ('common.stone',
         'namespace common\n\n'
         'alias Id = String(min_length=1)\nalias Ids = List(Id)\nalias When = Timestamp("%Y-%m-%d")\n'
         'annotation_type Importance\n    level Int32 = 3\n    note String?\n\n'
         'struct Base\n    union\n        file FileLike\n        dir DirLike\n'
         '    id Id\n    created When?\n    size UInt64 = 0\n\n'
         'struct FileLike extends Base\n    blob Bytes\n    tags Map(String, List(Float64))\n    ok Boolean = true\n\n'
         'struct DirLike extends Base\n    children Ids\n\n'
         'struct Plain\n    p Int32\n    q String?\n    r Float64 = 1.5\n\n'
         'union Mode\n    plain\n    fancy Base\n    maybe Id?\n    many List(Mode)\n\n'
         'union_closed Strict\n    a\n    b Int64\n\n'
         'alias BaseAlias = Base\nalias BaseAlias2 = BaseAlias\n'),
        ('files.stone',
         'namespace files\nimport common\n\n'
         'struct Arg extends common.Plain\n    mode common.Mode\n    other common.BaseAlias?\n    w common.When\n\n'
         'union More extends common.Mode\n    extra Arg\n    nothing\n\n'
         'alias Far = common.FileLike\n\n'
         'route get(Arg, common.Base, More)\nroute get:2(Arg, Void, Void)\nroute list_all(Void, common.Ids, Void)\n'),
    ],
    # both generators refuse the namespace (check_route_name_conflict): nothing to compare, the model refuses too
    'route-name-conflict': [
        ('r.stone', 'namespace r\nroute get_v2(Void, Void, Void)\nroute get:2(Void, Void, Void)\nroute get(Void, Void, Void)\n'),
    ],
    # reserved words and names that need formatting
    'reserved-and-formatted': [
        ('while.stone',
         'namespace while\n\nstruct getFile_info\n    klass String\n    fore Int32?\n    camelCase Boolean = false\n'
         '    HTTPStatus UInt32\n\nunion U2\n    plain_tag\n    continue String\n    camelTag getFile_info\n\n'
         'route do/thing(getFile_info, U2, Void)\n'),
    ],
}


# ------------------------------------------------------------------------------------------------------------------
# API description -> protocol JSON

def dump_ty(t):
    from stone import ir
    if isinstance(t, ir.Nullable):
        return ['Nullable', dump_ty(t.data_type)]
    if isinstance(t, ir.Alias):
        return ['Alias', t.namespace.name, t.name, dump_ty(t.data_type)]
    if isinstance(t, ir.List):
        return ['List', dump_ty(t.data_type)]
    if isinstance(t, ir.Map):
        return ['Map', dump_ty(t.key_data_type), dump_ty(t.value_data_type)]
    if isinstance(t, (ir.Struct, ir.Union)):
        return ['User', t.namespace.name, t.name]
    name = type(t).__name__
    if name in PRIM_INT:
        return ['Int']
    if name in PRIM_FLOAT:
        return ['Float']
    if name in ('String', 'Bytes', 'Boolean', 'Void', 'Timestamp'):
        return [name]
    raise TypeError('unhandled IR type %r' % (t,))


def dump_field(f):
    return {'name': f.name, 'ty': dump_ty(f.data_type), 'has_default': bool(getattr(f, 'has_default', False))}


def dump_api(api):
    from stone import ir
    out = []
    for ns in api.namespaces.values():
        types = []
        for dt in ns.linearize_data_types():
            types.append({'kind': 'struct' if isinstance(dt, ir.Struct) else 'union', 'name': dt.name,
                          'parent': [dt.parent_type.namespace.name, dt.parent_type.name] if dt.parent_type else None,
                          'fields': [dump_field(f) for f in dt.fields]})
        out.append({
            'name': ns.name,
            'imports': [n.name for n in ns.get_imported_namespaces(consider_annotation_types=True)],
            'annotation_types': [{'name': a.name, 'params': [dump_field(p) for p in a.params]}
                                 for a in ns.annotation_types],
            'types': types,
            'aliases': [{'name': a.name, 'ty': dump_ty(a.data_type)} for a in ns.linearize_aliases()],
            'routes': [{'name': r.name, 'version': r.version} for r in ns.routes],
            'ts_route_attr': any(isinstance(v, _datetime.datetime) for r in ns.routes for v in r.attrs.values()),
        })
    return {'namespaces': out}


# ------------------------------------------------------------------------------------------------------------------
# .pyi -> data (shape of the model's reply)

def expr_json(e):
    if isinstance(e, ast.Name):
        return ['name', e.id]
    if isinstance(e, ast.Attribute):
        return ['attr', expr_json(e.value), e.attr]
    if isinstance(e, ast.Subscript):
        sl = e.slice
        if isinstance(sl, ast.Tuple) and len(sl.elts) == 2:
            return ['sub', expr_json(e.value), ['tup', expr_json(sl.elts[0]), expr_json(sl.elts[1])]]
        return ['sub', expr_json(e.value), expr_json(sl)]
    if isinstance(e, ast.List) and len(e.elts) == 2:
        return ['lst', expr_json(e.elts[0]), expr_json(e.elts[1])]
    if isinstance(e, ast.Constant) and e.value is None:
        return ['none']
    if e is None:
        return ['none']
    return ['other', ast.dump(e)]


def _is_ellipsis(v):
    return isinstance(v, ast.Constant) and v.value is Ellipsis


class StubModule:
    """One parsed `.pyi`."""

    def __init__(self, modname, text, pkg):
        self.modname = modname
        self.text = text
        self.pkg = pkg
        self.tree = ast.parse(text, modname + '.pyi')      # SyntaxError = the stub is not valid Python
        self.imports = []            # protocol form
        self.items = []              # protocol form
        self.classes = {}            # name -> class dict
        self.bound = {}              # module-level name -> ('typing', n) | ('module', dotted) | ('ns', mod) | ('lib', as) | ('def', kind)
        self.annotations = []        # (where, ast expr) of every annotation in the file
        self.unknown = []            # statements outside the shapes the reduction knows
        self._reduce()

    def _reduce(self):
        for st in self.tree.body:
            if isinstance(st, ast.ImportFrom) and st.module == 'typing' and st.level == 0:
                names = [a.asname or a.name for a in st.names]
                self.imports.append(['typing', names])
                for a in st.names:
                    self.bound[a.asname or a.name] = ('typing', a.name)
            elif isinstance(st, ast.Import):
                self.imports.append(['adhoc', ast.unparse(st)])
                for a in st.names:
                    self.bound[a.asname or a.name.split('.')[0]] = ('module', a.name if a.asname else a.name.split('.')[0])
            elif isinstance(st, ast.ImportFrom) and st.module == 'stone.backends.python_rsrc' and st.level == 0:
                for a in st.names:
                    self.imports.append(['lib', a.name, a.asname or a.name])
                    self.bound[a.asname or a.name] = ('lib', a.name)
            elif isinstance(st, ast.ImportFrom) and st.module == self.pkg and st.level == 0:
                for a in st.names:
                    self.imports.append(['ns', a.asname or a.name])
                    self.bound[a.asname or a.name] = ('ns', a.name)
            elif isinstance(st, ast.Assign) and len(st.targets) == 1 and isinstance(st.targets[0], ast.Name):
                n = st.targets[0].id
                if isinstance(st.value, ast.Call) and isinstance(st.value.func, ast.Name) and st.value.func.id == 'TypeVar':
                    self.items.append(['typeVar', n])
                    self.bound[n] = ('def', 'typevar')
                elif isinstance(st.value, (ast.Name, ast.Attribute)):
                    self.items.append(['aliasName', n, expr_json(st.value)])
                    self.bound[n] = ('def', 'alias')
                else:
                    self.unknown.append(ast.unparse(st)[:80])
                    self.bound[n] = ('def', 'other')
            elif isinstance(st, ast.AnnAssign) and isinstance(st.target, ast.Name):
                n = st.target.id
                ann = expr_json(st.annotation)
                self.annotations.append(('module %s' % n, st.annotation))
                if ann == ['attr', ['name', 'bv'], 'Validator']:
                    self.items.append(['validator', n, ann])
                    self.bound[n] = ('def', 'validator')
                elif ann == ['attr', ['name', 'bb'], 'Route']:
                    self.items.append(['route', n, ann])
                    self.bound[n] = ('def', 'route')
                else:
                    self.items.append(['other', n])
                    self.bound[n] = ('def', 'other')
                    self.unknown.append(ast.unparse(st)[:80])
            elif isinstance(st, ast.ClassDef):
                c = self._reduce_class(st)
                self.classes[st.name] = c
                self.items.append(['cls', c])
                self.bound[st.name] = ('def', 'class')
            elif isinstance(st, ast.Expr) and isinstance(st.value, ast.Constant):
                pass
            else:
                self.unknown.append(ast.unparse(st)[:80])

    def _reduce_class(self, st):
        base = expr_json(st.bases[0]) if len(st.bases) == 1 else ['other', 'bases=%d' % len(st.bases)]
        init = None
        members = []
        for b in st.body:
            if isinstance(b, ast.FunctionDef):
                decos = [d.id for d in b.decorator_list if isinstance(d, ast.Name)]
                args = b.args.args[1:] if b.args.args else []
                params = [[a.arg, expr_json(a.annotation)] for a in args]
                for a in args:
                    if a.annotation is not None:
                        self.annotations.append(('%s.%s(%s)' % (st.name, b.name, a.arg), a.annotation))
                if b.returns is not None:
                    self.annotations.append(('%s.%s -> ' % (st.name, b.name), b.returns))
                if b.name == '__init__':
                    init = params
                    continue
                kind = 'classmethod' if 'classmethod' in decos else 'property' if 'property' in decos else 'method'
                members.append({'kind': kind, 'name': b.name, 'ann': expr_json(b.returns), 'params': params})
            elif isinstance(b, ast.AnnAssign) and isinstance(b.target, ast.Name):
                self.annotations.append(('%s.%s' % (st.name, b.target.id), b.annotation))
                members.append({'kind': 'attr', 'name': b.target.id, 'ann': expr_json(b.annotation), 'params': []})
            elif isinstance(b, ast.Pass) or (isinstance(b, ast.Expr) and isinstance(b.value, ast.Constant)):
                pass
            else:
                self.unknown.append('%s: %s' % (st.name, ast.unparse(b)[:80]))
        return {'kind': None, 'name': st.name, 'base': base, 'init': init, 'members': members}


class StubSet:
    """All stubs of one API: resolution of base classes across modules."""

    def __init__(self, mods):
        self.mods = mods      # module name -> StubModule

    def resolve_class(self, mod, expr):
        """('lib', 'bb', 'Struct') | ('class', module, name) | ('builtin', 'object') | None (unresolvable)"""
        m = self.mods[mod]
        if expr[0] == 'name':
            if expr[1] in m.classes:
                return ('class', mod, expr[1])
            b = m.bound.get(expr[1])
            if b == ('def', 'alias'):
                for it in m.items:
                    if it[0] == 'aliasName' and it[1] == expr[1]:
                        return self.resolve_class(mod, it[2])
            if b is None and expr[1] == 'object':
                return ('builtin', 'object')
            return None
        if expr[0] == 'attr' and expr[1][0] == 'name':
            b = m.bound.get(expr[1][1])
            if b and b[0] == 'lib':
                return ('lib', expr[1][1], expr[2])
            if b and b[0] == 'ns' and b[1] in self.mods:
                return self.resolve_class(b[1], ['name', expr[2]])
            return None
        return None

    def chain(self, mod, name):
        """[(module, class dict)] from the class up to (excluding) the library / builtin root; root descriptor"""
        out = []
        cur = ('class', mod, name)
        seen = set()
        while cur and cur[0] == 'class' and cur not in seen:
            seen.add(cur)
            c = self.mods[cur[1]].classes[cur[2]]
            out.append((cur[1], c))
            cur = self.resolve_class(cur[1], c['base'])
        return out, cur

    def classify(self):
        for mod, m in self.mods.items():
            for name, c in m.classes.items():
                _chain, root = self.chain(mod, name)
                if root == ('lib', 'bb', 'Struct'):
                    c['kind'] = 'struct'
                elif root == ('lib', 'bb', 'Union'):
                    c['kind'] = 'union'
                elif root == ('builtin', 'object'):
                    c['kind'] = 'annotation_type'
                else:
                    c['kind'] = 'unresolved-base'


# ------------------------------------------------------------------------------------------------------------------
# runtime module -> data

def _rt_base_expr(mod, b, bb):
    if b.__module__ == bb.__name__:
        return ['attr', ['name', 'bb'], b.__name__]
    if b is object:
        return ['name', 'object']
    if b.__module__ == mod.__name__:
        return ['name', b.__name__]
    return ['attr', ['name', b.__module__.rsplit('.', 1)[-1]], b.__name__]


def _member_kind(cls, v, bb):
    if isinstance(v, bb.Attribute):
        return 'attr'
    if isinstance(v, classmethod):
        return 'classmethod'
    if isinstance(v, staticmethod):
        return 'staticmethod'
    if isinstance(v, property):
        return 'property'
    if inspect.isfunction(v):
        return 'method'
    if isinstance(v, cls):
        return 'attr'          # the instance a void tag is bound to
    return 'other:' + type(v).__name__


def _own_members(cls, bb, public_only=True):
    out = []
    for n, v in vars(cls).items():
        if n.startswith('_') and (public_only or n not in ('_process_custom_annotations',)):
            continue
        out.append((_member_kind(cls, v, bb), n))
    return out


def _init_params(fn):
    return [p for p in inspect.signature(fn).parameters][1:]


class RuntimeModule:
    def __init__(self, mod, pkg):
        from stone.backends.python_rsrc import stone_base as bb, stone_validators as bv
        self.mod = mod
        self.bb = bb
        self.items = []
        self.imports = []
        self.classes = {}           # name -> class object defined here
        short = mod.__name__.rsplit('.', 1)[-1]
        self.short = short
        for n, v in vars(mod).items():
            if n.startswith('__') and n.endswith('__'):
                continue
            if inspect.ismodule(v):
                if v is bb:
                    self.imports.append(['lib', 'stone_base', n])
                elif v is bv:
                    self.imports.append(['lib', 'stone_validators', n])
                elif v.__name__.startswith(pkg + '.'):
                    self.imports.append(['ns', n])
                elif v is _datetime and n == 'datetime':
                    self.imports.append(['adhoc', 'import datetime'])
                else:
                    self.imports.append(['other', n])
            elif type(v).__name__ == '_Feature':
                self.imports.append(['future', n])
            elif inspect.isclass(v):
                if v.__module__ == mod.__name__ and v.__name__ == n:
                    kind = ('struct' if issubclass(v, bb.Struct) else 'union' if issubclass(v, bb.Union)
                            else 'annotation_type' if issubclass(v, bb.AnnotationType) else 'other')
                    own = vars(v)
                    init = _init_params(own['__init__']) if '__init__' in own else None
                    members = _own_members(v, bb, public_only=False)
                    self.classes[n] = v
                    self.items.append(['cls', {'kind': kind, 'name': n, 'base': _rt_base_expr(mod, v.__bases__[0], bb)
                                               if len(v.__bases__) == 1 else ['other', 'bases'],
                                               'init': init, 'members': sorted(members)}])
                else:
                    self.items.append(['aliasName', n])
            elif isinstance(v, bv.Validator):
                self.items.append(['validator', n])
            elif isinstance(v, bb.Route):
                self.items.append(['route', n])
            else:
                self.items.append(['other', n])

    def resolved_members(self, cls):
        out = set()
        for k in cls.__mro__:
            if k.__module__ == self.bb.__name__ or k is object:
                continue
            out.update(_own_members(k, self.bb))
        return out

    def resolved_ctor(self, cls):
        for k in cls.__mro__:
            if '__init__' in vars(k):
                if k.__module__ == self.bb.__name__ or k is object:
                    return None
                return _init_params(vars(k)['__init__'])
        return None

    def base_ref(self, cls):
        b = cls.__bases__[0]
        if b.__module__ == self.bb.__name__:
            return ('lib', 'bb', b.__name__)
        return ('class', b.__module__.rsplit('.', 1)[-1], b.__name__)


# ------------------------------------------------------------------------------------------------------------------
# the independent mapping Stone type -> PEP 484 type (canonical, resolved form)

def pep484(ns, t, class_name):
    """`class_name(ir user type) -> (module, class name)` of the generated runtime class."""
    from stone import ir
    if isinstance(t, ir.Alias):
        return pep484(ns, t.data_type, class_name)
    if isinstance(t, ir.Nullable):
        return ('sub', ('typing', 'Optional'), (pep484(ns, t.data_type, class_name),))
    if isinstance(t, ir.List):
        return ('sub', ('typing', 'List'), (pep484(ns, t.data_type, class_name),))
    if isinstance(t, ir.Map):
        return ('sub', ('typing', 'Dict'), (pep484(ns, t.key_data_type, class_name), pep484(ns, t.value_data_type, class_name)))
    if isinstance(t, (ir.Struct, ir.Union)):
        return ('class',) + tuple(class_name(t))
    n = type(t).__name__
    if n == 'Boolean':
        return ('builtin', 'bool')
    if n in PRIM_INT:
        return ('builtin', 'int')
    if n in PRIM_FLOAT:
        return ('builtin', 'float')
    if n == 'String':
        return ('builtin', 'str')
    if n == 'Bytes':
        return ('builtin', 'bytes')
    if n == 'Timestamp':
        return ('module', 'datetime', 'datetime')
    if n == 'Void':
        return ('none',)
    raise TypeError(t)


def canon_ann(stubs, mod, e):
    """Annotation of stub module `mod` with every name resolved through the stub's own bindings."""
    m = stubs.mods[mod]
    if isinstance(e, ast.Constant) and e.value is None:
        return ('none',)
    if isinstance(e, ast.Name):
        b = m.bound.get(e.id)
        if b is None:
            if hasattr(builtins, e.id):
                return ('builtin', e.id)
            return ('unresolved', e.id)
        if b[0] == 'typing':
            obj = getattr(typing, b[1], None)
            if obj is str:
                return ('builtin', 'str')          # typing.Text
            return ('typing', b[1])
        if b == ('def', 'class'):
            return ('class', mod, e.id)
        if b == ('def', 'alias'):
            r = stubs.resolve_class(mod, ['name', e.id])
            return r if r else ('unresolved', e.id)
        if b == ('def', 'typevar'):
            return ('typevar', e.id)
        return ('bound', b[0], e.id)
    if isinstance(e, ast.Attribute) and isinstance(e.value, ast.Name):
        b = m.bound.get(e.value.id)
        if b is None:
            return ('unresolved', e.value.id)
        if b[0] == 'module':
            return ('module', b[1], e.attr)
        if b[0] == 'lib':
            return ('lib', e.value.id, e.attr)
        if b[0] == 'ns':
            r = stubs.resolve_class(mod, ['attr', ['name', e.value.id], e.attr]) if b[1] in stubs.mods else None
            return r if r else ('unresolved-attr', e.value.id, e.attr)
        return ('bound-attr', b[0], e.value.id, e.attr)
    if isinstance(e, ast.Subscript):
        sl = e.slice
        args = tuple(canon_ann(stubs, mod, x) for x in sl.elts) if isinstance(sl, ast.Tuple) else (canon_ann(stubs, mod, sl),)
        return ('sub', canon_ann(stubs, mod, e.value), args)
    if isinstance(e, ast.List):
        return ('list',) + tuple(canon_ann(stubs, mod, x) for x in e.elts)
    return ('other', ast.dump(e))


def root_names(e):
    """(root name, attribute path) of every Name / Attribute chain in an annotation"""
    out = []

    def walk(x):
        if isinstance(x, ast.Name):
            out.append((x.id, ()))
        elif isinstance(x, ast.Attribute):
            path = []
            cur = x
            while isinstance(cur, ast.Attribute):
                path.append(cur.attr)
                cur = cur.value
            if isinstance(cur, ast.Name):
                out.append((cur.id, tuple(reversed(path))))
            else:
                walk(cur)
        else:
            for c in ast.iter_child_nodes(x):
                walk(c)
    walk(e)
    return out


# ------------------------------------------------------------------------------------------------------------------
# driver access: a private copy of the executable this check built (concurrent `lake build`s of other checks relink the
# shared binary, which makes it disappear for seconds)

_driver_copy = [None]


def model_driver(ck, requests):
    import subprocess
    import time
    if not requests:
        return []
    if _driver_copy[0] is None:
        for _ in range(60):
            if os.path.exists(core.DRIVER):
                break
            time.sleep(2)
        dst = os.path.join(core.scratch('stone-verif-driver-'), 'driver')
        shutil.copy2(core.DRIVER, dst)
        _driver_copy[0] = dst
    data = '\n'.join(json.dumps(r, ensure_ascii=True) for r in requests) + '\n'
    p = subprocess.run([_driver_copy[0]], input=data, capture_output=True, text=True)
    lines = p.stdout.splitlines()
    if p.returncode != 0 or len(lines) != len(requests):
        raise RuntimeError('driver failed (%d), %d lines for %d requests: %s' % (
            p.returncode, len(lines), len(requests), p.stderr[-800:]))
    return [json.loads(l) for l in lines]


# ------------------------------------------------------------------------------------------------------------------
# one spec

class Case:
    def __init__(self, ck, specs, label):
        self.ck = ck
        self.specs = [tuple(s) for s in specs]
        self.label = label
        self.problems = []          # (what, signature, detail)

    def case_dict(self, **extra):
        d = {'suite': 'decl.stub', 'label': self.label, 'specs': [list(s) for s in self.specs]}
        d.update(extra)
        return d

    def fail(self, what, sig, **detail):
        self.problems.append((what, sig, detail))


def _canon_model_class(c):
    return {'kind': c['kind'], 'name': c['name'], 'base': c['base'], 'init': c['init'],
            'members': sorted((json.dumps(m, sort_keys=True) for m in c['members']))}


def _canon_items(items, with_members=True):
    out = []
    for it in items:
        if it[0] == 'cls':
            out.append(json.dumps(['cls', _canon_model_class(it[1])], sort_keys=True))
        else:
            out.append(json.dumps(it, sort_keys=True))
    return sorted(out)


def _import_sets(imps):
    typing_names, rest = set(), set()
    for i in imps:
        if i[0] == 'typing':
            typing_names.update(i[1])
        else:
            rest.add(json.dumps(i))
    return typing_names, rest


def run_cases(ck, batch, judge=True):
    """batch: [(specs, label)]. One driver call for the whole batch (the driver's start-up dominates a single request).
    Returns [Case | None]: None when the spec is outside the domain (rejected by the compiler: C01 territory)."""
    prepared = []
    requests = []
    for specs, label in batch:
        case = Case(ck, specs, label)
        try:
            api = pygen.compile_specs(case.specs)
        except Exception as e:  # noqa: BLE001
            ck.stat('skipped.compile:' + type(e).__name__)
            prepared.append(None)
            continue
        desc = dump_api(api)
        first = len(requests)
        requests.extend({'op': 'decl.stub.ns', 'api': desc, 'ns': n} for n in api.namespaces)
        prepared.append((case, api, first))
    replies = model_driver(ck, requests)
    out = []
    for p in prepared:
        if p is None:
            out.append(None)
            continue
        case, api, first = p
        ns_names = list(api.namespaces)
        model = dict(zip(ns_names, replies[first:first + len(ns_names)]))
        _run_real(ck, case, api, model, judge)
        out.append(case)
    return out


def run_case(ck, specs, label, judge=True):
    return run_cases(ck, [(specs, label)], judge)[0]


def _exc_name(e):
    """class name of what the backend raised (stone.compiler wraps it in BackendException with the traceback text)"""
    tb = getattr(e, 'traceback', None)
    if type(e).__name__ == 'BackendException' and isinstance(tb, str) and tb.strip():
        last = tb.strip().splitlines()[-1]
        head = last.split(':', 1)[0].strip()
        if head and all(part.isidentifier() for part in head.split('.')):
            return head.rsplit('.', 1)[-1]
    return type(e).__name__


def _run_real(ck, case, api, model, judge):
    built = None
    rt_error = None
    pkg = None
    try:
        built = pygen.build_python(case.specs, api=api)
        pkg = built.pkg
    except Exception as e:  # noqa: BLE001
        rt_error = _exc_name(e)
        ck.stat('runtime.unavailable:' + rt_error)
    if pkg is None:
        pkg = 'svstub%d' % os.getpid()
    out = core.scratch('stone-verif-stub-')
    stub_error = None
    try:
        pygen.generate(api, 'python_type_stubs', ['--package', pkg], out)
    except Exception as e:  # noqa: BLE001
        stub_error = _exc_name(e)
    from stone.backends.python_helpers import fmt_namespace
    try:
        _judge(ck, case, api, built, rt_error, out, stub_error, model, fmt_namespace, pkg, judge)
    finally:
        shutil.rmtree(out, ignore_errors=True)
        if built is not None:
            for k in [k for k in sys.modules if k == built.pkg or k.startswith(built.pkg + '.')]:
                del sys.modules[k]
            shutil.rmtree(built.root, ignore_errors=True)


def _judge(ck, case, api, built, rt_error, out, stub_error, model, fmt_namespace, pkg, judge):
    ns_names = list(api.namespaces)
    for n in ns_names:
        if 'protocol_error' in model[n]:
            ck.disagree('decl.stub.protocol', case.case_dict(ns=n), 'request', model[n])
            return
    # ---- generation outcome ---------------------------------------------------------------------------
    model_errs = [n for n in ns_names if 'error' in model[n]['stub']]
    if stub_error is not None:
        if model_errs and stub_error == 'RuntimeError':
            ck.agree('decl.stub.gen-error')
            ck.stat('not-judged.route-name-conflict')
            return
        ck.disagree('decl.stub.gen-error', case.case_dict(), stub_error, 'model generates')
        if judge and rt_error is None:
            case.fail('python_type_stubs raises %s where python_types generates an importable package' % stub_error,
                      {'check': 'stub-generation', 'exception': stub_error}, exception=stub_error)
        return
    if model_errs:
        ck.disagree('decl.stub.gen-error', case.case_dict(), 'generated', {n: model[n]['stub'] for n in model_errs})
        return
    # ---- parse ----------------------------------------------------------------------------------------
    mods = {}
    for n in ns_names:
        fn = fmt_namespace(n)
        path = os.path.join(out, fn + '.pyi')
        if not os.path.exists(path):
            ck.disagree('decl.stub.file', case.case_dict(ns=n), sorted(os.listdir(out)), model[n]['stub'].get('file'))
            if judge:
                case.fail('no stub file for namespace %s' % n, {'check': 'stub-file-missing'}, ns=n)
            continue
        text = open(path, encoding='utf-8').read()
        try:
            mods[fn] = StubModule(fn, text, pkg)
        except SyntaxError as e:
            ck.stat('stub.syntax-error')
            if judge:
                case.fail('the stub of namespace %s is not valid Python: %s' % (n, e.msg),
                          {'check': 'stub-syntax'}, ns=n, line=e.lineno, text=(e.text or '')[:200])
            continue
        if model[n]['stub'].get('file') == fn + '.pyi':
            ck.agree('decl.stub.file')
        else:
            ck.disagree('decl.stub.file', case.case_dict(ns=n), fn + '.pyi', model[n]['stub'].get('file'))
    if len(mods) != len(ns_names):
        return
    stubs = StubSet(mods)
    stubs.classify()

    # ---- (a) correspondence: parsed stub vs stubNs --------------------------------------------------
    for n in ns_names:
        fn = fmt_namespace(n)
        m = mods[fn]
        rep = model[n]
        ms = rep['stub']
        ck.case(('stub', case.label, n), nontrivial=bool(m.classes))
        real_items = _canon_items(m.items)
        model_items = _canon_items(ms['items'])
        if real_items == model_items and not m.unknown:
            ck.agree('decl.stub.items')
        else:
            diff = {'real-only': [x for x in real_items if x not in model_items][:4],
                    'model-only': [x for x in model_items if x not in real_items][:4], 'unknown': m.unknown[:4]}
            ck.disagree('decl.stub.items', case.case_dict(ns=n), diff['real-only'] + m.unknown[:4], diff['model-only'])
        # constructor parameter ORDER (members are compared as sets above, parameters in order inside `init`)
        rt_typing, rt_rest = _import_sets(m.imports)
        mo_typing, mo_rest = _import_sets(ms['imports'])
        extra_rest = rt_rest - mo_rest
        if rt_rest >= mo_rest and rt_typing >= mo_typing and all(json.loads(x)[0] == 'adhoc' for x in extra_rest):
            # imports the stub does not need (typing names, registered statements) are recorded, not judged
            ck.agree('decl.stub.imports')
            if rt_typing != mo_typing or extra_rest:
                ck.stat('imports.unneeded-extra', len(rt_typing - mo_typing) + len(extra_rest))
        else:
            ck.disagree('decl.stub.imports', case.case_dict(ns=n), sorted(rt_typing) + sorted(rt_rest),
                        sorted(mo_typing) + sorted(mo_rest))
        wf = rep['wf']
        for key in ('chains', 'direct', 'own'):
            if wf[key]:
                ck.agree('decl.stub.wf-' + key)
            else:
                ck.disagree('decl.stub.wf-' + key, case.case_dict(ns=n), 'accepted by the compiler', wf)
        ck.hist('hypothesis.refsCovered', wf['refs'])
        ck.hist('hypothesis.aliasNamesStable', wf['alias_stable'])
        # what the theorems conclude, evaluated by the model on this description
        if wf['own'] and not rep['closed']:
            ck.disagree('decl.stub.theorem-instance', case.case_dict(ns=n), 'ownRefsDefined', 'not closed')
        if rep['judged_stub'] != rep['judged_rt']:
            ck.disagree('decl.stub.theorem-instance', case.case_dict(ns=n), rep['judged_stub'], rep['judged_rt'])
        for t in rep['types']:
            if t['text_free'] and not t['norm_eq']:
                ck.disagree('decl.stub.theorem-instance', case.case_dict(ns=n), t['mapped'], t['pep484'])
        for r in rep['resolved']:
            if wf['chains'] and (set(map(tuple, r['stub'])) != set(map(tuple, r['rt'])) or r['stub_ctor'] != r['rt_ctor']):
                ck.disagree('decl.stub.theorem-instance', case.case_dict(ns=n), r['stub'], r['rt'])

    if built is None:
        ck.stat('not-judged.runtime-unavailable')
        return

    # ---- runtime view + correspondence with rtNs ------------------------------------------------------
    rts = {}
    for n in ns_names:
        fn = fmt_namespace(n)
        rts[fn] = RuntimeModule(built.mods[n], built.pkg)
        mr = model[n]['rt']
        real = []
        for it in rts[fn].items:
            if it[0] == 'cls':
                c = it[1]
                real.append(json.dumps(['cls', c['kind'], c['name'], c['base'], c['init'],
                                        sorted(set(map(tuple, c['members'])))], sort_keys=True))
            else:
                real.append(json.dumps(it[:2]))
        mod_ = []
        for it in mr['items']:
            if it[0] == 'cls':
                c = it[1]
                mod_.append(json.dumps(['cls', c['kind'], c['name'], c['base'],
                                        None if c['init'] is None else [p[0] for p in c['init']],
                                        sorted(set((mm['kind'], mm['name']) for mm in c['members']))], sort_keys=True))
            else:
                mod_.append(json.dumps(it[:2]))
        imps_real = sorted(json.dumps(i) for i in rts[fn].imports)
        imps_model = sorted(json.dumps(i) for i in mr['imports'])
        if sorted(real) == sorted(mod_) and imps_real == imps_model:
            ck.agree('decl.stub.rt-items')
        else:
            ck.disagree('decl.stub.rt-items', case.case_dict(ns=n),
                        [x for x in real if x not in mod_][:4] + [x for x in imps_real if x not in imps_model],
                        [x for x in mod_ if x not in real][:4] + [x for x in imps_model if x not in imps_real])

    if not judge:
        return
    _oracle(ck, case, api, built, stubs, rts, fmt_namespace)


# ------------------------------------------------------------------------------------------------------------------
# (b) the direct oracle

J_KINDS = {'cls': 'class', 'validator': 'validator', 'aliasName': 'alias', 'route': 'route'}


def _oracle(ck, case, api, built, stubs, rts, fmt_namespace):
    from stone import ir
    from stone.backends import python_helpers as ph
    assert typing.Text is str
    ns_by_mod = {fmt_namespace(n): ns for n, ns in api.namespaces.items()}

    def class_name(dt):
        cls = built.cls_by_ref['%s.%s' % (dt.namespace.name, dt.name)]
        return (cls.__module__.rsplit('.', 1)[-1], cls.__name__)

    for mod, m in stubs.mods.items():
        ns = ns_by_mod[mod]
        rt = rts[mod]
        ck.case(('oracle', case.label, mod), nontrivial=bool(m.classes or rt.classes))
        # ---- judged module-level names ----------------------------------------------------------------
        js = set()
        for it in m.items:
            if it[0] == 'cls':
                if it[1]['kind'] in ('struct', 'union'):
                    js.add(('class', it[1]['name']))
                else:
                    ck.stat('recorded.stub-class-' + str(it[1]['kind']))
            elif it[0] in J_KINDS:
                js.add((J_KINDS[it[0]], it[1]))
            else:
                ck.stat('recorded.stub-' + it[0])
        jr = set()
        for it in rt.items:
            if it[0] == 'cls':
                if it[1]['kind'] in ('struct', 'union'):
                    jr.add(('class', it[1]['name']))
                else:
                    ck.stat('recorded.runtime-class-' + str(it[1]['kind']))
            elif it[0] in J_KINDS:
                jr.add((J_KINDS[it[0]], it[1]))
            else:
                ck.stat('recorded.runtime-' + it[0])
        ck.hist('judged-names-per-namespace', min(len(jr), 40) // 5 * 5)
        stub_only, rt_only = js - jr, jr - js
        if stub_only or rt_only:
            # D20 (repaired; kept as a distinct signature should it come back): the stub names the validator of an alias
            # after fmt_class(alias.name), the runtime named it after alias.name
            explained = set()
            for a in ns.aliases:
                s_name, r_name = ph.fmt_class(a.name) + '_validator', a.name + '_validator'
                if s_name != r_name and ('validator', s_name) in stub_only and ('validator', r_name) in rt_only:
                    explained.update([('validator', s_name), ('validator', r_name)])
                    case.fail('alias %s.%s: the stub declares %s, the module defines %s' % (ns.name, a.name, s_name, r_name),
                              {'check': 'judged-names', 'kind': 'validator', 'cause': 'alias-name-changed-by-fmt_class'},
                              ns=ns.name, alias=a.name, stub=s_name, runtime=r_name)
            rest_s, rest_r = sorted(stub_only - explained), sorted(rt_only - explained)
            if rest_s or rest_r:
                kinds = sorted({k for k, _ in rest_s + rest_r})
                case.fail('namespace %s: stub-only names %s, runtime-only names %s' % (ns.name, rest_s[:6], rest_r[:6]),
                          {'check': 'judged-names', 'kind': '+'.join(kinds), 'cause': 'other',
                           'side': 'both' if rest_s and rest_r else 'stub-only' if rest_s else 'runtime-only'},
                          ns=ns.name, stub_only=rest_s, runtime_only=rest_r)
        else:
            ck.stat('oracle.names-equal')
        # ---- classes: bases, members with inheritance resolved, constructor parameters -------------------
        for name, cls in rt.classes.items():
            if not issubclass(cls, (rt.bb.Struct, rt.bb.Union)) or name not in m.classes:
                continue
            chain, root = stubs.chain(mod, name)
            sbase = stubs.resolve_class(mod, m.classes[name]['base'])
            rbase = rt.base_ref(cls)
            if sbase != rbase:
                case.fail('class %s.%s: stub base %s, runtime base %s' % (mod, name, sbase, rbase),
                          {'check': 'bases', 'stub_resolves': sbase is not None}, ns=ns.name, cls=name,
                          stub=m.classes[name]['base'], runtime=list(rbase))
            else:
                ck.stat('oracle.base-equal')
            smem = set()
            for _cm, c in chain:
                smem.update((x['kind'], x['name']) for x in c['members'] if not x['name'].startswith('_'))
            rmem = rt.resolved_members(cls)
            if smem != rmem:
                so, ro = sorted(smem - rmem), sorted(rmem - smem)
                kinds = sorted({k for k, _ in so + ro})
                prefixes = sorted({('get_' if n.startswith('get_') else 'is_' if n.startswith('is_') else 'plain') for _, n in so + ro})
                case.fail('class %s.%s: members only in the stub %s, only at runtime %s' % (mod, name, so[:6], ro[:6]),
                          {'check': 'members', 'kinds': '+'.join(kinds), 'names': '+'.join(prefixes),
                           'side': 'both' if so and ro else 'stub-only' if so else 'runtime-only'},
                          ns=ns.name, cls=name, stub_only=so, runtime_only=ro)
            else:
                ck.stat('oracle.members-equal')
                ck.hist('members-per-class', min(len(rmem), 24) // 3 * 3)
            sctor = None
            for _cm, c in chain:
                if c['init'] is not None:
                    sctor = [p[0] for p in c['init']]
                    break
            rctor = rt.resolved_ctor(cls)
            if sctor != rctor:
                same_set = sctor is not None and rctor is not None and sorted(sctor) == sorted(rctor)
                case.fail('class %s.%s: constructor parameters stub %s, runtime %s' % (mod, name, sctor, rctor),
                          {'check': 'ctor-params', 'difference': 'order' if same_set else 'names'},
                          ns=ns.name, cls=name, stub=sctor, runtime=rctor)
            else:
                ck.stat('oracle.ctor-equal')
                ck.hist('ctor-params', 'library' if rctor is None else min(len(rctor), 12))
        # ---- annotations against the independent mapping ------------------------------------------------
        _annotations(ck, case, stubs, mod, m, ns, class_name, ph)
        # ---- every name used in an annotation is imported or defined ------------------------------------
        _closure(ck, case, api, stubs, mod, m, ns, fmt_namespace)


def _expect(ck, case, stubs, mod, where, node, accepted, ns, what):
    got = canon_ann(stubs, mod, node)
    if got in accepted:
        ck.stat('oracle.annotation-ok')
        return
    if 'unresolved' in repr(got):
        ck.stat('oracle.annotation-unresolved (judged by the name check)')
        return
    shape = 'different-type'
    case.fail('%s %s: annotation %s is not the PEP 484 type of the Stone type (%s expected)' % (
        mod, where, ast.unparse(node), ' or '.join(_show(a) for a in accepted)),
        {'check': 'annotation', 'item': what, 'shape': shape}, ns=ns.name, where=where, got=ast.unparse(node),
        expected=[_show(a) for a in accepted])


def _show(c):
    if c[0] == 'sub':
        return '%s[%s]' % (_show(c[1]), ', '.join(_show(a) for a in c[2]))
    if c[0] == 'none':
        return 'None'
    return '.'.join(str(x) for x in c[1:])


def _find_fn(cls_node, name):
    for b in cls_node.body:
        if isinstance(b, ast.FunctionDef) and b.name == name:
            return b
    return None


def _find_attr(cls_node, name):
    for b in cls_node.body:
        if isinstance(b, ast.AnnAssign) and isinstance(b.target, ast.Name) and b.target.id == name:
            return b
    return None


def _annotations(ck, case, stubs, mod, m, ns, class_name, ph):
    from stone import ir
    cls_nodes = {st.name: st for st in m.tree.body if isinstance(st, ast.ClassDef)}
    optional = lambda p: ('sub', ('typing', 'Optional'), (p,))   # noqa: E731
    attribute = lambda p: ('sub', ('lib', 'bb', 'Attribute'), (p,))   # noqa: E731
    for dt in ns.data_types:
        cname = class_name(dt)[1]
        node = cls_nodes.get(cname)
        if node is None:
            continue
        this = ('class', mod, cname)
        if isinstance(dt, ir.Struct):
            init = _find_fn(node, '__init__')
            params = {a.arg: a for a in init.args.args[1:]} if init else {}
            for f in dt.all_fields:
                p = pep484(ns, f.data_type, class_name)
                ck.hist('annotated-stone-type', _shape(f.data_type))
                a = params.get(ph.fmt_var(f.name, True))
                if a is not None and a.annotation is not None:
                    # the constructor accepts None for "leave unset": T and Optional[T] are both the field's type
                    _expect(ck, case, stubs, mod, '%s.__init__(%s)' % (cname, a.arg), a.annotation, (p, optional(p)), ns,
                            'ctor-parameter')
                elif a is not None:
                    case.fail('%s %s.__init__(%s) has no annotation' % (mod, cname, a.arg),
                              {'check': 'annotation', 'item': 'ctor-parameter', 'shape': 'missing'}, ns=ns.name)
            for f in dt.fields:
                p = pep484(ns, f.data_type, class_name)
                at = _find_attr(node, ph.fmt_func(f.name, check_reserved=True))
                if at is not None:
                    _expect(ck, case, stubs, mod, '%s.%s' % (cname, at.target.id), at.annotation, (attribute(p), p), ns,
                            'field-attribute')
        else:
            for f in dt.fields:
                fn = ph.fmt_func(f.name)
                isf = _find_fn(node, 'is_' + fn)
                if isf is not None:
                    if isf.returns is None:
                        case.fail('%s %s.is_%s has no return annotation' % (mod, cname, fn),
                                  {'check': 'annotation', 'item': 'is-helper', 'shape': 'missing'}, ns=ns.name)
                    else:
                        _expect(ck, case, stubs, mod, '%s.is_%s ->' % (cname, fn), isf.returns, (('builtin', 'bool'),), ns,
                                'is-helper')
                if isinstance(f.data_type, ir.Void):
                    at = _find_attr(node, ph.fmt_var(f.name))
                    if at is not None:
                        _expect(ck, case, stubs, mod, '%s.%s' % (cname, at.target.id), at.annotation, (this,), ns, 'void-tag')
                    continue
                p = pep484(ns, f.data_type, class_name)
                ck.hist('annotated-stone-type', _shape(f.data_type))
                ctor = _find_fn(node, ph.fmt_func(f.name, check_reserved=True))
                if ctor is not None:
                    args = ctor.args.args[1:]
                    if len(args) == 1 and args[0].annotation is not None:
                        _expect(ck, case, stubs, mod, '%s.%s(val)' % (cname, ctor.name), args[0].annotation, (p,), ns,
                                'tag-value')
                    else:
                        case.fail('%s %s.%s: tag constructor without one annotated parameter' % (mod, cname, ctor.name),
                                  {'check': 'annotation', 'item': 'tag-value', 'shape': 'missing'}, ns=ns.name)
                    if ctor.returns is not None:
                        _expect(ck, case, stubs, mod, '%s.%s ->' % (cname, ctor.name), ctor.returns, (this,), ns,
                                'tag-constructor-result')
                get = _find_fn(node, 'get_' + fn)
                if get is not None:
                    if get.returns is None:
                        case.fail('%s %s.get_%s has no return annotation' % (mod, cname, fn),
                                  {'check': 'annotation', 'item': 'get-helper', 'shape': 'missing'}, ns=ns.name)
                    else:
                        _expect(ck, case, stubs, mod, '%s.get_%s ->' % (cname, fn), get.returns, (p,), ns, 'get-helper')
    for st in m.tree.body:
        if isinstance(st, ast.AnnAssign) and isinstance(st.target, ast.Name):
            got = canon_ann(stubs, mod, st.annotation)
            if st.target.id.endswith('_validator'):
                if got != ('lib', 'bv', 'Validator'):
                    case.fail('%s %s is annotated %s' % (mod, st.target.id, ast.unparse(st.annotation)),
                              {'check': 'annotation', 'item': 'validator', 'shape': 'different-type'}, ns=ns.name)
            elif got != ('lib', 'bb', 'Route'):
                case.fail('%s %s is annotated %s' % (mod, st.target.id, ast.unparse(st.annotation)),
                          {'check': 'annotation', 'item': 'route', 'shape': 'different-type'}, ns=ns.name)


def _shape(t):
    from stone import ir
    if isinstance(t, ir.Alias):
        return 'Alias>' + _shape(t.data_type)
    if isinstance(t, ir.Nullable):
        return 'Nullable>' + _shape(t.data_type)
    if isinstance(t, ir.List):
        return 'List'
    if isinstance(t, ir.Map):
        return 'Map'
    if isinstance(t, (ir.Struct, ir.Union)):
        return 'User'
    return 'prim'


def _direct_namespaces(ns):
    """namespaces the text of `ns` itself mentions in field / tag / parameter / alias / route types"""
    from stone import ir
    out = set()

    def walk(t):
        if isinstance(t, (ir.Struct, ir.Union, ir.Alias)):
            out.add(t.namespace.name)
        elif isinstance(t, ir.Map):
            walk(t.key_data_type)
            walk(t.value_data_type)
        elif isinstance(t, (ir.List, ir.Nullable)):
            walk(t.data_type)
    for dt in ns.data_types:
        for f in dt.fields:
            walk(f.data_type)
        if dt.parent_type is not None:
            out.add(dt.parent_type.namespace.name)
    for a in ns.annotation_types:
        for p in a.params:
            walk(p.data_type)
    return out


def _closure(ck, case, api, stubs, mod, m, ns, fmt_namespace):
    import datetime as _dt
    from stone.backends.python_rsrc import stone_base as bb, stone_validators as bv
    real_mods = {'datetime': _dt}
    ns_mods = {fmt_namespace(n): n for n in api.namespaces}
    seen = set()
    for where, node in m.annotations:
        for root, path in root_names(node):
            key = (root, path)
            if key in seen:
                continue
            seen.add(key)
            b = m.bound.get(root)
            if b is None:
                if hasattr(builtins, root) and not path:
                    ck.stat('closure.builtin')
                    continue
                if root in ns_mods and root not in stubs.mods[mod].bound:
                    direct = ns_mods[root] in _direct_namespaces(ns)
                    case.fail('%s %s: annotation uses %s.%s but the stub neither imports nor defines %s%s' % (
                        mod, where, root, '.'.join(path), root,
                        '' if direct else ' (namespace reached only through the target of a foreign alias or an inherited field)'),
                        {'check': 'annotation-names', 'missing': 'namespace-module',
                         'reference': 'direct' if direct else 'indirect'},
                        ns=ns.name, where=where, name=root)
                else:
                    case.fail('%s %s: annotation uses %s which the stub neither imports nor defines' % (mod, where, root),
                              {'check': 'annotation-names', 'missing': 'name', 'name': root}, ns=ns.name, where=where)
                continue
            ck.stat('closure.resolved')
            # attribute references must exist in what the name is bound to
            if not path:
                if b[0] == 'typing' and not hasattr(typing, b[1]):
                    case.fail('%s imports %s from typing, which does not define it' % (mod, b[1]),
                              {'check': 'annotation-names', 'missing': 'typing-attribute', 'name': b[1]}, ns=ns.name)
                continue
            target = None
            if b[0] == 'lib':
                target = bb if b[1] == 'stone_base' else bv if b[1] == 'stone_validators' else None
                ok = target is not None and hasattr(target, path[0])
            elif b[0] == 'module':
                ok = b[1] in real_mods and hasattr(real_mods[b[1]], path[0])
            elif b[0] == 'ns':
                ok = b[1] in stubs.mods and (path[0] in stubs.mods[b[1]].bound)
            else:
                ok = False
            if not ok:
                case.fail('%s %s: %s.%s does not exist in what %s is bound to' % (mod, where, root, '.'.join(path), root),
                          {'check': 'annotation-names', 'missing': 'attribute', 'bound': b[0]}, ns=ns.name, where=where)
            else:
                ck.stat('closure.attribute-exists')


# ------------------------------------------------------------------------------------------------------------------
# suites

def report(ck, case):
    if case is None:
        return
    for what, sig, detail in case.problems:
        ck.failing_input(what, sig, case.case_dict(detail=detail))


def suite_seeds(ck):
    labels = list(SEEDS)
    ck.stat('seed.cases', len(labels))
    for label, case in zip(labels, run_cases(ck, [(SEEDS[l], 'seed:' + l) for l in labels])):
        if case is None:
            ck.note('seed %s rejected by the compiler' % label)
        report(ck, case)


def suite_generated(ck, n_per_preset, batch=25):
    from harness import specgen
    for preset in PRESETS:
        done = 0
        while done < n_per_preset:
            if ck.budget_s and ck.elapsed() > ck.budget_s:
                return
            todo = []
            for i in range(done, min(done + batch, n_per_preset)):
                model = specgen.gen_model(ck.rng, preset)
                todo.append((specgen.render(model, None), '%s#%d' % (preset, i)))
                ck.hist('preset', preset)
            for (specs, label), case in zip(todo, run_cases(ck, todo)):
                if case is not None:
                    ck.hist('namespaces', len(specs) if len(specs) < 6 else '6+')
                    if label.endswith(('#0', '#1')):
                        ck.sample({'preset': preset, 'files': [p for p, _ in specs], 'problems': len(case.problems)})
                report(ck, case)
            done += len(todo)


# ------------------------------------------------------------------------------------------------------------------
# sparse namespaces
#
# The imports of a stub are collected per namespace by side effects of the emission code (ImportTracker): every place
# that writes `Optional[` / `List[` / `Dict[` / `datetime.` / `Text` has to register the import itself. In a namespace
# of an ordinary spec each of these names is registered many times over, so one emission site that loses its
# registration is hidden by its neighbours, and the specs of `specgen` practically never isolate a site. The specs built
# here do: a provider namespace `prov` (rich on purpose) and leaf namespaces that hold ONE declaration with ONE member
# whose annotation needs something ("feature"), everything else in the leaf being of types that need no import
# (int / bool / float / bytes). The member reaches the leaf through every route the generators know: an own field, a
# field inherited from a parent in another namespace (directly, through a third namespace, through a local parent), a
# foreign alias, a union tag, an annotation-type parameter; controls (an extended union, a lone alias, a lone route)
# need nothing. `sparse_matrix` enumerates site x feature, `sparse_random` draws nested feature types.

PLAIN_TYPES = ('Int32', 'UInt64', 'Boolean', 'Float64', 'Bytes', 'Int64', 'Float32')

# (key, type text with {q} = qualifier of provider types, default literal or None, is a primitive (possibly nullable))
FEATURES = [
    ('default-int', 'Int32', '7', True),
    ('default-bool', 'Boolean', 'true', True),
    ('default-float', 'Float64', '1.5', True),
    ('default-string', 'String', '"s"', True),
    ('default-timestamp', 'Timestamp("%Y")', '"2020"', True),
    ('default-tag', '{q}Mode', 'on', False),
    ('nullable-prim', 'Int32?', None, True),
    ('nullable-bytes', 'Bytes?', None, True),
    ('nullable-user', '{q}Foo?', None, False),
    ('list-prim', 'List(Int32)', None, False),
    ('list-user', 'List({q}Foo)', None, False),
    ('map', 'Map(String, Int32)', None, False),
    ('map-plain-value', 'Map(String, Boolean)', None, False),
    ('timestamp', 'Timestamp("%Y-%m-%d")', None, True),
    ('string', 'String', None, True),
    ('user', '{q}Foo', None, False),
    ('user-union', '{q}Mode', None, False),
    ('plain', 'Int32', None, True),
]

SITES = ('own', 'inherit', 'inherit-nothing-added', 'inherit-via-namespace', 'inherit-via-local-parent', 'alias', 'tag',
         'tag-alias', 'annotation-param', 'control-union-extends', 'control-alias-only', 'control-route-only')

PROV_COMMON = {
    'Foo': ['struct Foo', '    n Int32', ''],
    'Mode': ['union Mode', '    on', '    off', ''],
}


def _plain_fields(rng, prefix, lo=0, hi=2):
    return ['    %s%d %s' % (prefix, i, rng.choice(PLAIN_TYPES)) for i in range(rng.randint(lo, hi))]


def _field_line(name, ftype, default, q):
    return '    %s %s%s' % (name, ftype.replace('{q}', q), '' if default is None else ' = ' + default)


def sparse_leaf(rng, idx, site, feature, share=None, reuse=0.6):
    """One leaf namespace `lf<idx>` (and what it needs in the provider / in a namespace between), or None when the
    combination is not expressible in Stone. `share` (a dict kept per spec): leaves of the same feature may use the SAME
    provider definition (several subtypes of one parent, several users of one alias), which is what exposes state kept
    across namespaces."""
    key, ftype, default, prim = feature
    ns = 'lf%d' % idx
    foreign = '{q}' in ftype
    prov = []          # definition blocks of the provider namespace
    extra = []         # [(namespace name, lines)] of namespaces between provider and leaf
    body = []
    imports = {'prov'}
    L = 'L%d' % idx

    def provide(kind, make):
        k = (kind, ftype, default)
        if share is not None and k in share and rng.random() < reuse:
            name, block = share[k]
        else:
            name = '%s%d' % (kind, idx)
            block = make(name)
            if share is not None:
                share[k] = (name, block)
        prov.append(block)
        return name

    def parent_block(name):
        return (['struct %s' % name] + _plain_fields(rng, 'pa', 0, 1) + [_field_line('feat', ftype, default, '')]
                + _plain_fields(rng, 'pb', 0, 1) + [''])

    def alias_block(name):
        return ['alias %s = %s' % (name, ftype.replace('{q}', '')), '']

    def union_block(name):
        return ['union %s' % name, '    base_tag', _field_line('feat', ftype, None, ''), '']

    if site == 'own':
        body = ['struct %s' % L] + _plain_fields(rng, 'a') + [_field_line('feat', ftype, default, 'prov.')] + _plain_fields(rng, 'b')
        if not foreign:
            imports = set()
    elif site in ('inherit', 'inherit-nothing-added'):
        P = provide('P', parent_block)
        own = _plain_fields(rng, 'own', 1, 2) if site == 'inherit' else ['    "Adds nothing."']
        body = ['struct %s extends prov.%s' % (L, P)] + own
    elif site == 'inherit-via-namespace':
        if foreign:
            return None        # the leaf would mention `prov` without naming it anywhere (the listed finding of C15)
        P = provide('P', parent_block)
        mid = 'mid%d' % idx
        extra.append((mid, ['namespace %s' % mid, '', 'import prov', '', 'struct M%d extends prov.%s' % (idx, P)]
                      + _plain_fields(rng, 'm', 1, 1) + ['']))
        imports = {mid}
        body = ['struct %s extends %s.M%d' % (L, mid, idx)] + _plain_fields(rng, 'own', 1, 2)
    elif site == 'inherit-via-local-parent':
        P = provide('P', parent_block)
        body = (['struct M%d extends prov.%s' % (idx, P)] + _plain_fields(rng, 'm', 1, 1) + ['']
                + ['struct %s extends M%d' % (L, idx)] + _plain_fields(rng, 'own', 1, 2))
    elif site in ('alias', 'tag-alias'):
        if site == 'tag-alias' and default is not None:
            return None
        A = provide('A', alias_block)
        if site == 'alias':
            body = ['struct %s' % L] + _plain_fields(rng, 'a') + [_field_line('feat', 'prov.' + A, default, 'prov.')] + _plain_fields(rng, 'b')
        else:
            body = ['union %s' % L, '    nothing', '    feat prov.%s' % A] + _plain_fields(rng, 't', 0, 1)
    elif site == 'tag':
        if default is not None:
            return None
        body = ['union %s' % L, '    nothing', _field_line('feat', ftype, None, 'prov.')] + _plain_fields(rng, 't', 0, 1)
        if not foreign:
            imports = set()
    elif site == 'annotation-param':
        if not prim:
            return None
        body = ['annotation_type %s' % L] + _plain_fields(rng, 'a', 0, 1) + [_field_line('feat', ftype, default, '')]
        imports = set()
    elif site == 'control-union-extends':
        if default is not None:
            return None
        U = provide('U', union_block)
        body = ['union %s extends prov.%s' % (L, U), '    extra_tag']
    elif site == 'control-alias-only':
        body = ['alias %s = %s' % (L, ftype.replace('{q}', 'prov.'))]
        if not foreign:
            imports = set()
    elif site == 'control-route-only':
        P = provide('P', parent_block)
        body = ['route r%d(prov.%s, Void, Void)' % (idx, P)]
    else:
        raise ValueError(site)
    lines = ['namespace %s' % ns, ''] + ['import %s' % i for i in sorted(imports)] + ([''] if imports else []) + body + ['']
    return {'ns': ns, 'site': site, 'feature': key, 'lines': lines, 'prov': prov, 'extra': extra}


def sparse_assemble(leaves):
    """[(path, text)] of provider + namespaces between + leaves"""
    blocks = []
    for lf in leaves:
        for b in lf['prov']:
            if not any(b is x for x in blocks):        # a shared definition once
                blocks.append(b)
    text = '\n'.join(l for b in blocks for l in b)
    common = [PROV_COMMON[k] for k in ('Foo', 'Mode') if k in text or any(k in '\n'.join(lf['lines']) for lf in leaves)]
    specs = []
    if blocks or common:
        specs.append(('prov.stone', '\n'.join(['namespace prov', ''] + [l for b in common + blocks for l in b]) + '\n'))
    for lf in leaves:
        for name, lines in lf['extra']:
            specs.append((name + '.stone', '\n'.join(lines) + '\n'))
        specs.append((lf['ns'] + '.stone', '\n'.join(lf['lines']) + '\n'))
    return specs


def _nested_feature(rng):
    """a random type one or two constructors deep over primitives and provider types"""
    cores = [('Int32', True), ('Boolean', True), ('Float64', True), ('Bytes', True), ('String', True),
             ('Timestamp("%Y-%m-%dT%H:%M:%SZ")', True), ('{q}Foo', False), ('{q}Mode', False)]
    t, prim = rng.choice(cores)
    shape = []
    for _ in range(rng.randint(0, 2)):
        w = rng.choice(('list', 'map', 'nullable', 'list'))
        if w == 'nullable':
            if t.endswith('?'):
                continue
            t = t + '?'
        elif w == 'list':
            t, prim = 'List(%s)' % t, False
        else:
            t, prim = 'Map(String, %s)' % t, False
        shape.append(w)
    default = None
    if not shape and rng.random() < 0.5:
        default = {'Int32': '3', 'Boolean': 'false', 'Float64': '2.5', 'String': '"d"', '{q}Mode': 'off'}.get(t)
    key = '+'.join(shape) if shape else ('default' if default is not None else 'bare')
    return ('nested:' + key, t, default, prim)


def _run_sparse(ck, batch):
    """batch: [(leaves, label)]; a failure is reported on the smallest spec that still shows it: the leaf namespace
    the failure is in, with what it needs of the provider"""
    todo = [(sparse_assemble(leaves), label) for leaves, label in batch]
    for (leaves, label), case in zip(batch, run_cases(ck, todo)):
        if case is None:
            ck.note('sparse spec %s rejected by the compiler' % label)
            ck.stat('sparse.rejected')
            continue
        for lf in leaves:
            ck.hist('sparse.site', lf['site'])
            ck.hist('sparse.feature', lf['feature'])
        if not case.problems:
            continue
        by_ns = {lf['ns']: lf for lf in leaves}
        by_ns.update({name: lf for lf in leaves for name, _ in lf['extra']})
        reduced = {}

        def smaller(lf):
            """the leaf alone, then the leaf with the leaves that draw on the same provider definitions (in spec order)"""
            if lf['ns'] not in reduced:
                tag = '%s/%s:%s:%s' % (label, lf['ns'], lf['site'], lf['feature'])
                tries = [(run_case(ck, sparse_assemble([lf]), tag))]
                group = [o for o in leaves if o is lf or any(b is x for b in o['prov'] for x in lf['prov'])]
                if 1 < len(group) < len(leaves):
                    tries.append(run_case(ck, sparse_assemble(group), tag + '+sharing'))
                reduced[lf['ns']] = [t for t in tries if t is not None]
            return reduced[lf['ns']]

        for what, sig, detail in case.problems:
            lf = by_ns.get(detail.get('ns'))
            hit = None
            if lf is not None and len(leaves) > 1:
                for small in smaller(lf):
                    same = [p for p in small.problems if p[1] == sig]
                    if same:
                        hit = (same[0][0], small.case_dict(detail=same[0][2]))
                        break
            if hit:
                ck.failing_input(hit[0], sig, hit[1])
            else:
                ck.failing_input(what, sig, case.case_dict(detail=detail))


def suite_sparse_matrix(ck, per_spec=12):
    """every site x every feature, once, and where the leaf draws on a provider definition a twin leaf on the SAME
    definition in the same spec (state kept from one namespace to the next shows in the second); the cosmetic choices
    (number and types of the plain neighbours) come from ck.rng"""
    combos = [(s, f) for s in SITES for f in FEATURES]
    ck.rng.shuffle(combos)
    groups, n = [], 0
    for s, f in combos:
        share = {}
        lf = sparse_leaf(ck.rng, n, s, f, share)
        if lf is None:
            continue
        group = [lf]
        if lf['prov'] and not s.startswith('control-'):
            group.append(sparse_leaf(ck.rng, n + 1, s, f, share, reuse=1.0))
        n += len(group)
        groups.append(group)
    ck.stat('sparse.matrix-leaves', n)
    batch, cur = [], []
    for g in groups:
        if cur and len(cur) + len(g) > per_spec:
            batch.append((cur, 'sparse:matrix#%d' % len(batch)))
            cur = []
        cur = cur + g
    if cur:
        batch.append((cur, 'sparse:matrix#%d' % len(batch)))
    _run_sparse(ck, batch)


def suite_sparse_random(ck, n_specs, batch=20):
    done = 0
    while done < n_specs:
        if ck.budget_s and ck.elapsed() > ck.budget_s:
            return
        todo = []
        for i in range(done, min(done + batch, n_specs)):
            leaves = []
            share = {} if ck.rng.random() < 0.5 else None
            feats = [_nested_feature(ck.rng) if ck.rng.random() < 0.7 else ck.rng.choice(FEATURES) for _ in range(ck.rng.randint(1, 3))]
            for _ in range(ck.rng.randint(1, 7)):
                for _try in range(8):
                    # with sharing: few features per spec, so that leaves meet on the same provider definition
                    feat = ck.rng.choice(feats) if share is not None else (
                        _nested_feature(ck.rng) if ck.rng.random() < 0.7 else ck.rng.choice(FEATURES))
                    lf = sparse_leaf(ck.rng, len(leaves), ck.rng.choice(SITES[:9] if ck.rng.random() < 0.9 else SITES), feat, share)
                    if lf is not None:
                        leaves.append(lf)
                        break
            todo.append((leaves, 'sparse:random#%d' % i))
        _run_sparse(ck, todo)
        done += len(todo)


FMT_NAMES = ['AS', 'HTTPCode', 'getFile_info', 'camelCase', 'snake_case', 'X', 'x1', 'T1', '_Hidden', 'under_score_', 'URLSpec',
             'IOError2', 'a__b', 'class', 'for', 'pass', 'while', 'async', 'continue', 'break', 'do/thing', 'get-file', 'ABc',
             'ABC', 'aBC', 'Ab1C2', 'v2_style', 'V2api', 'HTTP2Code', 'FooBAR', 'foo', 'Foo', 'fooBar', 'FOO_BAR', 'x_', '__x', 'A',
             'a', '9lives', 'a9B', 'XMLHttpRequest', 'get_file_v2']


def suite_fmt(ck, extra_names=()):
    """`fmt_pascal`, `fmt_underscores`, `fmt_class(…, check_reserved)`, `fmt_var(…, check_reserved)`, `fmt_namespace`
    of the real helpers against `pyNaming`."""
    from stone.backends import helpers, python_helpers as ph
    names = list(dict.fromkeys(FMT_NAMES + list(extra_names)))
    rep = model_driver(ck, [{'op': 'decl.stub.fmt', 'names': names}])[0]
    for n, got in zip(names, rep['out']):
        real = [helpers.fmt_pascal(n), helpers.fmt_underscores(n), ph.fmt_class(n, True), ph.fmt_var(n, True), ph.fmt_namespace(n)]
        ck.case(('fmt', n))
        if real == got:
            ck.agree('decl.stub.fmt')
        else:
            ck.disagree('decl.stub.fmt', {'name': n}, real, got)


def spec_identifiers(n, rng):
    from harness import specgen
    out = set()
    for preset in ('default', 'fe'):
        for _ in range(n):
            model = specgen.gen_model(rng, preset)
            for ns in model.namespaces:
                out.add(ns.name)
                for d in ns.defs:
                    out.add(d.name)
                    for f in getattr(d, 'fields', None) or []:
                        out.add(f.name)
    return sorted(x for x in out if isinstance(x, str) and x.isascii())


RULE = ('hand seeds (alias names changed by fmt_class, foreign alias chain, inherited foreign field, one-of-everything, reserved '
        'words), sparse namespaces (one declaration whose single non-plain member needs an import, reached as own field / '
        'inherited from another namespace directly, through a third namespace or a local parent / foreign alias / union tag / '
        'annotation parameter: every site x every feature once, then random nested types), then generated legal specs of the '
        'presets rt / py_safe / routes; per namespace: parsed .pyi vs stubNs, '
        'introspected module vs rtNs, judged names / resolved members / bases / constructor parameters / annotations vs the '
        'independent PEP 484 mapping / name resolution of every annotation on the real artefacts')


def replay(ck, path):
    rec = json.load(open(path))
    case = rec.get('case', rec)
    if 'specs' not in case:
        print('replay: nothing executable recorded (%s)' % (rec.get('what') or rec.get('broken')))
        return 0
    ck.build()
    print('replaying %s: %s' % (case.get('label'), rec.get('what', '')))
    for p, text in case['specs']:
        print('--- %s\n%s' % (p, text))
    c = run_case(ck, [tuple(s) for s in case['specs']], case.get('label', 'replay'))
    if c is None:
        print('replay: the spec is no longer in the domain (compiler rejects it)')
        return 0
    for what, sig, _detail in c.problems:
        print('FAILS: %s\n       signature %s' % (what, json.dumps(sig, sort_keys=True)))
    want = rec.get('signature')
    hit = [p for p in c.problems if want is None or p[1] == want]
    for name, s in ck.suites.items():
        if s['disagreements']:
            print('model disagreement in %s: %s' % (name, json.dumps(s['first'][:1], default=repr)[:1200]))
    print('replay: %s' % ('failure reproduced' if hit else 'recorded failure NOT reproduced'))
    return 1 if hit else 0
